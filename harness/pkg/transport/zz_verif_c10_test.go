//go:build go1.25

package transport

// C10 — no unauthenticated datagram can crash or wedge a transport endpoint.
//
// A case puts a real endpoint (Server or Client over vlib/simnet inside a synctest bubble) into a drawn state and
// configuration, throws a drawn junk sequence at it and then checks the three clauses of the statement:
//   - nothing panicked (a panic in the Serve / listen / handshake goroutines kills the process; the driver recovers the
//     case from the current-*.json file and reports panic:<frame>:<class>),
//   - an honest handshake from a fresh address completes and carries one message each way,
//   - every session that was established before the junk still carries a probe message each way.
// Junk is never authentic for a live session: it is random, or derived from valid messages of OTHER handshakes / of this
// case's own honest traffic by truncation and header/length-field mutation, or produced by clients that are honest
// protocol speakers but name arbitrary server names / aim at any certificate's KEM key (all of that happens before the
// client is authenticated), or well-formed transport / control datagrams sealed under keys that need no secret (all-zero,
// the session id, public wire bytes ...), or messages whose length field and real length were moved TOGETHER to a drawn
// large / boundary value, or COMPLETE well-formed handshakes by clients the server's client-verification policy (CA
// store / authorized keys / both: a drawn dimension of the configuration) does not admit. A real-time stress unit (abandoned handshakes with a millisecond handshake timeout racing
// session-typed datagrams, wedge proven from goroutine dumps) lives in zz_verif_c10s_test.go.

import (
	"bytes"
	"crypto/rand"
	"encoding/json"
	"flag"
	"fmt"
	"net"
	"os"
	"sort"
	"strings"
	"sync/atomic"
	"sync"
	"testing"
	"testing/synctest"
	"time"

	"pgregory.net/rapid"

	"hop.computer/hop/authkeys"
	"hop.computer/hop/certs"
	"hop.computer/hop/keys"
	"hop.computer/hop/pkg/glob"
	"verif.local/vlib"
	"verif.local/vlib/simnet"
)

// Signatures of the process-killing findings of this property. While one of them is listed "open:" in
// known_findings.txt its trigger class is excluded by construction (generator) and by a guard on the final bytes
// (runner), so that the search continues past it; the exclusions are counted (label excluded:<sig> / rec.Excluded).
const (
	c10SigSrvShort = "panic:transport.(*Server).handleSessionMessage:makeslice"
	c10SigCliShort = "panic:transport.(*Client).handleSessionMessage:makeslice"
	c10SigHidLoop  = "panic:transport.(*Server).readPQClientRequestHidden:slice-bounds"
)

func c10Open(sig string) bool { return vlib.GetEnv().Replay == "" && vlib.KnownOpen(sig) }

// ---------------------------------------------------------------------------
// certificate world: three virtual hosts (host 0 is the shared world's server)

type c10Host struct {
	Name    string
	Pattern string
	Key     *keys.X25519KeyPair
	KEM     *keys.KEMKeyPair
	Leaf    *certs.Certificate
}

var (
	c10HostsOnce sync.Once
	c10HostList  []c10Host
)

func c10Hosts() []c10Host {
	c10HostsOnce.Do(func() {
		w := vGetWorld()
		c10HostList = append(c10HostList, c10Host{Name: "server.verif.test", Pattern: "server.verif.test", Key: w.SrvKey, KEM: w.SrvKEM, Leaf: w.SrvLeaf})
		for _, x := range [][2]string{{"www.second.test", "*.second.test"}, {"third-host", "third-*"}} {
			k, leaf := vLeaf(w.Inter, x[0])
			kem, err := keys.GenerateKEMKeyPair(rand.Reader)
			vMust(err)
			c10HostList = append(c10HostList, c10Host{Name: x[0], Pattern: x[1], Key: k, KEM: kem, Leaf: leaf})
		}
	})
	return c10HostList
}

type c10Cfg struct {
	Hidden   bool `json:"hidden"`
	Certs    int  `json:"certs"`              // 1: ServerConfig.Certificate; 2,3: virtual hosts through GetCertificate/GetCertList
	NoKEM0   bool `json:"noKem0,omitempty"`   // the first virtual host has no KEM key (not usable in hidden mode)
	Fallback bool `json:"fallback,omitempty"` // the last virtual host has pattern "*"
	// Policy: how the server verifies clients (ServerConfig.ClientVerify), the options hopserver.NewHopServer builds:
	// "" certificate validation only (CA store); "keys" authorized keys only (certificate validation disabled: the zero
	// Store; both honest clients' keys are in the set); "both" authorized keys, then the CA store (the first honest
	// client's key is in the set, the second honest client is admitted through its certificate chain after a miss in the set)
	Policy string `json:"policy,omitempty"`
}

func (c c10Cfg) String() string {
	s := "disc"
	if c.Hidden {
		s = "hidden"
	}
	s += fmt.Sprintf("/certs%d", c.Certs)
	if c.NoKEM0 {
		s += "/nokem0"
	}
	if c.Fallback {
		s += "/fallback"
	}
	if c.Policy != "" {
		s += "/policy-" + c.Policy
	}
	return s
}

// ---------------------------------------------------------------------------
// strangers: clients that speak the protocol flawlessly and hold the private key of the certificate they present, but
// are NOT admitted by any client-verification policy of this harness (issued once per process on the real clock)

type c10Stranger struct {
	Tag   string
	Key   *keys.X25519KeyPair
	Leaf  *certs.Certificate
	Inter *certs.Certificate
}

var (
	c10StrangersOnce sync.Once
	c10StrangerList  []c10Stranger
)

const c10StrangerRemoved = 5 // index of the stranger whose key was authorized once and removed again

func c10Strangers() []c10Stranger {
	c10StrangersOnce.Do(func() {
		w := vGetWorld()
		ident := func(name string) (*keys.X25519KeyPair, *certs.Identity) {
			k := keys.GenerateNewX25519KeyPair()
			return k, &certs.Identity{PublicKey: k.Public, Names: []certs.Name{certs.RawStringName(name)}}
		}
		add := func(tag string, k *keys.X25519KeyPair, leaf *certs.Certificate, err error, inter *certs.Certificate) {
			vMust(err)
			c10StrangerList = append(c10StrangerList, c10Stranger{Tag: tag, Key: k, Leaf: leaf, Inter: inter})
		}
		k, id := ident("stranger-self-signed")
		leaf, err := certs.SelfSignLeaf(id)
		add("self-signed-unknown-key", k, leaf, err, nil)
		other := c01OtherWorld().Inter
		k, id = ident("stranger-other-ca")
		leaf, err = certs.IssueLeaf(other, id)
		add("chain-of-an-untrusted-ca", k, leaf, err, other)
		k, id = ident("stranger-expired")
		leaf, err = certs.IssueLeafAt(w.Inter, id, w.Inter.IssuedAt, 5*time.Second)
		add("expired-leaf-of-the-trusted-ca", k, leaf, err, w.Inter)
		k, id = ident("stranger-not-yet-valid")
		leaf, err = certs.IssueLeafAt(w.Inter, id, w.Now.Add(24*time.Hour), 48*time.Hour)
		add("not-yet-valid-leaf-of-the-trusted-ca", k, leaf, err, w.Inter)
		// a valid leaf of an intermediate the server does not hold (its store has the root only), presented WITHOUT it
		k, id = ident("stranger-no-intermediate")
		leaf, err = certs.IssueLeaf(w.Inter, id)
		add("leaf-without-its-intermediate", k, leaf, err, nil)
		k, id = ident("stranger-removed-key")
		leaf, err = certs.SelfSignLeaf(id)
		add("self-signed-key-removed-from-the-set", k, leaf, err, nil)
	})
	return c10StrangerList
}

// c10ClientPolicy builds ServerConfig.ClientVerify for a policy (see c10Cfg.Policy); a fresh key set per server.
func c10ClientPolicy(policy string) *VerifyConfig {
	w := vGetWorld()
	vc := &VerifyConfig{CurrentTime: w.Now}
	if policy != "keys" {
		vc.Store = w.store()
	}
	if policy == "keys" || policy == "both" {
		set := authkeys.NewSyncAuthKeySet()
		set.AddKey(keys.GenerateNewX25519KeyPair().Public) // somebody else's key
		set.AddKey(w.CliLeaf.PublicKey)
		if policy == "keys" {
			set.AddKey(w.Cli2Leaf.PublicKey)
		}
		rm := c10Strangers()[c10StrangerRemoved].Leaf.PublicKey
		set.AddKey(rm)
		set.RemoveKey(rm)
		vc.AuthKeys, vc.AuthKeysAllowed = set, true
	}
	return vc
}

type c10VHost struct {
	Pattern     string
	Certificate Certificate
}

// c10ServerConfig builds the server configuration. The several-certificates form mirrors the closures that
// hopserver.NewHopServer builds over VirtualHosts.Match (first pattern that globs the name wins; the hidden-mode list is
// looked up by HiddenModeVHostNames and appends the name to Certificate.HostNames on every call, as the original does).
func c10ServerConfig(c c10Cfg) ServerConfig {
	w := vGetWorld()
	if c.Certs <= 1 {
		sc := w.ServerConfig(c.Hidden)
		sc.ClientVerify = c10ClientPolicy(c.Policy)
		return sc
	}
	hosts := c10Hosts()[:c.Certs]
	vhosts := make([]c10VHost, 0, len(hosts))
	var hiddenNames []string
	for i, h := range hosts {
		kem := h.KEM
		if c.NoKEM0 && i == 0 {
			kem = nil
		}
		tc, err := MakeCert(h.Key, h.Leaf, w.Inter, kem)
		vMust(err)
		p := h.Pattern
		if c.Fallback && i == len(hosts)-1 {
			p = "*"
		}
		vhosts = append(vhosts, c10VHost{Pattern: p, Certificate: *tc})
		if c.Hidden {
			hiddenNames = append(hiddenNames, h.Name)
		}
	}
	match := func(name string) *c10VHost {
		for i := range vhosts {
			if glob.Glob(vhosts[i].Pattern, name) {
				return &vhosts[i]
			}
		}
		return nil
	}
	getCert := func(info ClientHandshakeInfo) (*Certificate, error) {
		if h := match(string(info.ServerName.Label)); h != nil {
			return &h.Certificate, nil
		}
		return nil, fmt.Errorf("%v did not match a host block", info.ServerName)
	}
	getList := func() ([]*Certificate, error) {
		var out []*Certificate
		if len(hiddenNames) > len(vhosts) {
			return nil, fmt.Errorf("number of server Hidden Mode VHost Names exceed the number of current vhosts")
		}
		for _, n := range hiddenNames {
			if h := match(n); h != nil {
				h.Certificate.HostNames = append(h.Certificate.HostNames, n)
				out = append(out, &h.Certificate)
			}
		}
		if len(out) == 0 {
			return nil, fmt.Errorf("no certificate found on the server")
		}
		return out, nil
	}
	return ServerConfig{
		GetCertificate:       getCert,
		GetCertList:          getList,
		HandshakeTimeout:     5 * time.Second,
		ClientVerify:         c10ClientPolicy(c.Policy),
		HiddenModeVHostNames: hiddenNames,
		IsHidden:             c.Hidden,
	}
}

// c10ClientConfig: an honest client that wants virtual host `host`.
func c10ClientConfig(hidden bool, host int, second bool) ClientConfig {
	w := vGetWorld()
	cc := w.ClientConfig(hidden, second)
	h := c10Hosts()[host]
	cc.Verify.Name = certs.RawStringName(h.Name)
	if hidden {
		pk := h.KEM.Public
		cc.ServerKEMKey = &pk
	}
	return cc
}

// server names a not yet authenticated client may put into its ClientAck
type c10Name struct {
	Tag  string
	Name certs.Name
}

func c10HostileNames() []c10Name {
	rep := func(b byte, n int) []byte { return bytes.Repeat([]byte{b}, n) }
	return []c10Name{
		{"empty-raw", certs.Name{Label: []byte{}, Type: certs.TypeRaw}},
		{"nil-dns", certs.Name{Label: nil, Type: certs.TypeDNSName}},
		{"len252", certs.Name{Label: rep('a', 252), Type: certs.TypeRaw}},
		{"len253", certs.Name{Label: rep('a', 253), Type: certs.TypeRaw}},
		{"type0x7f", certs.Name{Label: []byte("server.verif.test"), Type: certs.IDType(0x7f)}},
		{"type0xff-empty", certs.Name{Label: []byte{}, Type: certs.IDType(0xff)}},
		{"star", certs.RawStringName("*")},
		{"pattern", certs.RawStringName("*.second.test")},
		{"meta", certs.RawStringName("[a-z]?*\\{x,y}**")},
		{"nul", certs.RawStringName("server.verif.test\x00")},
		{"bad-utf8", certs.Name{Label: []byte{0xff, 0xfe, 0xc0, 0x80}, Type: certs.TypeRaw}},
		{"host1", certs.RawStringName("www.second.test")},
		{"host2-dns", certs.DNSName("third-host")},
		{"ipv4", certs.Name{Label: []byte{10, 0, 0, 1}, Type: certs.TypeIPv4Address}},
		{"ipv6-short", certs.Name{Label: []byte{1, 2, 3}, Type: certs.TypeIPv6Address}},
		{"unknown-host", certs.RawStringName("no.such.host")},
		{"stars252", certs.Name{Label: rep('*', 252), Type: certs.TypeRaw}},
	}
}

// ---------------------------------------------------------------------------
// addresses

func c10CliAddr(i int) *net.UDPAddr {
	return simnet.Addr(fmt.Sprintf("10.0.%d.%d", 1+i/200, 1+i%200), 40000+i)
}
func c10EvilAddr(i int) *net.UDPAddr  { return simnet.Addr(fmt.Sprintf("10.6.6.%d", 1+i%250), 600+i) }
func c10ActorAddr(i int) *net.UDPAddr { return simnet.Addr(fmt.Sprintf("10.7.7.%d", 1+i%250), 700+i) }

var c10ProbeAddr = simnet.Addr("10.9.9.9", 49999)

// ---------------------------------------------------------------------------
// table of valid messages, captured once per process from honest runs of both modes

type c10Tmpl struct {
	Name     string
	Data     []byte
	ToServer bool
}

var (
	c10TableOnce sync.Once
	c10TableVal  []c10Tmpl
	c10TableErr  string
)

var c10TypeNames = map[byte]string{1: "ClientHello", 2: "ServerHello", 3: "ClientAck", 4: "ServerAuth", 5: "ClientAuth",
	8: "ClientRequestHidden", 9: "ServerResponseHidden", 0x10: "Transport", 0x80: "Control"}

var c10ValidTypes = []int{1, 2, 3, 4, 5, 8, 9, 0x10, 0x80}

func c10TypeName(d []byte) string {
	if len(d) == 0 {
		return "empty"
	}
	if n, ok := c10TypeNames[d[0]]; ok {
		return n
	}
	return "other"
}

func c10AddrEq(a, b *net.UDPAddr) bool { return a != nil && b != nil && a.String() == b.String() }

// c10Capture records one honest run (inside a bubble when a *testing.T is available; in real time for fuzz seeding).
func c10Capture(t *testing.T, hidden bool) (out []c10Tmpl, problem string) {
	w := vGetWorld()
	body := func() {
		env := vStartServer(w.ServerConfig(hidden))
		defer env.Stop()
		var mu sync.Mutex
		env.Net.Filter = func(d simnet.Datagram) []simnet.Datagram {
			mu.Lock()
			out = append(out, c10Tmpl{Name: c10TypeName(d.Data), Data: append([]byte(nil), d.Data...), ToServer: c10AddrEq(d.Dst, vSrvAddr)})
			mu.Unlock()
			return []simnet.Datagram{d}
		}
		cli, _ := env.NewClient(vCli2Addr, w.ClientConfig(hidden, true))
		defer cli.Close()
		if err := cli.Handshake(); err != nil {
			problem = "capture handshake: " + err.Error()
			return
		}
		h, err := env.Srv.AcceptTimeout(2 * time.Second)
		if err != nil {
			problem = "capture accept: " + err.Error()
			return
		}
		buf := make([]byte, 100)
		if err := cli.WriteMsg(vlib.Fill(1, 16)); err != nil {
			problem = "capture write: " + err.Error()
			return
		}
		h.SetReadDeadline(time.Now().Add(time.Second))
		if _, err := h.ReadMsg(buf); err != nil {
			problem = "capture read: " + err.Error()
			return
		}
		if err := h.WriteMsg(vlib.Fill(2, 24)); err != nil {
			problem = "capture write back: " + err.Error()
			return
		}
		cli.SetReadDeadline(time.Now().Add(time.Second))
		if _, err := cli.ReadMsg(buf); err != nil {
			problem = "capture read back: " + err.Error()
			return
		}
		// a well-formed control (close) message of the capture session; never sent, only a template
		cli.ss.m.Lock()
		pkt, err := cli.ss.sealPacketLocked(MessageTypeControl, []byte{byte(ControlMessageClose)}, cli.ss.writeKey)
		cli.ss.m.Unlock()
		if err != nil {
			problem = "capture control: " + err.Error()
			return
		}
		mu.Lock()
		out = append(out, c10Tmpl{Name: "Control", Data: pkt, ToServer: true})
		mu.Unlock()
	}
	if t == nil {
		body()
		return out, problem
	}
	res := vlib.Bubble(t, 60*time.Second, body)
	if res.Hung || res.Panic != "" {
		problem = "capture bubble: hung=" + fmt.Sprint(res.Hung) + " " + res.Panic
	}
	return out, problem
}

// c10Table returns the table: discoverable ClientHello, ServerHello, ClientAck, ServerAuth, ClientAuth, Transport (to
// server), Transport (to client), Control, then hidden ClientRequestHidden, ServerResponseHidden.
func c10Table(t *testing.T) []c10Tmpl {
	c10TableOnce.Do(func() {
		c10Hosts() // certificates must be issued on the real clock (outside any bubble)
		c10Strangers()
		d, p := c10Capture(t, false)
		if p != "" {
			c10TableErr = p
			return
		}
		h, p := c10Capture(t, true)
		if p != "" {
			c10TableErr = p
			return
		}
		want := []string{"ClientHello", "ServerHello", "ClientAck", "ServerAuth", "ClientAuth", "Transport", "Transport", "Control"}
		if len(d) != len(want) {
			c10TableErr = fmt.Sprintf("discoverable capture has %d datagrams, want %d", len(d), len(want))
			return
		}
		for i := range want {
			if d[i].Name != want[i] {
				c10TableErr = fmt.Sprintf("discoverable capture datagram %d is %s, want %s", i, d[i].Name, want[i])
				return
			}
			d[i].Name = "D:" + d[i].Name
		}
		d[5].Name, d[6].Name = "D:Transport-c2s", "D:Transport-s2c"
		if len(h) < 2 || h[0].Name != "ClientRequestHidden" || h[1].Name != "ServerResponseHidden" {
			c10TableErr = "hidden capture does not start with request, response"
			return
		}
		h[0].Name, h[1].Name = "H:ClientRequestHidden", "H:ServerResponseHidden"
		c10TableVal = append(d, h[0], h[1])
	})
	if c10TableErr != "" && t == nil {
		panic("VERIF-MACHINERY C10 cannot capture an honest run: " + c10TableErr)
	}
	if c10TableErr != "" {
		t.Fatalf("VERIF-MACHINERY C10 cannot capture an honest run: %s", c10TableErr)
	}
	return c10TableVal
}

// ---------------------------------------------------------------------------
// case

type c10Junk struct {
	K    string `json:"k"`              // rand | tmpl | hdr | seal | name | rawsni | hidreq | rawauth | rawhid | stranger (stranger: V = identity (c10Strangers), T = virtual host wish; the last two: Cut = length of the certificate-field plaintext (<0 natural), V / B1 = first / second length prefix (c10BlobFirst / c10BlobSecond), B2 = content, T = virtual host of rawhid)
	Src  int    `json:"src,omitempty"`  // 0: the peer's own address (server target: the handshaking / first established client; client target: the server); n>0: third address n (5: a third address with source port 0 - replies to it fail in the socket); -1: the address the replayed datagram of this case's own traffic (tmpl with T>=100) originally came from (the peer's own address for other junk)
	T    int    `json:"t,omitempty"`    // tmpl: index into the table of valid messages; 100+i: the i-th most recent datagram of this case's honest traffic (0 = a held-back message); 200+i: its i-th datagram in order of appearance (oldest first); 300+m: its most recent datagram of message type m
	F    string `json:"f,omitempty"`    // tmpl: mutated field: type | b1 | b2 | b3 | certlen | ctr | fit ("" none)
	V    int    `json:"v,omitempty"`    // value for F (type: -1 keeps; certlen: 0:0 1:1 2:0xffff 3:orig-1 4:orig+1; ctr: 0:zero 1:max 2:orig+1 3:random; fit: 0: N is the value of the length field, 1: N is the length of the whole datagram, 2: N is added to the template's own field value); hdr / seal: type byte; name: index; hidreq: host; rawsni: block-size byte
	N    int    `json:"n,omitempty"`    // fit: the 16-bit length field (bytes 2..3) is set to N, or to N minus the fixed part of the message (V=1), AND the datagram is resized so that its real length agrees with the field
	D    int    `json:"d,omitempty"`    // fit: the real length differs from the length the field announces by D bytes
	Ty   int    `json:"ty,omitempty"`   // fit: first byte (0 keeps the template's)
	Sid  int    `json:"sid,omitempty"`  // tmpl/hdr: bytes 4..8: 0 keep, 1 unknown id, 2+k live session id k
	Cut  int    `json:"cut,omitempty"`  // tmpl: truncate to Cut-1 bytes when Cut>0 (0: keep); rand/hdr: length / body length = Cut
	Pad  int    `json:"pad,omitempty"`  // tmpl: bytes appended
	Seed uint64 `json:"seed,omitempty"` // filler bytes
	B1   int    `json:"b1,omitempty"`   // rawsni: type byte; seal: key class (see c10SealKeys)
	B2   int    `json:"b2,omitempty"`   // rawsni: label-length byte; seal: counter 0: 0, 1: 1, 2: highest counter seen on the wire for that session id + 1, 3: random, 4: 2^64-1, 5: highest counter seen (a replayed counter)
}

type c10Case struct {
	Target    string    `json:"target"` // server | client
	Cfg       c10Cfg    `json:"cfg"`
	State     string    `json:"state"`               // server: idle | mid-ack-held | mid-auth-held | est | closing; client: hs-1 | hs-2 | open
	Sessions  int       `json:"sessions,omitempty"`  // server: sessions established before the junk
	Closed    int       `json:"closed,omitempty"`    // bit i: server-side handle of session i closed before the junk
	Release   bool      `json:"release,omitempty"`   // client hs-*: the genuine reply is delivered after the junk (otherwise the junk arrives instead of it)
	ProbeHost int       `json:"probeHost,omitempty"` // virtual host the final honest handshake aims at
	Junk      []c10Junk `json:"junk"`
	DelayMs   int       `json:"delayMs,omitempty"` // server target and open client: virtual milliseconds between the case's honest traffic and the junk (0: the junk arrives at the very instant the handshakes happened, so every timer it leaves behind is due at the same instant as theirs; 1000: while the timers of the honest handshakes are still running; 7000: after they have fired)
	SettleS   int       `json:"settleS,omitempty"` // server target and open client: virtual seconds between the junk and the oracle (the handshake timeout is 5 s: state that junk left behind expires in between)
}

// ---------------------------------------------------------------------------
// runtime of one case (inside the bubble)

type c10Sess struct {
	cli    *Client
	h      *Handle
	id     SessionID
	addr   *net.UDPAddr
	closed bool
}

type c10RT struct {
	t     *testing.T
	c     c10Case
	v     *vlib.Verdict
	rec   *vlib.Recorder
	env   *vEnv
	table []c10Tmpl

	mu       sync.Mutex
	live     [][]byte
	liveSrc  []*net.UDPAddr // liveSrc[i]: the address live[i] was sent from
	tmplSrc  *net.UDPAddr   // set by build: original source of the live template just used (nil: table template / no template)
	hold     func(d simnet.Datagram) bool
	held     []simnet.Datagram
	handles  map[SessionID]*Handle
	addrHost map[string]int // honest clients: address -> virtual host they aim at
	req0     map[string]bool

	acceptDone chan struct{}
	sess       []*c10Sess
	liveIDs    []SessionID
	clients    []*Client
	socks      []*simnet.Sock
	classes    map[string]bool
	labels     map[string]bool
	structured int
	injected   int
	actors     int
	strangers  int
	nextCli    int
	openClient *Client // client target, state open
}

func (r *c10RT) label(l string) {
	if !r.labels[l] {
		r.labels[l] = true
		r.v.Label(l)
	}
}

var c10ExcludedTotal int // datagrams / actors skipped in this process because of open findings

func (r *c10RT) excluded(sig string) {
	c10ExcludedTotal++
	r.label("excluded:" + sig)
	if r.rec != nil {
		r.rec.Excluded(sig)
	}
}

func (r *c10RT) filter(d simnet.Datagram) []simnet.Datagram {
	r.mu.Lock()
	r.live = append(r.live, append([]byte(nil), d.Data...))
	r.liveSrc = append(r.liveSrc, d.Src)
	if len(r.live) > 64 {
		r.live = r.live[len(r.live)-64:]
		r.liveSrc = r.liveSrc[len(r.liveSrc)-64:]
	}
	if len(d.Data) > 0 && d.Data[0] == byte(MessageTypeClientRequestHidden) {
		if h, ok := r.addrHost[d.Src.String()]; ok && h == r.firstListHost() {
			r.req0[string(d.Data)] = true
		}
	}
	h := r.hold
	if h != nil && h(d) {
		r.held = append(r.held, d)
		r.mu.Unlock()
		return nil
	}
	r.mu.Unlock()
	return []simnet.Datagram{d}
}

// firstListHost: the virtual host whose certificate comes first in GetCertList (hidden mode).
func (r *c10RT) firstListHost() int { return 0 }

// hidLoopGuard: with the trial-decryption finding open, a server that lists several certificates must not see a
// well-formed hidden request that the FIRST certificate does not accept.
func (r *c10RT) hidLoopGuard() bool {
	return c10Open(c10SigHidLoop) && r.c.Cfg.Hidden && r.c.Cfg.Certs >= 2
}

// hostFor maps a wish to a virtual host an honest client of this configuration can use.
func (r *c10RT) hostFor(i int) int {
	c := r.c.Cfg
	if c.Certs <= 1 {
		return 0
	}
	if r.hidLoopGuard() {
		return 0
	}
	if c.Hidden && c.NoKEM0 {
		return 1 + i%(c.Certs-1)
	}
	return i % c.Certs
}

func (r *c10RT) acceptLoop() {
	defer close(r.acceptDone)
	for {
		h, err := r.env.Srv.Accept()
		if err != nil || h == nil {
			return
		}
		r.mu.Lock()
		r.handles[h.ss.sessionID] = h
		r.mu.Unlock()
	}
}

// c10Handshake runs Handshake with a virtual watchdog; hung reports that Close was needed to make it return.
func c10Handshake(cli *Client, limit time.Duration) (err error, hung bool) {
	done := make(chan error, 1)
	go func() { done <- cli.Handshake() }()
	select {
	case err = <-done:
		return err, false
	case <-time.After(limit):
		cli.Close()
		err = <-done
		if err == nil {
			err = fmt.Errorf("handshake did not return within %v (virtual)", limit)
		}
		return err, true
	}
}

func (r *c10RT) newClient(addr *net.UDPAddr, cfg ClientConfig, host int) *Client {
	r.mu.Lock()
	r.addrHost[addr.String()] = host
	r.mu.Unlock()
	cli, sock := r.env.NewClient(addr, cfg)
	r.clients = append(r.clients, cli)
	r.socks = append(r.socks, sock)
	return cli
}

// establish runs an honest handshake from addr aimed at host and pairs it with the accepted handle.
func (r *c10RT) establish(addr *net.UDPAddr, host int, second bool) (*c10Sess, error) {
	cli := r.newClient(addr, c10ClientConfig(r.c.Cfg.Hidden, host, second), host)
	if err, _ := c10Handshake(cli, 6*time.Second); err != nil {
		return nil, fmt.Errorf("client handshake: %v", err)
	}
	s := &c10Sess{cli: cli, id: cli.ss.sessionID, addr: addr}
	c10Wait()
	r.mu.Lock()
	s.h = r.handles[s.id]
	r.mu.Unlock()
	if s.h == nil {
		return nil, fmt.Errorf("server did not offer session %x through Accept", s.id)
	}
	return s, nil
}

// probe sends one fresh message each way over the session.
func (r *c10RT) probe(s *c10Sess, seed uint64) error {
	buf := make([]byte, 256)
	m1 := vlib.Fill(seed, 20+int(seed%13))
	if err := s.cli.WriteMsg(m1); err != nil {
		return fmt.Errorf("client WriteMsg: %v", err)
	}
	s.h.SetReadDeadline(time.Now().Add(2 * time.Second))
	n, err := s.h.ReadMsg(buf)
	if err != nil {
		return fmt.Errorf("server ReadMsg: %v", err)
	}
	if !bytes.Equal(buf[:n], m1) {
		return fmt.Errorf("server read %x, client wrote %x", buf[:n], m1)
	}
	m2 := vlib.Fill(seed+1, 24+int(seed%7))
	if err := s.h.WriteMsg(m2); err != nil {
		return fmt.Errorf("server WriteMsg: %v", err)
	}
	s.cli.SetReadDeadline(time.Now().Add(2 * time.Second))
	n, err = s.cli.ReadMsg(buf)
	if err != nil {
		return fmt.Errorf("client ReadMsg: %v", err)
	}
	if !bytes.Equal(buf[:n], m2) {
		return fmt.Errorf("client read %x, server wrote %x", buf[:n], m2)
	}
	return nil
}

func (r *c10RT) srcAddr(j c10Junk, peer *net.UDPAddr) *net.UDPAddr {
	if j.Src < 0 && r.tmplSrc != nil {
		// the datagram is a copy of one of this case's own datagrams and comes from where the original came from
		r.label("src:original-address-of-the-copied-datagram")
		return r.tmplSrc
	}
	if j.Src <= 0 && peer != nil {
		return peer
	}
	if j.Src <= 0 {
		return c10EvilAddr(0)
	}
	if j.Src == 5 {
		// source port 0: the datagram arrives, every reply to it fails in the socket (EINVAL)
		a := c10EvilAddr(5)
		return &net.UDPAddr{IP: a.IP, Port: 0}
	}
	return c10EvilAddr(j.Src)
}

func (r *c10RT) sid(j c10Junk) (id [4]byte, live bool) {
	if j.Sid >= 2 && len(r.liveIDs) > 0 {
		return r.liveIDs[(j.Sid-2)%len(r.liveIDs)], true
	}
	copy(id[:], vlib.Fill(j.Seed^0x51d, 4))
	return id, false
}

// fixedPart: the number of bytes of a message of d's type that its 16-bit length field (bytes 2..3) does not count,
// taken from the valid message of that type in the table; the message's own length for types without a length field.
func (r *c10RT) fixedPart(d []byte) int {
	switch MessageType(d[0]) {
	case MessageTypeServerAuth, MessageTypeClientAuth, MessageTypeClientRequestHidden, MessageTypeServerResponseHidden:
		for _, tm := range r.table {
			if tm.Data[0] == d[0] {
				return len(tm.Data) - (int(tm.Data[2])<<8 | int(tm.Data[3]))
			}
		}
	}
	return len(d)
}

// c10FitClass names the size region of a resized datagram relative to the buffer sizes of package transport.
func c10FitClass(total int) string {
	switch {
	case total > MaxTotalPacketSize:
		return "above-MaxTotalPacketSize"
	case total > 1<<15:
		return "above-32K"
	case total > 2100:
		return "big"
	}
	return "small"
}

// c10FitBoundaries: lengths around every size constant a transport buffer or length computation is built from
// (65507 is the largest payload a real UDP/IPv4 socket delivers, 65535 the size of the receive buffers).
func c10FitBoundaries() []int {
	var out []int
	for _, b := range []int{0, 1 << 8, 1 << 14, 1 << 15, MaxPlaintextSize, MaxTotalPacketSize, 65507, 65535} {
		for d := -1; d <= 1; d++ {
			if v := b + d; v >= 0 && v <= 65535 {
				out = append(out, v)
			}
		}
	}
	return out
}

var c10SealKeyNames = []string{"zero-key", "ff-key", "session-id-key", "counting-key", "protocol-name-key", "wire-bytes-key", "random-key"}

// sealKey: keys an attacker can compute without any secret (and, as a control, a random one).
func (r *c10RT) sealKey(j c10Junk, id SessionID) (key [KeyLen]byte, name string) {
	k := ((j.B1 % len(c10SealKeyNames)) + len(c10SealKeyNames)) % len(c10SealKeyNames)
	switch k {
	case 0:
	case 1:
		for i := range key {
			key[i] = 0xff
		}
	case 2:
		for i := range key {
			key[i] = id[i%len(id)]
		}
	case 3:
		for i := range key {
			key[i] = byte(i)
		}
	case 4:
		copy(key[:], PostQuantumProtocolName)
	case 5:
		// public bytes of the most recent honest handshake datagram of this case (ephemeral keys travel in clear)
		r.mu.Lock()
		for i := len(r.live) - 1; i >= 0; i-- {
			if d := r.live[i]; vIsHandshake(d) && len(d) >= 8+KeyLen {
				copy(key[:], d[8:8+KeyLen])
				break
			}
		}
		r.mu.Unlock()
	default:
		copy(key[:], vlib.Fill(j.Seed^0x6e7, KeyLen))
	}
	return key, c10SealKeyNames[k]
}

// sealCounter: the counter of a sealed junk datagram (see c10Junk.B2).
func (r *c10RT) sealCounter(j c10Junk, id SessionID) uint64 {
	seen, any := uint64(0), false
	r.mu.Lock()
	for _, d := range r.live {
		if len(d) >= AssociatedDataLen && !vIsHandshake(d) && bytes.Equal(d[4:8], id[:]) {
			var c uint64
			for _, b := range d[8:16] {
				c = c<<8 | uint64(b)
			}
			if !any || c > seen {
				seen, any = c, true
			}
		}
	}
	r.mu.Unlock()
	switch ((j.B2 % 6) + 6) % 6 {
	case 0:
		return 0
	case 1:
		return 1
	case 2:
		if any {
			return seen + 1
		}
		return 2
	case 3:
		var c uint64
		for _, b := range vlib.Fill(j.Seed^0xc0c0, 8) {
			c = c<<8 | uint64(b)
		}
		return c
	case 4:
		return ^uint64(0)
	}
	return seen
}

// build materialises a junk datagram; class names the shape (for labels / distinctness).
func (r *c10RT) build(j c10Junk) (data []byte, class string, structured bool) {
	r.tmplSrc = nil
	switch j.K {
	case "rand":
		n := j.Cut
		if n < 0 {
			n = 0
		}
		if n > 65535 {
			n = 65535
		}
		cl := "rand:0-60"
		switch {
		case n > 2100:
			cl = "rand:big"
		case n > 60:
			cl = "rand:61-2100"
		}
		return vlib.Fill(j.Seed, n), cl, false
	case "hdr":
		id, live := r.sid(j)
		data = append([]byte{byte(j.V), 0, 0, 0}, id[:]...)
		data = append(data, vlib.Fill(j.Seed, j.Cut)...)
		return data, fmt.Sprintf("hdr:%s:%s", c10TypeName(data), map[bool]string{true: "live-id", false: "unknown-id"}[live]), true
	case "seal":
		// a well-formed transport / control datagram, sealed by the real sealing code under a key that anybody can
		// compute (never under a session's keys): it must be rejected like any other unauthenticated datagram, whatever
		// state the session it names is in (established, closed, allocated by a ClientAck and still without keys, unknown)
		id, live := r.sid(j)
		key, kname := r.sealKey(j, id)
		payload := vlib.Fill(j.Seed^0x5ea1, j.Cut)
		if byte(j.V) == byte(MessageTypeControl) && len(payload) == 1 && j.Seed%2 == 0 {
			payload[0] = byte(ControlMessageClose)
		}
		tmp := &SessionState{sessionID: id, count: r.sealCounter(j, id)}
		pkt, err := tmp.sealPacketLocked(MessageType(byte(j.V)), payload, &key)
		if err != nil {
			return nil, "seal:failed", false
		}
		tn := c10TypeName(pkt)
		return pkt, fmt.Sprintf("seal:%s:%s:%s", tn, kname, map[bool]string{true: "live-id", false: "unknown-id"}[live]), true
	case "tmpl":
		var name string
		T := j.T
		if T >= 300 {
			// the most recent honest datagram of this case with message type T-300 (a verbatim copy of, say, the
			// established session's own ClientAck)
			r.mu.Lock()
			for i := len(r.live) - 1; i >= 0; i-- {
				if d := r.live[i]; len(d) > 0 && int(d[0]) == T-300 {
					data = append([]byte(nil), d...)
					name = "live:" + c10TypeName(d)
					r.tmplSrc = r.liveSrc[i]
					break
				}
			}
			r.mu.Unlock()
			T -= 300
		} else if T >= 200 {
			// the (T-200)-th datagram of this case's honest traffic in order of appearance (oldest first; what the
			// endpoints send in reaction to the junk is appended behind, so the numbering is stable within a case)
			r.mu.Lock()
			if n := len(r.live); n > 0 {
				d := r.live[(T-200)%n]
				data = append([]byte(nil), d...)
				name = "live:" + c10TypeName(d)
				r.tmplSrc = r.liveSrc[(T-200)%n]
			}
			r.mu.Unlock()
			T -= 200
		} else if T >= 100 {
			r.mu.Lock()
			if n := len(r.live); n > 0 {
				d := r.live[n-1-(T-100)%n]
				data = append([]byte(nil), d...)
				name = "live:" + c10TypeName(d)
				r.tmplSrc = r.liveSrc[n-1-(T-100)%n]
			}
			r.mu.Unlock()
			T -= 100
		}
		if data == nil {
			tm := r.table[T%len(r.table)]
			data = append([]byte(nil), tm.Data...)
			name = tm.Name
		}
		orig := len(data)
		mut := j.F
		switch j.F {
		case "type":
			if j.V >= 0 && len(data) > 0 {
				data[0] = byte(j.V)
				mut = "type=" + c10TypeName(data)
			} else {
				mut = ""
			}
		case "b1", "b2", "b3":
			if k := int(j.F[1] - '0'); len(data) > k {
				data[k] = byte(j.V)
			}
		case "certlen":
			if len(data) >= 4 {
				o := int(data[2])<<8 | int(data[3])
				nv := []int{0, 1, 0xffff, o - 1, o + 1}[((j.V%5)+5)%5]
				data[2], data[3] = byte(nv>>8), byte(nv)
			}
		case "fit":
			// the length field takes a drawn (large / boundary) value AND the datagram is resized accordingly, so that
			// the reader's "is the datagram as long as its length field says" check passes and everything behind it
			// (copies into buffers of another size, slices by the field) sees the large value
			if j.Ty > 0 && len(data) > 0 {
				data[0] = byte(j.Ty)
			}
			if len(data) >= 4 {
				fixed := r.fixedPart(data)
				n := j.N
				switch j.V {
				case 1:
					n -= fixed
				case 2:
					n += int(data[2])<<8 | int(data[3])
				}
				n = max(0, min(n, 0xffff))
				total := max(4, min(fixed+n+j.D, 65535))
				data[2], data[3] = byte(n>>8), byte(n)
				if total <= len(data) {
					data = data[:total]
				} else {
					data = append(data, vlib.Fill(j.Seed^0xf17, total-len(data))...)
				}
				orig = len(data) // (the resize is part of this mutation, not a cut / pad)
				mut = "fit=" + c10TypeName(data) + ":" + c10FitClass(total)
				if j.D != 0 {
					mut += ":off-by-some"
				}
			}
		case "ctr":
			if len(data) >= 16 {
				switch ((j.V % 4) + 4) % 4 {
				case 0:
					copy(data[8:16], make([]byte, 8))
				case 1:
					copy(data[8:16], bytes.Repeat([]byte{0xff}, 8))
				case 2:
					for k := 15; k >= 8; k-- {
						data[k]++
						if data[k] != 0 {
							break
						}
					}
				default:
					copy(data[8:16], vlib.Fill(j.Seed^0xc7, 8))
				}
			}
		}
		if j.Sid >= 1 && len(data) >= 8 {
			id, live := r.sid(j)
			copy(data[4:8], id[:])
			if live {
				mut += "+live-id"
			} else {
				mut += "+unknown-id"
			}
		}
		if j.Cut > 0 && j.Cut-1 < len(data) {
			data = data[:j.Cut-1]
		}
		if j.Pad > 0 {
			data = append(data, vlib.Fill(j.Seed^0x9ad, j.Pad)...)
		}
		switch {
		case len(data) < orig:
			mut += "+cut"
		case len(data) > orig:
			mut += "+pad"
		}
		if mut == "" {
			mut = "replay"
		}
		return data, "tmpl:" + name + ":" + strings.TrimPrefix(mut, "+"), true
	}
	return nil, "?", false
}

// triggersServer / triggersClient: the datagram belongs to the trigger class of an open process-killing finding.
func (r *c10RT) triggersServer(d []byte) string {
	if c10Open(c10SigSrvShort) && len(d) >= HeaderLen+SessionIDLen && PlaintextLen(len(d)) < 0 {
		switch MessageType(d[0]) {
		case MessageTypeClientHello, MessageTypeServerHello, MessageTypeClientAck, MessageTypeServerAuth, MessageTypeClientAuth, MessageTypeClientRequestHidden:
		default:
			var id SessionID
			copy(id[:], d[4:8])
			if ss := r.env.Srv.fetchSession(id); ss != nil {
				ss.m.Lock()
				st := ss.handleState
				ss.m.Unlock()
				if st != closed {
					return c10SigSrvShort
				}
			}
		}
	}
	if r.hidLoopGuard() && len(d) >= 4 && d[0] == byte(MessageTypeClientRequestHidden) && d[1] == Version {
		need := HeaderLen + KemCtLen + (int(d[2])<<8 | int(d[3])) + MacLen + KemKeyLen + TimestampLen + MacLen
		if len(d) >= need {
			r.mu.Lock()
			ok := r.req0[string(d)]
			r.mu.Unlock()
			if !ok && !(bytes.Equal(d, r.table[8].Data) && !r.c.Cfg.NoKEM0) {
				return c10SigHidLoop
			}
		}
	}
	return ""
}

func (r *c10RT) triggersClient(cli *Client, d []byte) string {
	if c10Open(c10SigCliShort) && cli != nil && cli.state.Load() == clientStateOpen && cli.ss != nil &&
		len(d) >= HeaderLen+SessionIDLen && PlaintextLen(len(d)) < 0 && bytes.Equal(d[4:8], cli.ss.sessionID[:]) {
		return c10SigCliShort
	}
	return ""
}

func (r *c10RT) note(class string, structured bool) {
	r.classes[class] = true
	// labels are coarser than the distinctness key: shape and template, and each mutation on its own
	p := strings.SplitN(class, ":", 4)
	switch p[0] {
	case "tmpl":
		if len(p) == 4 {
			r.label("dg:tmpl:" + p[1] + ":" + p[2])
			for _, m := range strings.Split(p[3], "+") {
				if strings.HasPrefix(m, "type=") {
					m = "type"
				}
				if strings.HasPrefix(m, "fit=") {
					r.label("fit:" + strings.TrimSuffix(strings.TrimPrefix(m, "fit="), ":off-by-some"))
					m = "fit"
				}
				r.label("mut:" + m)
			}
		}
	case "rawauth", "rawhid":
		r.label("dg:" + p[0])
		for _, m := range strings.Split(class, ":")[1:] {
			r.label("blob:" + m)
		}
	case "seal":
		if len(p) == 4 {
			r.label("dg:seal:" + p[1] + ":" + p[3])
			r.label("seal:" + p[2])
		} else {
			r.label("dg:" + class)
		}
	default:
		r.label("dg:" + class)
	}
	r.injected++
	if structured {
		r.structured++
	}
}

// junkToServer handles one junk item aimed at the server.
func (r *c10RT) junkToServer(j c10Junk, peer *net.UDPAddr, wait bool) {
	switch j.K {
	case "name", "rawsni", "hidreq", "rawauth", "rawhid", "stranger":
		r.actor(j)
		return
	}
	data, class, structured := r.build(j)
	if sig := r.triggersServer(data); sig != "" {
		r.excluded(sig)
		return
	}
	r.note(class, structured)
	r.env.Net.Inject(r.srcAddr(j, peer), vSrvAddr, data)
	if wait {
		c10Wait()
	}
}

// actor: an honest protocol speaker with attacker-chosen parameters (all of this precedes client authentication).
func (r *c10RT) actor(j c10Junk) {
	addr := c10ActorAddr(r.actors)
	r.actors++
	switch j.K {
	case "name":
		names := c10HostileNames()
		nm := names[((j.V%len(names))+len(names))%len(names)]
		cfg := c10ClientConfig(false, 0, true)
		cfg.Verify.Name = nm.Name
		cli := r.newClient(addr, cfg, -1)
		err, _ := c10Handshake(cli, 4*time.Second)
		r.note("name:"+nm.Tag, true)
		r.label(fmt.Sprintf("name:%s:completed=%v", nm.Tag, err == nil))
	case "stranger":
		// a COMPLETE, well-formed handshake in the server's own mode by a client the policy does not admit: every
		// datagram is genuine, the certificate field decrypts and parses, the client proves possession of the key - and
		// nothing of it is authenticated in the sense of the policy. The server has to refuse it and go on.
		ids := c10Strangers()
		st := ids[((j.V%len(ids))+len(ids))%len(ids)]
		host := r.hostFor(((j.T % 3) + 3) % 3)
		cfg := c10ClientConfig(r.c.Cfg.Hidden, host, true)
		cfg.Exchanger, cfg.Leaf, cfg.Intermediate = st.Key, st.Leaf, st.Inter
		cli := r.newClient(addr, cfg, host)
		err, _ := c10Handshake(cli, 3*time.Second)
		c10Wait()
		admitted := false
		if err == nil && cli.ss != nil {
			r.mu.Lock()
			_, admitted = r.handles[cli.ss.sessionID]
			r.mu.Unlock()
		}
		r.strangers++
		r.note("stranger:"+st.Tag, true)
		r.label(fmt.Sprintf("stranger:%s:admitted=%v", st.Tag, admitted))
	case "hidreq":
		host := ((j.V % 3) + 3) % 3
		if r.hidLoopGuard() && host != r.firstListHost() {
			r.excluded(c10SigHidLoop)
			return
		}
		cli := r.newClient(addr, c10ClientConfig(true, host, true), host)
		err, _ := c10Handshake(cli, 3*time.Second)
		r.note(fmt.Sprintf("hidreq:host%d", host), true)
		r.label(fmt.Sprintf("hidreq:host%d:completed=%v", host, err == nil))
	case "rawsni":
		got := r.rawSNI(addr, j)
		r.note("rawsni", true)
		r.label("rawsni:" + got)
	case "rawauth":
		_, tag := c10CertBlob(j)
		got := r.rawAuth(addr, j)
		r.note("rawauth:"+tag, true)
		r.label("rawauth:" + got)
	case "rawhid":
		host := ((j.T % 3) + 3) % 3
		if r.hidLoopGuard() && host != r.firstListHost() {
			r.excluded(c10SigHidLoop)
			return
		}
		_, tag := c10CertBlob(j)
		got := r.rawHid(addr, j, host)
		r.note("rawhid:"+tag, true)
		r.label("rawhid:" + got)
	}
}

// rawSNI speaks the discoverable handshake up to the ClientAck and puts arbitrary bytes into the (encrypted,
// authenticated by the cookie-bound duplex only) server-name field. Returns what came back.
func (r *c10RT) rawSNI(addr *net.UDPAddr, j c10Junk) string {
	sock := r.env.Net.Dial(addr, vSrvAddr)
	r.socks = append(r.socks, sock)
	hs := new(HandshakeState)
	hs.duplex.InitializeEmpty()
	hs.dh = new(dhState)
	hs.dh.ephemeral.Generate()
	hs.kem = new(kemState)
	eph, err := keys.GenerateKEMKeyPair(rand.Reader)
	if err != nil {
		return "keygen-failed"
	}
	hs.kem.ephemeral = *eph
	hs.duplex.Absorb([]byte(PostQuantumProtocolName))
	buf := make([]byte, 65535)
	n, err := writePQClientHello(hs, buf)
	if err != nil {
		return "hello-failed"
	}
	sock.WriteMsgUDP(buf[:n], nil, vSrvAddr)
	sock.SetReadDeadline(time.Now().Add(time.Second))
	n, _, _, _, err = sock.ReadMsgUDP(buf, nil)
	if err != nil {
		return "no-server-hello"
	}
	if _, err := readPQServerHello(hs, buf[:n]); err != nil {
		return "bad-server-hello"
	}
	hs.RekeyFromSqueeze(PostQuantumProtocolName)
	var sni [SNILen]byte
	sni[0], sni[1], sni[2] = byte(j.V), byte(j.B1), byte(j.B2)
	lab := vlib.Fill(j.Seed, SNILen-3)
	if j.Seed%2 == 0 { // printable label with glob metacharacters
		for i := range lab {
			lab[i] = "ab*.?[]\\-x"[int(lab[i])%10]
		}
	}
	copy(sni[3:], lab)
	b := buf
	b[0], b[1], b[2], b[3] = byte(MessageTypeClientAck), 0, 0, 0
	hs.duplex.Absorb(b[:HeaderLen])
	b = b[HeaderLen:]
	copy(b, hs.dh.ephemeral.Public[:])
	hs.duplex.Absorb(b[:DHLen])
	b = b[DHLen:]
	pub, err := hs.kem.ephemeral.Public.MarshalBinary()
	if err != nil {
		return "marshal-failed"
	}
	copy(b, pub)
	hs.duplex.Absorb(b[:KemKeyLen])
	b = b[KemKeyLen:]
	copy(b, hs.cookie)
	hs.duplex.Absorb(b[:PQCookieLen])
	b = b[PQCookieLen:]
	hs.duplex.Encrypt(b[:SNILen], sni[:])
	b = b[SNILen:]
	hs.duplex.Squeeze(b[:MacLen])
	total := HeaderLen + DHLen + KemKeyLen + PQCookieLen + SNILen + MacLen
	sock.WriteMsgUDP(buf[:total], nil, vSrvAddr)
	sock.SetReadDeadline(time.Now().Add(time.Second))
	n, _, _, _, err = sock.ReadMsgUDP(buf, nil)
	if err != nil {
		return "name-refused"
	}
	return "answered-with-" + c10TypeName(buf[:n])
}

// ---------------------------------------------------------------------------
// peers that really run the unauthenticated part of the key exchange and therefore choose the PLAINTEXT of the
// encrypted certificate-vector field (the tag over it is correct: the vectors are split, and the certificate parser
// runs on them, before the peer is authenticated)

var c10BlobFirst = []string{"keep", "fills-all", "one-past-room", "two-past-room", "three-past-room", "room-for-empty-second", "room-for-half-prefix", "zero", "ffff"}
var c10BlobSecond = []string{"keep", "fills-all", "one-past-room", "two-past-room", "three-past-room", "zero", "ffff"}

// c10CertBlob builds the plaintext of the certificate field: j.Cut bytes (<0: the natural length of the genuine
// vectors) of genuine vectors / random bytes / random bytes in well-formed vectors (j.B2), then the first length prefix
// set relative to the room that is left (j.V) and, where it still fits, the second one (j.B1).
func c10CertBlob(j c10Junk) (blob []byte, tag string) {
	w := vGetWorld()
	leaf, err := w.Cli2Leaf.Marshal()
	vMust(err)
	inter, err := w.Inter.Marshal()
	vMust(err)
	genuine := make([]byte, 4+len(leaf)+len(inter))
	n, _ := writeVector(genuine, leaf)
	writeVector(genuine[n:], inter)
	B := j.Cut
	if B < 0 {
		B = len(genuine)
	}
	B = min(B, 63000)
	blob = make([]byte, B)
	put := func(off, v int) {
		v = max(0, min(v, 0xffff))
		if off+2 <= B {
			blob[off], blob[off+1] = byte(v>>8), byte(v)
		}
	}
	content := ((j.B2 % 3) + 3) % 3
	switch content {
	case 0:
		copy(blob, genuine)
	case 1:
		copy(blob, vlib.Fill(j.Seed^0xb10b, B))
	default:
		copy(blob, vlib.Fill(j.Seed^0xb10b, B))
		if B >= 4 {
			put(0, (B-4)/2)
			put(2+(B-4)/2, B-4-(B-4)/2)
		}
	}
	first := ((j.V % len(c10BlobFirst)) + len(c10BlobFirst)) % len(c10BlobFirst)
	switch first {
	case 1:
		put(0, B-2)
	case 2:
		put(0, B-1)
	case 3:
		put(0, B)
	case 4:
		put(0, B+1)
	case 5:
		put(0, B-4)
	case 6:
		put(0, B-3)
	case 7:
		put(0, 0)
	case 8:
		put(0, 0xffff)
	}
	second := ((j.B1 % len(c10BlobSecond)) + len(c10BlobSecond)) % len(c10BlobSecond)
	if B >= 2 {
		off := 2 + (int(blob[0])<<8 | int(blob[1]))
		rem := B - off
		switch second {
		case 1:
			put(off, rem-2)
		case 2:
			put(off, rem-1)
		case 3:
			put(off, rem)
		case 4:
			put(off, rem+1)
		case 5:
			put(off, 0)
		case 6:
			put(off, 0xffff)
		}
	}
	size := "natural-length"
	switch {
	case j.Cut >= 0 && B <= 16:
		size = "0-16"
	case j.Cut >= 0 && B <= 700:
		size = "17-700"
	case j.Cut >= 0:
		size = "big"
	}
	return blob, fmt.Sprintf("%s:first=%s:second=%s:%s", []string{"genuine", "random", "random-in-vectors"}[content], c10BlobFirst[first], c10BlobSecond[second], size)
}

func c10NewHS() (*HandshakeState, bool) {
	hs := new(HandshakeState)
	hs.duplex.InitializeEmpty()
	hs.dh = new(dhState)
	hs.dh.ephemeral.Generate()
	hs.kem = new(kemState)
	eph, err := keys.GenerateKEMKeyPair(rand.Reader)
	if err != nil {
		return nil, false
	}
	hs.kem.ephemeral = *eph
	return hs, true
}

// rawAuth speaks the discoverable handshake honestly up to the ServerAuth and then sends a ClientAuth whose certificate
// field holds the blob (correct tag; the final MAC is the honest one of client-two's key).
func (r *c10RT) rawAuth(addr *net.UDPAddr, j c10Junk) string {
	w := vGetWorld()
	sock := r.env.Net.Dial(addr, vSrvAddr)
	r.socks = append(r.socks, sock)
	hs, ok := c10NewHS()
	if !ok {
		return "keygen-failed"
	}
	hs.dh.static = w.Cli2Key
	hs.certVerify = &VerifyConfig{Store: w.store(), CurrentTime: w.Now, Name: certs.RawStringName(c10Hosts()[r.hostFor(0)].Name)}
	hs.duplex.Absorb([]byte(PostQuantumProtocolName))
	buf := make([]byte, 65535)
	n, err := writePQClientHello(hs, buf)
	if err != nil {
		return "hello-failed"
	}
	sock.WriteMsgUDP(buf[:n], nil, vSrvAddr)
	sock.SetReadDeadline(time.Now().Add(time.Second))
	n, _, _, _, err = sock.ReadMsgUDP(buf, nil)
	if err != nil {
		return "no-server-hello"
	}
	if _, err := readPQServerHello(hs, buf[:n]); err != nil {
		return "bad-server-hello"
	}
	hs.RekeyFromSqueeze(PostQuantumProtocolName)
	if n, err = hs.writePQClientAck(buf); err != nil {
		return "ack-failed"
	}
	sock.WriteMsgUDP(buf[:n], nil, vSrvAddr)
	sock.SetReadDeadline(time.Now().Add(time.Second))
	n, _, _, _, err = sock.ReadMsgUDP(buf, nil)
	if err != nil {
		return "no-server-auth"
	}
	if _, err := hs.readPQServerAuth(buf[:n]); err != nil {
		return "bad-server-auth"
	}
	blob, _ := c10CertBlob(j)
	b := buf
	b[0], b[1], b[2], b[3] = byte(MessageTypeClientAuth), 0, byte(len(blob)>>8), byte(len(blob))
	hs.duplex.Absorb(b[:HeaderLen])
	b = b[HeaderLen:]
	copy(b, hs.sessionID[:])
	hs.duplex.Absorb(hs.sessionID[:])
	b = b[SessionIDLen:]
	hs.duplex.Encrypt(b[:len(blob)], blob)
	b = b[len(blob):]
	hs.duplex.Squeeze(b[:MacLen])
	b = b[MacLen:]
	dhSe, err := hs.dh.static.Agree(hs.dh.remoteEphemeral[:])
	if err != nil {
		return "agree-failed"
	}
	hs.duplex.Absorb(dhSe)
	hs.duplex.Squeeze(b[:MacLen])
	sock.WriteMsgUDP(buf[:HeaderLen+SessionIDLen+len(blob)+2*MacLen], nil, vSrvAddr)
	c10Wait()
	r.mu.Lock()
	_, accepted := r.handles[hs.sessionID]
	r.mu.Unlock()
	if accepted {
		return "session-established"
	}
	return "refused"
}

// rawHid sends a hidden request, made with the PUBLIC KEM key of virtual host j.T, whose certificate field holds the blob.
func (r *c10RT) rawHid(addr *net.UDPAddr, j c10Junk, host int) string {
	sock := r.env.Net.Dial(addr, vSrvAddr)
	r.socks = append(r.socks, sock)
	hs, ok := c10NewHS()
	if !ok {
		return "keygen-failed"
	}
	hs.duplex.Absorb([]byte(PostQuantumHiddenProtocolName))
	hs.RekeyFromSqueeze(PostQuantumHiddenProtocolName)
	blob, _ := c10CertBlob(j)
	buf := make([]byte, 65535)
	b := buf
	b[0], b[1], b[2], b[3] = byte(MessageTypeClientRequestHidden), Version, byte(len(blob)>>8), byte(len(blob))
	hs.duplex.Absorb(b[:HeaderLen])
	b = b[HeaderLen:]
	pub, err := hs.kem.ephemeral.Public.MarshalBinary()
	if err != nil {
		return "marshal-failed"
	}
	copy(b, pub)
	hs.duplex.Absorb(b[:KemKeyLen])
	b = b[KemKeyLen:]
	pk := c10Hosts()[host].KEM.Public
	ct, k, err := keys.Encapsulate(rand.Reader, &pk)
	if err != nil || len(ct) != KemCtLen {
		return "encapsulate-failed"
	}
	copy(b, ct)
	b = b[KemCtLen:]
	hs.duplex.Absorb(k)
	hs.duplex.Encrypt(b[:len(blob)], blob)
	b = b[len(blob):]
	hs.duplex.Squeeze(b[:MacLen])
	b = b[MacLen:]
	var ts [TimestampLen]byte
	now := uint64(time.Now().Unix())
	for i := range ts {
		ts[i] = byte(now >> (56 - 8*i))
	}
	hs.duplex.Encrypt(b[:TimestampLen], ts[:])
	b = b[TimestampLen:]
	hs.duplex.Squeeze(b[:MacLen])
	total := HeaderLen + KemKeyLen + KemCtLen + len(blob) + MacLen + TimestampLen + MacLen
	sock.WriteMsgUDP(buf[:total], nil, vSrvAddr)
	sock.SetReadDeadline(time.Now().Add(time.Second))
	n, _, _, _, err := sock.ReadMsgUDP(buf, nil)
	if err != nil {
		return "refused"
	}
	return "answered-with-" + c10TypeName(buf[:n])
}

// midClient starts an honest handshake whose k-th handshake datagram towards the server is held back.
func (r *c10RT) midClient(k int) (done chan error, cli *Client, addr *net.UDPAddr, ok bool) {
	addr = c10CliAddr(r.nextCli)
	r.nextCli++
	host := r.hostFor(0)
	cli = r.newClient(addr, c10ClientConfig(r.c.Cfg.Hidden, host, false), host)
	count := 0
	r.mu.Lock()
	r.hold = func(d simnet.Datagram) bool {
		if !vIsHandshake(d.Data) || !c10AddrEq(d.Src, addr) || !c10AddrEq(d.Dst, vSrvAddr) {
			return false
		}
		count++
		return count-1 == k
	}
	r.mu.Unlock()
	done = make(chan error, 1)
	go func() { done <- cli.Handshake() }()
	c10Wait()
	r.mu.Lock()
	ok = len(r.held) == 1
	r.hold = nil
	r.mu.Unlock()
	return done, cli, addr, ok
}

func (r *c10RT) releaseHeld() {
	r.mu.Lock()
	held := r.held
	r.held = nil
	r.mu.Unlock()
	for _, d := range held {
		r.env.Net.Inject(d.Src, d.Dst, d.Data)
	}
	c10Wait()
}

// delay lets virtual time pass between the case's honest traffic and the junk (c10Case.DelayMs).
func (r *c10RT) delay() {
	if r.c.DelayMs <= 0 {
		return
	}
	time.Sleep(time.Duration(r.c.DelayMs) * time.Millisecond)
	c10Wait()
	if r.c.DelayMs < 5000 {
		r.label("junk-arrives-later:within-the-handshake-timeout")
	} else {
		r.label("junk-arrives-later:after-the-handshake-timeout")
	}
}

func (r *c10RT) stateTag() string { return r.c.Target + "-" + r.c.State }

func (r *c10RT) finalProbe() {
	host := r.hostFor(r.c.ProbeHost)
	s, err := r.establish(c10ProbeAddr, host, true)
	if err != nil {
		r.v.Failf("C10:honest-handshake-fails-after-junk:"+r.stateTag(), "after %d junk datagrams (%s) an honest handshake from the fresh address %v aimed at virtual host %d fails: %v", r.injected, r.c.Cfg, c10ProbeAddr, host, err)
		return
	}
	if err := r.probe(s, 9001); err != nil {
		r.v.Failf("C10:honest-handshake-fails-after-junk:"+r.stateTag(), "after %d junk datagrams (%s) the session of a fresh honest handshake does not carry a message each way: %v", r.injected, r.c.Cfg, err)
	}
}

func (r *c10RT) runServer() {
	c := r.c
	var peer *net.UDPAddr
	// sessions established before the junk
	nsess := c.Sessions
	if c.State == "est" && nsess < 1 {
		nsess = 1
	}
	if c.State == "idle" {
		nsess = 0
	}
	for i := 0; i < nsess; i++ {
		addr := c10CliAddr(r.nextCli)
		r.nextCli++
		s, err := r.establish(addr, r.hostFor(i), i%2 == 1)
		if err == nil {
			err = r.probe(s, uint64(100+i))
		}
		if err != nil {
			r.v.Inconclusive = fmt.Sprintf("honest baseline before the junk failed (%s, session %d): %v", c.Cfg, i, err)
			return
		}
		if c.Closed>>i&1 == 1 {
			s.h.Close()
			s.closed = true
			r.label("session-closed-before-junk")
		}
		r.sess = append(r.sess, s)
		r.liveIDs = append(r.liveIDs, s.id)
		if peer == nil {
			peer = addr
		}
	}
	// handshake in progress
	var midDone chan error
	var midCli *Client
	if strings.HasPrefix(c.State, "mid-") {
		k := 1
		if c.State == "mid-auth-held" {
			k = 2
		}
		var ok bool
		var addr *net.UDPAddr
		midDone, midCli, addr, ok = r.midClient(k)
		if !ok {
			r.v.Inconclusive = "the honest client did not reach the hold point of " + c.State
			midCli.Close()
			<-midDone
			return
		}
		peer = addr
		if hs := r.env.Srv.fetchHandshakeState(addr); hs != nil {
			r.liveIDs = append([]SessionID{hs.sessionID}, r.liveIDs...)
		}
	}
	// the junk
	r.delay()
	closeDone := make(chan struct{})
	for i, j := range c.Junk {
		if c.State == "closing" && i == (len(c.Junk)+1)/2 {
			go func() { r.env.Srv.Close(); close(closeDone) }()
		}
		r.junkToServer(j, peer, !(c.State == "closing" && i >= (len(c.Junk)+1)/2))
		if !r.v.OK() {
			return
		}
	}
	if c.State == "closing" {
		if len(c.Junk) < 2 {
			go func() { r.env.Srv.Close(); close(closeDone) }()
		}
		select {
		case <-closeDone:
		case <-time.After(30 * time.Second):
			r.v.Failf("C10:server-close-hangs-after-junk", "Server.Close did not return within 30 virtual seconds after junk during closing")
		}
		return
	}
	c10Wait()
	if c.SettleS > 0 {
		time.Sleep(time.Duration(c.SettleS) * time.Second)
		c10Wait()
		r.label("oracle-after-the-handshake-timeout")
	}
	if midDone != nil {
		r.releaseHeld()
		select {
		case err := <-midDone:
			r.label(fmt.Sprintf("mid-handshake-client-completed=%v", err == nil))
		case <-time.After(8 * time.Second):
			midCli.Close()
			<-midDone
			r.label("mid-handshake-client-needed-close")
		}
	}
	// oracle: fresh honest handshake, established sessions alive
	r.finalProbe()
	if !r.v.OK() {
		return
	}
	for i, s := range r.sess {
		if s.closed {
			continue
		}
		if err := r.probe(s, uint64(500+i)); err != nil {
			r.v.Failf("C10:established-session-dead-after-junk", "session %d (%x, established before the junk, %s) no longer carries a message each way after %d junk datagrams: %v", i, s.id, c.Cfg, r.injected, err)
			return
		}
	}
}

func (r *c10RT) runClient() {
	c := r.c
	if c.State == "open" {
		addr := c10CliAddr(r.nextCli)
		r.nextCli++
		s, err := r.establish(addr, r.hostFor(0), false)
		if err == nil {
			err = r.probe(s, 100)
		}
		if err != nil {
			r.v.Inconclusive = fmt.Sprintf("honest baseline before the junk failed (%s): %v", c.Cfg, err)
			return
		}
		r.sess = append(r.sess, s)
		r.liveIDs = append(r.liveIDs, s.id)
		r.delay()
		for _, j := range c.Junk {
			data, class, structured := r.build(j)
			if sig := r.triggersClient(s.cli, data); sig != "" {
				r.excluded(sig)
				continue
			}
			r.note(class, structured)
			r.env.Net.Inject(r.srcAddr(j, vSrvAddr), addr, data)
			c10Wait()
		}
		if c.SettleS > 0 {
			time.Sleep(time.Duration(c.SettleS) * time.Second)
			c10Wait()
			r.label("oracle-after-the-handshake-timeout")
		}
		if err := r.probe(s, 500); err != nil {
			r.v.Failf("C10:established-session-dead-after-junk", "the client's open session (%x, %s) no longer carries a message each way after %d junk datagrams: %v", s.id, c.Cfg, r.injected, err)
			return
		}
		r.finalProbe()
		return
	}
	// handshaking client: every junk datagram meets its own fresh client whose k-th reply from the server is held back
	k := 0
	if c.State == "hs-2" {
		k = 1
	}
	for _, j := range c.Junk {
		addr := c10CliAddr(r.nextCli)
		r.nextCli++
		host := r.hostFor(0)
		cli := r.newClient(addr, c10ClientConfig(c.Cfg.Hidden, host, false), host)
		count := 0
		r.mu.Lock()
		r.hold = func(d simnet.Datagram) bool {
			if !vIsHandshake(d.Data) || !c10AddrEq(d.Dst, addr) {
				return false
			}
			count++
			return count-1 == k
		}
		r.mu.Unlock()
		done := make(chan error, 1)
		go func() { done <- cli.Handshake() }()
		c10Wait()
		r.mu.Lock()
		ok := len(r.held) == 1
		r.hold = nil
		if ok {
			r.liveIDs = r.liveIDs[:0]
			if d := r.held[0].Data; len(d) >= 8 && (d[0] == byte(MessageTypeServerAuth) || d[0] == byte(MessageTypeServerResponseHidden)) {
				var id SessionID
				copy(id[:], d[4:8])
				r.liveIDs = append(r.liveIDs, id)
			}
		}
		r.mu.Unlock()
		if !ok {
			r.v.Inconclusive = "the server's reply did not reach the hold point of " + c.State
			cli.Close()
			<-done
			return
		}
		data, class, structured := r.build(j)
		r.note(class, structured)
		r.env.Net.Inject(r.srcAddr(j, vSrvAddr), addr, data)
		c10Wait()
		if c.Release {
			r.releaseHeld()
		} else {
			r.mu.Lock()
			r.held = nil
			r.mu.Unlock()
		}
		select {
		case err := <-done:
			r.label(fmt.Sprintf("handshaking-client-completed=%v", err == nil))
		case <-time.After(10 * time.Second):
			cli.Close()
			<-done
			if !c.Cfg.Hidden || c.Release {
				// (a hidden-mode client has no handshake deadline: when the junk was consumed INSTEAD of the reply it
				// cannot hang either, because the junk is what it read; kept as a label only for that combination)
				r.v.Failf("C10:client-handshake-hangs-after-junk:"+c.State, "Handshake did not return within 10 virtual seconds after one junk datagram (%s) although a datagram was delivered to it", class)
				return
			}
			r.label("handshaking-client-needed-close")
		}
	}
	r.finalProbe()
}

func c10Scenario(t *testing.T, c c10Case, v *vlib.Verdict, rec *vlib.Recorder, table []c10Tmpl) (r *c10RT) {
	r = &c10RT{t: t, c: c, v: v, rec: rec, table: table, handles: map[SessionID]*Handle{}, addrHost: map[string]int{}, req0: map[string]bool{},
		classes: map[string]bool{}, labels: map[string]bool{}, acceptDone: make(chan struct{})}
	r.env = vStartServer(c10ServerConfig(c.Cfg))
	r.env.Net.Filter = r.filter
	go r.acceptLoop()
	defer func() {
		for _, cl := range r.clients {
			cl.Close()
		}
		for _, s := range r.socks {
			s.Close()
		}
		r.env.Stop()
		<-r.acceptDone
	}()
	if c.Target == "client" {
		r.runClient()
	} else {
		r.runServer()
	}
	return r
}

// c10HungVerdicts: verdicts of cases whose bubble froze, by case JSON (this process).
var c10HungVerdicts = map[string]vlib.Verdict{}

// c10Realtime: the scenario is being re-run outside any bubble, with real timers (see c10Run).
var c10Realtime atomic.Bool

// c10Wait lets everything triggered so far settle: synctest.Wait inside the bubble, a generous sleep in real time.
func c10Wait() {
	if c10Realtime.Load() {
		time.Sleep(60 * time.Millisecond)
		return
	}
	synctest.Wait()
}

// c10MutexWaiters: top-most non-harness hop frame of every bubble goroutine that waits for a sync.Mutex / RWMutex.
func c10MutexWaiters(stacks string) []string {
	seen := map[string]bool{}
	var out []string
	for _, g := range strings.Split(stacks, "\n\n") {
		if !strings.Contains(g, "bubble") || !(strings.Contains(g, "sync.(*Mutex).Lock") || strings.Contains(g, "sync.(*RWMutex).")) {
			continue
		}
		lines := strings.Split(g, "\n")
		for i := 0; i+1 < len(lines); i++ {
			l := lines[i]
			if !strings.HasPrefix(l, "hop.computer/hop/") || strings.Contains(lines[i+1], "zz_verif") {
				continue
			}
			if k := strings.LastIndex(l, "("); k > 0 {
				l = l[:k]
			}
			l = strings.TrimPrefix(l, "hop.computer/hop/")
			if !seen[l] {
				seen[l] = true
				out = append(out, l)
			}
			break
		}
	}
	sort.Strings(out)
	return out
}

func c10Run(t *testing.T, rec *vlib.Recorder) func(c c10Case, v *vlib.Verdict) {
	return func(c c10Case, v *vlib.Verdict) {
		table := c10Table(t)
		var r *c10RT
		ck, _ := json.Marshal(c)
		if old, ok := c10HungVerdicts[string(ck)]; ok {
			*v = old // rapid re-runs a failing case; a frozen one costs minutes
			return
		}
		res := vlib.Bubble(t, 30*time.Second, func() { r = c10Scenario(t, c, v, rec, table) })
		if res.Hung {
			defer func() { c10HungVerdicts[string(ck)] = *v }()
			// every further evaluation of a frozen case costs minutes: no shrinking beyond what is already running
			flag.Set("rapid.shrinktime", "1ms")
			// A bubble freezes when a goroutine waits for a mutex whose holder is blocked: either an artifact of the
			// virtual clock (the holder would go on as soon as time passes) or the wedge this property is about (the
			// mutex is never released). Decide outside any bubble, with real timers, where no such artifact exists.
			waiters := c10MutexWaiters(res.Stacks)
			v2 := &vlib.Verdict{}
			done := make(chan struct{})
			c10Realtime.Store(true)
			go func() {
				defer close(done)
				defer func() {
					if p := recover(); p != nil {
						v2.Failf(vlib.PanicSig(fmt.Sprint(p), vlib.AllStacks()), "panic: %v", p)
					}
				}()
				c10Scenario(t, c, v2, rec, table)
			}()
			hungToo := false
			select {
			case <-done:
			case <-time.After(60 * time.Second):
				hungToo = true
			}
			c10Realtime.Store(false)
			*v = vlib.Verdict{Labels: []string{"bubble-froze:re-run-in-real-time"}}
			switch {
			case hungToo:
				v.Failf("C10:endpoint-wedged:"+fmt.Sprint(waiters)+":confirmed-in-real-time", "the scenario neither finishes under the virtual clock nor within 60 s of real time; goroutines of the code under test waiting for a mutex: %v", waiters)
			case !v2.OK():
				v.Failf(v2.Violations[0].Sig+":confirmed-in-real-time", "(bubble froze with mutex waiters %v; re-run with real timers) %s", waiters, v2.Violations[0].Detail)
			default:
				v.Inconclusive = "bubble froze, the real-time re-run is fine (C10)"
			}
			return
		}
		if !v.OK() {
			return
		}
		if res.Panic != "" {
			if res.Leak() || res.Deadlock() {
				v.Failf("C10:goroutines-left:"+fmt.Sprint(vlib.BlockedHopFrames(res.Stacks)), "after the junk and closing every client and the server, goroutines remain: %v", vlib.BlockedHopFrames(res.Stacks))
			} else {
				v.Failf(vlib.PanicSig(res.Panic, res.Stacks), "panic: %s", res.Panic)
			}
			return
		}
		if r == nil || v.Inconclusive != "" {
			return
		}
		v.Label(r.stateTag())
		v.Label("cfg:" + c.Cfg.String())
		v.NonTrivial = r.structured > 0 && c.State != "idle"
		cl := make([]string, 0, len(r.classes))
		for k := range r.classes {
			cl = append(cl, k)
		}
		sort.Strings(cl)
		v.Key = r.stateTag() + "|" + c.Cfg.String() + "|" + strings.Join(cl, ",")
		if len(c.Junk) > 0 {
			// (the sweep's cases differ in their length range only)
			v.Key += fmt.Sprintf("|n=%d|cut0=%d|%s%d.%d.%d", len(c.Junk), c.Junk[0].Cut, c.Junk[0].F, c.Junk[0].N, c.Junk[0].B1, c.Junk[0].B2)
			if j0 := c.Junk[0]; j0.K == "tmpl" && j0.T >= 100 && j0.F == "" {
				// (the verbatim-copy family: which of the case's own datagrams, from where, oracle when)
				v.Key += fmt.Sprintf("|t=%d|src=%d|delay=%d|settle=%d|closed=%d", j0.T, j0.Src, c.DelayMs, c.SettleS, c.Closed)
			}
		}
	}
}

// ---------------------------------------------------------------------------
// generator

func c10W[T any](t *rapid.T, label string, pairs ...any) T {
	var vals []T
	for i := 0; i+1 < len(pairs); i += 2 {
		for k := 0; k < pairs[i+1].(int); k++ {
			vals = append(vals, pairs[i].(T))
		}
	}
	return rapid.SampledFrom(vals).Draw(t, label)
}

var c10HotLens = []int{0, 1, 2, 3, 4, 5, 7, 8, 9, 15, 16, 17, 47, 48, 49}

func c10GenJunk(t *rapid.T, c *c10Case, table []c10Tmpl, actors *int) c10Junk {
	j := c10Junk{}
	serverT := c.Target == "server"
	kinds := []any{"rand", 20, "tmpl", 50, "hdr", 15, "seal", 10}
	if serverT && *actors < 5 && c.State != "closing" {
		kinds = append(kinds, "hidreq", 4, "rawhid", 4, "stranger", 6)
		if !c.Cfg.Hidden {
			kinds = append(kinds, "name", 5, "rawsni", 5, "rawauth", 5)
		}
	}
	j.K = c10W[string](t, "kind", kinds...)
	j.Src = c10W[int](t, "src", 0, 5, 1, 2, 2, 1, 3, 1, 4, 1, 5, 1)
	j.Seed = rapid.Uint64Range(1, 1<<40).Draw(t, "seed")
	liveSid := func() int { return 2 + rapid.IntRange(0, 3).Draw(t, "live") }
	// shapes that would kill the process through an OPEN finding are not generated (see triggersServer / triggersClient)
	shortOpen := (serverT && c10Open(c10SigSrvShort)) || (!serverT && c.State == "open" && c10Open(c10SigCliShort))
	switch j.K {
	case "rand":
		switch c10W[int](t, "lenclass", 0, 4, 1, 3, 2, 2, 3, 1) {
		case 0:
			j.Cut = rapid.IntRange(0, 60).Draw(t, "len")
		case 1:
			j.Cut = len(table[rapid.IntRange(0, len(table)-1).Draw(t, "lenof")].Data) + rapid.IntRange(-1, 1).Draw(t, "delta")
		case 2:
			j.Cut = rapid.IntRange(61, 2100).Draw(t, "len")
		default:
			j.Cut = rapid.IntRange(2101, 65535).Draw(t, "len")
		}
	case "hdr":
		j.V = c10W[int](t, "type", 0x10, 9, 0x80, 9, 0x09, 1, 0x00, 1, 0x11, 1, 0xff, 1)
		j.Sid = c10W[int](t, "sidkind", 2, 6, 1, 1)
		if j.Sid == 2 {
			j.Sid = liveSid()
		}
		j.Cut = rapid.IntRange(0, 64).Draw(t, "body")
		if shortOpen && j.Sid >= 2 && j.Cut < 40 {
			j.Cut += 40
		}
	case "seal":
		j.V = c10W[int](t, "type", 0x10, 9, 0x80, 6, 0x11, 1, 0x00, 1)
		j.Sid = c10W[int](t, "sidkind", 2, 8, 1, 1)
		if j.Sid == 2 {
			j.Sid = liveSid()
		}
		j.B1 = c10W[int](t, "key", 0, 6, 1, 2, 2, 2, 3, 1, 4, 1, 5, 2, 6, 1)
		j.B2 = c10W[int](t, "counter", 0, 3, 1, 2, 2, 4, 3, 2, 4, 1, 5, 1)
		j.Cut = c10W[int](t, "plaintext", 0, 2, 1, 4, 16, 2, 100, 1, 1400, 1)
	case "tmpl":
		L := 2200
		if lt := rapid.IntRange(0, 9).Draw(t, "livetmpl"); lt < 2 {
			j.T = 100 + rapid.IntRange(0, 7).Draw(t, "recent")
		} else if lt < 4 {
			if serverT {
				j.T = 300 + c10W[int](t, "livetype", 1, 2, 3, 3, 5, 3, 8, 2, 0x10, 1)
			} else {
				j.T = 300 + c10W[int](t, "livetype", 2, 3, 4, 3, 9, 2, 0x10, 1)
			}
		} else {
			j.T = rapid.IntRange(0, len(table)-1).Draw(t, "tmpl")
			L = len(table[j.T].Data)
		}
		j.F = c10W[string](t, "field", "", 5, "type", 4, "b1", 2, "b2", 1, "b3", 1, "certlen", 4, "ctr", 2, "fit", 4)
		switch j.F {
		case "fit":
			// the message types that carry a length field, on any template
			if serverT {
				j.Ty = c10W[int](t, "fittype", 0, 4, 5, 3, 8, 4, 4, 1, 9, 1)
			} else {
				j.Ty = c10W[int](t, "fittype", 0, 4, 4, 3, 9, 3, 5, 1, 8, 1)
			}
			j.V = c10W[int](t, "fitmode", 0, 2, 1, 2, 2, 1)
			if j.V == 2 {
				// the message's own vector, a few bytes shorter / longer: the structures INSIDE the (for a live template
				// correctly decrypted) vector end exactly at, just before or just behind its end
				j.Ty = 0
				j.N = c10W[int](t, "rel", -1, 3, -2, 2, -3, 1, 1, 2, 2, 1, -16, 1)
				j.D = c10W[int](t, "fitoff", 0, 6, -1, 1, 1, 1)
				break
			}
			switch c10W[int](t, "fitclass", 0, 4, 1, 2, 2, 3, 3, 1) {
			case 0:
				j.N = rapid.SampledFrom(c10FitBoundaries()).Draw(t, "boundary") + rapid.IntRange(-2, 2).Draw(t, "delta")
			case 1:
				j.N = rapid.IntRange(0, 65535).Draw(t, "n")
			case 2:
				j.N = rapid.IntRange(MaxTotalPacketSize-4096, 65535).Draw(t, "n")
			default:
				j.N = rapid.IntRange(0, 2100).Draw(t, "n")
			}
			j.N = max(0, min(j.N, 65535))
			j.D = c10W[int](t, "fitoff", 0, 6, -1, 1, 1, 1, 17, 1)
		}
		switch j.F {
		case "type":
			j.V = c10W[int](t, "typeval", 1, 2, 2, 2, 3, 2, 4, 2, 5, 2, 8, 3, 9, 2, 0x10, 3, 0x80, 3, 0, 1, 0x11, 1, 0xff, 1)
		case "b1", "b2", "b3":
			j.V = c10W[int](t, "byteval", 0, 2, 1, 2, 2, 1, 0x7f, 1, 0xff, 2)
		case "certlen":
			j.V = rapid.IntRange(0, 4).Draw(t, "certlen")
		case "ctr":
			j.V = rapid.IntRange(0, 3).Draw(t, "ctr")
		}
		j.Sid = c10W[int](t, "sidkind", 0, 5, 1, 1, 2, 4)
		if j.Sid == 2 {
			j.Sid = liveSid()
		}
		lenmode := []any{0, 3, 1, 5, 2, 1, 3, 1}
		if j.F == "fit" {
			lenmode = []any{0, 8, 1, 1, 2, 1} // (a cut would undo the agreement of field and length)
		}
		switch c10W[int](t, "lenmode", lenmode...) {
		case 1:
			j.Cut = 1 + rapid.IntRange(0, L).Draw(t, "cut")
		case 2:
			j.Pad = rapid.IntRange(1, 64).Draw(t, "pad")
		case 3:
			j.Cut = 1 + rapid.SampledFrom(c10HotLens).Draw(t, "hotcut")
		}
		if shortOpen && j.Sid >= 2 && j.Cut > 8 && j.Cut-1 < 48 {
			j.Cut = 49 + rapid.IntRange(0, 8).Draw(t, "cutfix")
		}
		if j.T >= 100 && j.Src == 0 && j.Seed%2 == 1 {
			// a copy of one of the case's own datagrams comes from where the original came from (no draw of its own)
			j.Src = -1
		}
	case "name":
		j.V = rapid.IntRange(0, len(c10HostileNames())-1).Draw(t, "name")
		*actors++
	case "hidreq":
		j.V = rapid.IntRange(0, 2).Draw(t, "host")
		if c10Open(c10SigHidLoop) && c.Cfg.Hidden && c.Cfg.Certs >= 2 {
			j.V = 0
		}
		*actors++
	case "stranger":
		j.V = rapid.IntRange(0, len(c10Strangers())-1).Draw(t, "identity")
		j.T = rapid.IntRange(0, 2).Draw(t, "host")
		*actors++
	case "rawauth", "rawhid":
		switch c10W[int](t, "bloblen", 0, 3, 1, 3, 2, 2, 3, 1) {
		case 0:
			j.Cut = -1
		case 1:
			j.Cut = rapid.IntRange(0, 16).Draw(t, "len")
		case 2:
			j.Cut = rapid.IntRange(17, 700).Draw(t, "len")
		default:
			j.Cut = rapid.IntRange(701, 63000).Draw(t, "len")
		}
		j.V = c10W[int](t, "first", 0, 4, 1, 1, 2, 2, 3, 2, 4, 1, 5, 1, 6, 1, 7, 1, 8, 1)
		j.B1 = c10W[int](t, "second", 0, 4, 1, 1, 2, 2, 3, 2, 4, 1, 5, 1, 6, 1)
		j.B2 = rapid.IntRange(0, 2).Draw(t, "content")
		if j.K == "rawhid" {
			j.T = rapid.IntRange(0, 2).Draw(t, "host")
			if c10Open(c10SigHidLoop) && c.Cfg.Hidden && c.Cfg.Certs >= 2 {
				j.T = 0
			}
		}
		*actors++
	case "rawsni":
		j.V = c10W[int](t, "blocksize", 0, 1, 2, 1, 3, 2, 4, 1, 20, 2, 255, 2, 128, 1)
		j.B1 = c10W[int](t, "idtype", 0, 3, 1, 2, 2, 1, 3, 1, 4, 1, 0x7f, 1, 0xff, 1)
		j.B2 = c10W[int](t, "idlen", 0, 2, 1, 1, 17, 2, 252, 2, 253, 1, 255, 1)
		if rapid.Bool().Draw(t, "consistent") && j.V >= 3 {
			j.B2 = j.V - 3
		}
		*actors++
	}
	return j
}

func c10Gen(table []c10Tmpl) func(t *rapid.T) c10Case {
	return func(t *rapid.T) c10Case {
		c := c10Case{}
		c.Target = c10W[string](t, "target", "server", 3, "client", 1)
		c.Cfg.Hidden = rapid.Bool().Draw(t, "hidden")
		c.Cfg.Certs = c10W[int](t, "certs", 3, 3, 2, 3, 1, 3)
		c.Cfg.Policy = c10W[string](t, "policy", "", 2, "keys", 1, "both", 1)
		hidGuard := c10Open(c10SigHidLoop) && c.Cfg.Hidden && c.Cfg.Certs >= 2
		if c.Cfg.Certs >= 2 {
			c.Cfg.Fallback = rapid.IntRange(0, 3).Draw(t, "fallback") == 0
			c.Cfg.NoKEM0 = rapid.IntRange(0, 4).Draw(t, "nokem0") == 0 && !hidGuard
			c.ProbeHost = rapid.IntRange(0, c.Cfg.Certs-1).Draw(t, "probeHost")
			if hidGuard {
				c.ProbeHost = 0
			}
		}
		maxJunk := 200
		if c.Target == "server" {
			states := []any{"est", 7}
			if !c.Cfg.Hidden {
				states = append(states, "mid-auth-held", 5, "mid-ack-held", 3)
			}
			states = append(states, "closing", 2, "idle", 2)
			c.State = c10W[string](t, "state", states...)
			switch c.State {
			case "est":
				c.Sessions = rapid.IntRange(1, 3).Draw(t, "sessions")
				if rapid.IntRange(0, 3).Draw(t, "someclosed") == 0 {
					c.Closed = rapid.IntRange(1, 1<<c.Sessions-1).Draw(t, "closed")
				}
			case "mid-ack-held", "mid-auth-held", "closing":
				c.Sessions = c10W[int](t, "sessions", 0, 3, 1, 2, 2, 1)
			}
			if c.State != "closing" {
				c.SettleS = c10W[int](t, "settle", 0, 5, 6, 2, 11, 1)
			}
		} else {
			states := []any{"open", 4, "hs-1", 2}
			if !c.Cfg.Hidden {
				states = append(states, "hs-2", 3)
			}
			c.State = c10W[string](t, "state", states...)
			if c.State != "open" {
				maxJunk = 8
				c.Release = rapid.Bool().Draw(t, "release")
			}
		}
		var n int
		switch c10W[int](t, "count", 0, 3, 1, 5, 2, 2) {
		case 0:
			n = rapid.IntRange(1, 5).Draw(t, "n")
		case 1:
			n = rapid.IntRange(6, 40).Draw(t, "n")
		default:
			n = rapid.IntRange(41, 200).Draw(t, "n")
		}
		if n > maxJunk {
			n = 1 + n%maxJunk
		}
		actors := 0
		for i := 0; i < n; i++ {
			c.Junk = append(c.Junk, c10GenJunk(t, &c, table, &actors))
		}
		if c.Target == "server" || c.State == "open" {
			// (drawn last: no other draw of the case moves)
			if strings.HasPrefix(c.State, "mid-") {
				// (the honest client gives up after 2 s: the junk is meant to meet a handshake in progress)
				c.DelayMs = c10W[int](t, "delayMs", 0, 5, 500, 2, 1000, 2)
			} else {
				c.DelayMs = c10W[int](t, "delayMs", 0, 4, 1000, 2, 3000, 1, 7000, 1)
			}
		}
		return c
	}
}

func TestVerifC10Random(t *testing.T) {
	table := c10Table(t)
	vlib.Drive(t, vlib.Spec[c10Case]{ID: "C10", Quick: 4000, Gen: c10Gen(table), Run: c10Run(t, nil)})
}

// ---------------------------------------------------------------------------
// enumerated sweep: every valid message of both modes, EVERY truncation length, with its own and with every other valid
// type byte, against idle / mid-handshake / established servers of several configurations and against clients.

type c10SweepScn struct {
	Target, State string
	Cfg           c10Cfg
	Chunk         int
	Full          bool // all type bytes for all templates also in the quick tier
}

func c10SweepScenarios() []c10SweepScn {
	d1, h1 := c10Cfg{Certs: 1}, c10Cfg{Hidden: true, Certs: 1}
	return []c10SweepScn{
		{"server", "idle", d1, 64, true},
		{"server", "mid-auth-held", d1, 64, true},
		{"server", "est", d1, 64, true},
		{"server", "idle", h1, 64, true},
		{"server", "est", h1, 64, true},
		{"server", "idle", c10Cfg{Hidden: true, Certs: 3}, 64, true},
		{"server", "est", c10Cfg{Certs: 2, Fallback: true}, 64, true},
		{"client", "open", d1, 64, true},
		{"client", "open", h1, 64, true},
		{"client", "hs-1", d1, 16, false},
		{"client", "hs-2", d1, 16, false},
		{"client", "hs-1", h1, 16, false},
	}
}

// c10CopyScn: a scenario of the verbatim-copy family of the sweep.
type c10CopyScn struct {
	Target, State    string
	Cfg              c10Cfg
	Sessions, Closed int
}

func c10CopyScenarios() []c10CopyScn {
	d1, h1 := c10Cfg{Certs: 1}, c10Cfg{Hidden: true, Certs: 1}
	d2, h3 := c10Cfg{Certs: 2, Fallback: true}, c10Cfg{Hidden: true, Certs: 3}
	return []c10CopyScn{
		{"server", "idle", d1, 0, 0},
		{"server", "est", d1, 1, 0},
		{"server", "est", d1, 2, 0},
		{"server", "est", d1, 2, 2}, // the server-side handle of the second session is closed
		{"server", "mid-ack-held", d1, 0, 0},
		{"server", "mid-ack-held", d1, 1, 0},
		{"server", "mid-auth-held", d1, 1, 0},
		{"server", "closing", d1, 1, 0},
		{"server", "idle", h1, 0, 0},
		{"server", "est", h1, 2, 0},
		{"server", "est", h3, 2, 0},
		{"server", "est", d2, 2, 0},
		{"server", "mid-auth-held", d2, 1, 0},
		{"client", "open", d1, 0, 0},
		{"client", "open", h1, 0, 0},
		{"client", "hs-1", d1, 0, 0},
		{"client", "hs-2", d1, 0, 0},
		{"client", "hs-1", h1, 0, 0},
	}
}

// c10OwnDatagrams: how many datagrams the honest traffic of a scenario consists of before the junk starts (an upper
// bound is enough: the index wraps around). A discoverable session costs 5 handshake datagrams, a hidden one 2, the
// baseline probe 2 more, closing a server-side handle at most 2; an idle server has no traffic of its own and gets the
// table of valid messages of another handshake instead.
func c10Pairs(a, b []int) (out [][2]int) {
	for _, x := range a {
		for _, y := range b {
			out = append(out, [2]int{x, y})
		}
	}
	return out
}

func c10OwnDatagrams(sc c10CopyScn, tableLen int) int {
	hs := 5
	if sc.Cfg.Hidden {
		hs = 2
	}
	if sc.Target == "client" {
		switch sc.State {
		case "open":
			return hs + 2
		case "hs-1":
			return 2
		}
		return 4
	}
	n := sc.Sessions * (hs + 2)
	for i := 0; i < sc.Sessions; i++ {
		if sc.Closed>>i&1 == 1 {
			n += 2
		}
	}
	switch sc.State {
	case "idle":
		return tableLen
	case "mid-ack-held":
		n += 3
	case "mid-auth-held":
		n += 5
	}
	return n
}

func TestVerifC10Sweep(t *testing.T) {
	if vlib.ReplayEnumerated(t, "C10", c10Run(t, nil)) {
		return
	}
	table := c10Table(t)
	rec := vlib.Open(t, "C10")
	run := c10Run(t, rec)
	complete := true
	idx := 0
	datagrams := 0
	for _, sc := range c10SweepScenarios() {
		live := sc.State != "idle"
		for ti, tm := range table {
			types := []int{-1}
			for _, ty := range c10ValidTypes {
				if ty != int(tm.Data[0]) {
					types = append(types, ty)
				}
			}
			if !sc.Full && !vlib.Thorough() {
				// quick tier, handshaking client (one handshake per datagram): the message types a client ever reads
				// during a handshake, on the messages a server sends; everything else only up to 64 bytes
				complete = false
				types = []int{-1, 2, 4, 9}
			}
			for _, ty := range types {
				maxLen := len(tm.Data)
				if !sc.Full && !vlib.Thorough() && tm.ToServer {
					maxLen = 64
				}
				sids := []int{0}
				if live {
					sids = []int{0, 2}
				}
				for _, sid := range sids {
					for lo := 0; lo <= maxLen; lo += sc.Chunk {
						idx++
						if !rec.Mine(idx) {
							continue
						}
						c := c10Case{Target: sc.Target, Cfg: sc.Cfg, State: sc.State, Release: lo/sc.Chunk%2 == 0}
						if sc.State == "est" {
							c.Sessions = 1
						}
						for l := lo; l < lo+sc.Chunk && l <= maxLen; l++ {
							c.Junk = append(c.Junk, c10Junk{K: "tmpl", T: ti, F: "type", V: ty, Sid: sid, Cut: l + 1, Src: (l / 3) % 2})
						}
						datagrams += len(c.Junk)
						rec.Persist(c)
						if !vlib.Each(t, rec, c, run) {
							return
						}
					}
				}
			}
		}
	}
	// second and third enumeration, against the same scenarios: (a) every message type with a length field, the field
	// and the real length set CONSISTENTLY to every boundary value (as the value of the field and as the length of the
	// whole datagram), exact and off by one, on the table's message of that type and on this case's own most recent
	// message of that type; (b) transport / control datagrams sealed under every guessable key, for the pending or
	// first live session id, a second live one and an unknown one.
	emit := func(sc c10SweepScn, junk []c10Junk) bool {
		for lo := 0; lo < len(junk); lo += sc.Chunk {
			idx++
			if !rec.Mine(idx) {
				continue
			}
			c := c10Case{Target: sc.Target, Cfg: sc.Cfg, State: sc.State, Release: lo/sc.Chunk%2 == 0}
			if sc.State == "est" {
				c.Sessions = 2
			}
			c.Junk = append(c.Junk, junk[lo:min(lo+sc.Chunk, len(junk))]...)
			datagrams += len(c.Junk)
			rec.Persist(c)
			if !vlib.Each(t, rec, c, run) {
				return false
			}
		}
		return true
	}
	tmplOf := map[int]int{}
	for ti, tm := range table {
		if _, ok := tmplOf[int(tm.Data[0])]; !ok {
			tmplOf[int(tm.Data[0])] = ti
		}
	}
	for _, sc := range c10SweepScenarios() {
		reduced := !sc.Full && !vlib.Thorough()
		var fit, seal []c10Junk
		fitTypes, offs := []int{4, 5, 8, 9}, []int{0, -1, 1}
		if reduced {
			fitTypes, offs = []int{4, 9}, []int{0}
		}
		k := 0
		for _, ty := range fitTypes {
			for _, src := range []int{tmplOf[ty], 300 + ty} {
				for mode := 0; mode <= 1; mode++ {
					for _, n := range c10FitBoundaries() {
						for _, d := range offs {
							k++
							fit = append(fit, c10Junk{K: "tmpl", T: src, F: "fit", Ty: ty, V: mode, N: n, D: d, Src: k % 2, Seed: uint64(1000 + k)})
						}
					}
				}
			}
		}
		// the message's own vector 1 or 2 bytes shorter / longer, consistently resized and with the length field alone:
		// what the vector CONTAINS then ends exactly at, before or behind its end. Sent from the peer's own address. A
		// handshaking client gets a fresh handshake per datagram anyway; a server with a handshake in progress reads only
		// the FIRST such message with the right keys, so each one gets a case of its own there.
		var rel []c10Junk
		for _, ty := range fitTypes {
			for _, src := range []int{tmplOf[ty], 300 + ty} {
				for _, n := range []int{-1, -2, 1, 2} {
					k++
					rel = append(rel, c10Junk{K: "tmpl", T: src, F: "fit", V: 2, N: n, Seed: uint64(1000 + k)},
						c10Junk{K: "tmpl", T: src, F: "fit", V: 2, N: n, D: -n, Seed: uint64(1000 + k)})
				}
			}
		}
		if sc.Target == "server" && strings.HasPrefix(sc.State, "mid-") {
			one := sc
			one.Chunk = 1
			if !emit(one, rel) {
				return
			}
		} else {
			fit = append(fit, rel...)
		}
		types, keysK, ctrs, sids, cuts := []int{0x10, 0x80, 0x11}, []int{0, 1, 2, 3, 4, 5}, []int{0, 2, 5}, []int{2, 3, 1}, []int{1, 16}
		if reduced {
			types, keysK, ctrs, sids, cuts = []int{0x10, 0x80}, []int{0, 2}, []int{0, 2}, []int{2}, []int{1}
		}
		for _, ty := range types {
			for _, key := range keysK {
				for _, ctr := range ctrs {
					for _, sid := range sids {
						for _, cut := range cuts {
							k++
							seal = append(seal, c10Junk{K: "seal", V: ty, B1: key, B2: ctr, Sid: sid, Cut: cut, Src: k % 2, Seed: uint64(2000 + k)})
						}
					}
				}
			}
		}
		// (c) peers that run the unauthenticated part of the key exchange and choose the plaintext of the certificate
		// field: every position of the first and of the second length prefix relative to the room that is left, on
		// genuine and on random contents, natural / 8 / 300 bytes
		var act []c10Junk
		if sc.Target == "server" {
			kindsA := []string{"rawhid"}
			if !sc.Cfg.Hidden {
				kindsA = append(kindsA, "rawauth")
			}
			for _, kd := range kindsA {
				for _, content := range []int{0, 1} {
					for _, B := range []int{-1, 8, 300} {
						for first := 0; first < len(c10BlobFirst); first++ {
							k++
							act = append(act, c10Junk{K: kd, Cut: B, V: first, B2: content, T: k % max(1, sc.Cfg.Certs), Seed: uint64(3000 + k)})
						}
						for second := 1; second < len(c10BlobSecond); second++ {
							k++
							act = append(act, c10Junk{K: kd, Cut: B, B1: second, B2: content, T: k % max(1, sc.Cfg.Certs), Seed: uint64(3000 + k)})
						}
					}
				}
			}
		}
		if !emit(sc, fit) || !emit(sc, seal) || !emit(sc, act) {
			return
		}
	}
	// fourth enumeration: VERBATIM COPIES of the case's own datagrams (the network duplicates a datagram, or somebody who
	// saw it sends it again): every datagram of the case's honest traffic - each handshake message of every established
	// session and of the handshake in progress, the held-back message, the probe messages - one copy per case, sent from
	// the address the original came from, from the peer's address and from a third address, to an endpoint in every
	// state; the copy arrives at the instant of the honest handshakes (every timer it arms is then due at the same instant
	// as the original's), 1 s later (the originals' handshake timers are still running and fire FIRST) or 7 s later (they
	// have fired); the oracle is evaluated at once and after the handshake timeout (5 s) has passed once and twice: whatever
	// the copy left behind in the endpoint (a pending handshake, a timer) has expired in between. Then whole
	// conversations: all of them in the original order, in reverse order, and in the original order from a third address.
	for _, sc := range c10CopyScenarios() {
		k := c10OwnDatagrams(sc, len(table))
		settles := []int{0, 6, 11}
		delays := []int{0, 1000, 7000}
		releases := []bool{false}
		switch {
		case sc.State == "closing":
			settles = []int{0}
		case sc.Target == "client" && sc.State != "open":
			settles, delays, releases = []int{0}, []int{0}, []bool{true, false}
		}
		for _, sd := range c10Pairs(settles, delays) {
			settle, delay := sd[0], sd[1]
			mk := func(settle int, release bool, junk ...c10Junk) c10Case {
				return c10Case{Target: sc.Target, Cfg: sc.Cfg, State: sc.State, Sessions: sc.Sessions, Closed: sc.Closed, Release: release, DelayMs: delay, SettleS: settle, Junk: junk}
			}
			for _, release := range releases {
				if sc.State != "closing" {
					for i := 0; i < k; i++ {
						for _, src := range []int{-1, 0, 1} {
							idx++
							if !rec.Mine(idx) {
								continue
							}
							c := mk(settle, release, c10Junk{K: "tmpl", T: 200 + i, Src: src})
							datagrams++
							rec.Persist(c)
							if !vlib.Each(t, rec, c, run) {
								return
							}
						}
					}
				}
				if sc.Target == "client" && sc.State != "open" {
					continue // (every junk datagram meets its own fresh handshaking client there: nothing to add)
				}
				for variant := 0; variant < 3; variant++ {
					idx++
					if !rec.Mine(idx) {
						continue
					}
					var junk []c10Junk
					for i := 0; i < k; i++ {
						switch variant {
						case 0:
							junk = append(junk, c10Junk{K: "tmpl", T: 200 + i, Src: -1})
						case 1:
							junk = append(junk, c10Junk{K: "tmpl", T: 200 + k - 1 - i, Src: -1})
						default:
							junk = append(junk, c10Junk{K: "tmpl", T: 200 + i, Src: 1})
						}
					}
					c := mk(settle, release, junk...)
					datagrams += len(junk)
					rec.Persist(c)
					if !vlib.Each(t, rec, c, run) {
						return
					}
				}
			}
		}
	}
	// fifth enumeration: STRANGERS WITH A REAL HANDSHAKE against every client-verification policy. 1..3 complete,
	// well-formed handshakes by clients the policy does not admit (self-signed unknown key, chain of an untrusted CA,
	// expired / not yet valid leaf of the trusted CA, leaf without its intermediate, key that was removed from the
	// authorized set), between them a verbatim copy of the most recent certificate-carrying client message (the
	// stranger's own), against idle servers, servers with two established sessions and servers with an honest ClientAuth
	// held back, one certificate / several virtual hosts, discoverable / hidden, x {CA store, authorized keys, both}.
	// The refusal happens in the receive goroutine, behind the policy's own locks and lookups: whatever it leaves
	// behind meets the NEXT certificate-carrying message (the held-back one, the probe handshake).
	{
		d1, h1 := c10Cfg{Certs: 1}, c10Cfg{Hidden: true, Certs: 1}
		d2, h3 := c10Cfg{Certs: 2, Fallback: true}, c10Cfg{Hidden: true, Certs: 3}
		nid := len(c10Strangers())
		for _, cfg := range []c10Cfg{d1, h1, d2, h3} {
			states := []string{"idle", "est"}
			if !cfg.Hidden {
				states = append(states, "mid-auth-held")
			}
			for _, policy := range []string{"", "keys", "both"} {
				cfg.Policy = policy
				for _, state := range states {
					for first := 0; first < nid; first++ {
						for n := 1; n <= 3; n++ {
							idx++
							if !rec.Mine(idx) {
								continue
							}
							c := c10Case{Target: "server", Cfg: cfg, State: state, ProbeHost: first % cfg.Certs}
							switch state {
							case "est":
								c.Sessions = 2
							case "mid-auth-held":
								c.Sessions = n % 2
							}
							for i := 0; i < n; i++ {
								if i > 0 {
									copyOf := 300 + int(MessageTypeClientAuth)
									if cfg.Hidden {
										copyOf = 300 + int(MessageTypeClientRequestHidden)
									}
									c.Junk = append(c.Junk, c10Junk{K: "tmpl", T: copyOf, Src: -(i % 2)})
								}
								c.Junk = append(c.Junk, c10Junk{K: "stranger", V: (first + i) % nid, T: first + i})
							}
							datagrams += len(c.Junk)
							rec.Persist(c)
							if !vlib.Each(t, rec, c, run) {
								return
							}
						}
					}
				}
			}
		}
	}
	// complete only if nothing of the enumerated space had to be skipped because of an open finding
	rec.SetExhaustive(complete && c10ExcludedTotal == 0)
	rec.AddExtra("datagrams", datagrams)
	rec.Extra("enumerated", "every message of an honest discoverable and hidden run (10 messages), every truncation length 0..len, first byte kept and replaced by each other valid type byte, bytes 4..8 kept and replaced by a live session id, against 7 server state/configuration pairs and 5 client states (quick tier: handshaking clients get the server-sent messages with the types a client reads, other messages up to 64 bytes); every message type with a length field x field and real length set consistently to every boundary value (around 0, 2^8, 2^14, 2^15, MaxPlaintextSize, MaxTotalPacketSize, 65507, 65535; as field value and as datagram length; exact and off by one) and to the message's own value -2..+2; transport / control / unknown-type datagrams sealed with the real sealing code under each of 6 guessable keys x 3 counters x pending-or-live / second live / unknown session id; ClientAuth (discoverable) and hidden requests (every configuration) by peers that run the unauthenticated part of the key exchange and put a chosen plaintext into the certificate field: first / second vector length prefix at every position relative to the room left (exact, 1..3 past, 0, 0xffff) x genuine / random contents x natural / 8 / 300 bytes; verbatim copies of every datagram of the case's own honest traffic (every handshake message of each established session and of the handshake in progress, the held-back message, probe messages; for an idle server the 10 messages of another handshake), one per case, x {from the address the original came from, from the peer's address, from a third address} x the copy arrives {at the instant of the honest handshakes, 1 s later (their handshake timers are running), 7 s later (they have fired)} x oracle {at once, 6 s, 11 s later: the 5 s handshake timeout has passed once / twice} against 13 server scenarios (idle, 1 / 2 established sessions, one closed by its owner, ClientAck / ClientAuth held back with and without established sessions, one certificate / two virtual hosts / hidden / hidden with three certificates) and 5 client scenarios, plus the whole conversation copied in the original order, in reverse order and from a third address (also racing Server.Close); 1..3 complete well-formed handshakes by clients the policy does not admit (6 identities: self-signed unknown key, chain of an untrusted CA, expired / not yet valid leaf of the trusted CA, leaf without its intermediate, key removed from the authorized set) with a copy of the stranger's own certificate-carrying message in between x client-verification policy {CA store, authorized keys, both} x {idle, 2 established sessions, honest ClientAuth held back} x {one certificate, two virtual hosts, hidden, hidden with three certificates}")
}

// ---------------------------------------------------------------------------
// native fuzzing (thorough tier only): one datagram against an established server / an open client

func c10FuzzOne(t *testing.T, target string, hidden bool, multi bool, sidLive bool, data []byte) {
	if len(data) > 65535 {
		return
	}
	cfg := c10Cfg{Hidden: hidden, Certs: 1}
	if multi {
		cfg.Certs = 3
	}
	table := c10Table(t)
	var v vlib.Verdict
	res := vlib.Bubble(t, 120*time.Second, func() {
		r := &c10RT{t: t, c: c10Case{Target: target, Cfg: cfg, State: "est"}, v: &v, table: table, handles: map[SessionID]*Handle{}, addrHost: map[string]int{}, req0: map[string]bool{},
			classes: map[string]bool{}, labels: map[string]bool{}, acceptDone: make(chan struct{})}
		r.env = vStartServer(c10ServerConfig(cfg))
		r.env.Net.Filter = r.filter
		go r.acceptLoop()
		defer func() {
			for _, cl := range r.clients {
				cl.Close()
			}
			r.env.Stop()
			<-r.acceptDone
		}()
		s, err := r.establish(c10CliAddr(0), r.hostFor(0), false)
		if err != nil {
			v.Inconclusive = err.Error()
			return
		}
		d := append([]byte(nil), data...)
		if sidLive && len(d) >= 8 {
			copy(d[4:8], s.id[:])
		}
		if target == "server" {
			if r.triggersServer(d) != "" {
				return
			}
			r.env.Net.Inject(c10EvilAddr(1), vSrvAddr, d)
		} else {
			if r.triggersClient(s.cli, d) != "" {
				return
			}
			r.env.Net.Inject(vSrvAddr, s.addr, d)
		}
		c10Wait()
		if err := r.probe(s, 7); err != nil {
			v.Failf("C10:established-session-dead-after-junk", "%v", err)
			return
		}
		r.finalProbe()
	})
	if res.Hung || v.Inconclusive != "" {
		t.Skip("inconclusive")
	}
	for _, vi := range v.Violations {
		t.Fatalf("VERIF-VIOLATION sig=%s detail=%s", vi.Sig, vi.Detail)
	}
	if res.Panic != "" {
		t.Fatalf("VERIF-VIOLATION sig=%s detail=%s", vlib.PanicSig(res.Panic, res.Stacks), res.Panic)
	}
}

func c10FuzzSeed(f *testing.F) {
	for _, tm := range c10Table(nil) {
		f.Add(tm.Data, false, false, true)
		f.Add(tm.Data, true, true, true)
		for _, n := range []int{0, 3, 4, 7, 8, 16, 47, 48} {
			if n <= len(tm.Data) {
				f.Add(tm.Data[:n], true, false, true)
			}
		}
	}
	f.Add([]byte{0x10, 0, 0, 0, 0, 0, 0, 0, 0xff, 0xff}, false, false, true)
	f.Add([]byte{0x08, 0x01, 0xff, 0xff}, true, true, false)
}

func FuzzVerifC10ServerDatagram(f *testing.F) {
	if os.Getenv("VERIF_FUZZ") == "" {
		f.Skip("native fuzzing runs in the thorough tier only")
	}
	c10FuzzSeed(f)
	f.Fuzz(func(t *testing.T, data []byte, hidden, multi, sidLive bool) {
		c10FuzzOne(t, "server", hidden, multi, sidLive, data)
	})
}

func FuzzVerifC10ClientDatagram(f *testing.F) {
	if os.Getenv("VERIF_FUZZ") == "" {
		f.Skip("native fuzzing runs in the thorough tier only")
	}
	c10FuzzSeed(f)
	f.Fuzz(func(t *testing.T, data []byte, hidden, multi, sidLive bool) {
		c10FuzzOne(t, "client", hidden, multi, sidLive, data)
	})
}
