//go:build go1.25

package transport

// Shared fixtures of the transport checks: a certificate world, client/server
// configurations, and an environment over vlib/simnet inside a synctest bubble.

import (
	"crypto/rand"
	"io"
	"net"
	"sync"
	"time"

	"github.com/sirupsen/logrus"

	"hop.computer/hop/certs"
	"hop.computer/hop/keys"
	"verif.local/vlib/simnet"
)

type vWorld struct {
	Root, Inter       *certs.Certificate
	SrvKey            *keys.X25519KeyPair
	SrvKEM            *keys.KEMKeyPair
	SrvLeaf           *certs.Certificate
	CliKey            *keys.X25519KeyPair
	CliLeaf           *certs.Certificate
	Cli2Key           *keys.X25519KeyPair
	Cli2Leaf          *certs.Certificate
	Now               time.Time // a time at which every certificate of the world is valid
	ServerName        certs.Name
}

var (
	vWorldOnce sync.Once
	vTheWorld  *vWorld
)

func vMust(err error) {
	if err != nil {
		panic("verif fixture: " + err.Error())
	}
}

func vSigningCert(name string, parent *certs.Certificate) *certs.Certificate {
	k := keys.GenerateNewSigningKeyPair()
	id := certs.Identity{PublicKey: k.Public, Names: []certs.Name{certs.RawStringName(name)}}
	var c *certs.Certificate
	var err error
	if parent == nil {
		c, err = certs.SelfSignRoot(&id, k)
	} else {
		c, err = certs.IssueIntermediate(parent, &id)
	}
	vMust(err)
	c.ProvideKey((*[32]byte)(&k.Private))
	return c
}

func vLeaf(parent *certs.Certificate, name string) (*keys.X25519KeyPair, *certs.Certificate) {
	kp := keys.GenerateNewX25519KeyPair()
	c, err := certs.IssueLeaf(parent, &certs.Identity{PublicKey: kp.Public, Names: []certs.Name{certs.RawStringName(name)}})
	vMust(err)
	return kp, c
}

// vGetWorld returns the process-wide honest certificate world (key material is
// not part of any case: no oracle depends on the key bytes).
func vGetWorld() *vWorld {
	vWorldOnce.Do(func() {
		logrus.SetOutput(io.Discard)
		logrus.SetLevel(logrus.PanicLevel)
		w := &vWorld{}
		w.Root = vSigningCert("verif-root", nil)
		w.Inter = vSigningCert("verif-intermediate", w.Root)
		w.ServerName = certs.RawStringName("server.verif.test")
		w.SrvKey, w.SrvLeaf = vLeaf(w.Inter, "server.verif.test")
		kem, err := keys.GenerateKEMKeyPair(rand.Reader)
		vMust(err)
		w.SrvKEM = kem
		w.CliKey, w.CliLeaf = vLeaf(w.Inter, "client-one")
		w.Cli2Key, w.Cli2Leaf = vLeaf(w.Inter, "client-two")
		c01OtherWorld()
		w.Now = w.SrvLeaf.IssuedAt.Add(time.Minute)
		if o := c01Other.Inter.IssuedAt.Add(time.Minute); o.After(w.Now) {
			w.Now = o
		}
		vTheWorld = w
	})
	return vTheWorld
}

func (w *vWorld) store() certs.Store {
	st := certs.Store{}
	st.AddCertificate(w.Root)
	return st
}

// ServerConfig: CA-store client verification, discoverable unless hidden.
func (w *vWorld) ServerConfig(hidden bool) ServerConfig {
	return ServerConfig{
		KEMKeyPair:       w.SrvKEM,
		KeyPair:          w.SrvKey,
		Certificate:      w.SrvLeaf,
		Intermediate:     w.Inter,
		HandshakeTimeout: 5 * time.Second,
		ClientVerify:     &VerifyConfig{Store: w.store(), CurrentTime: w.Now},
		IsHidden:         hidden,
	}
}

func (w *vWorld) ClientConfig(hidden bool, second bool) ClientConfig {
	cc := ClientConfig{
		Exchanger:    w.CliKey,
		Leaf:         w.CliLeaf,
		Intermediate: w.Inter,
		Verify:       VerifyConfig{Store: w.store(), CurrentTime: w.Now, Name: w.ServerName},
		HSTimeout:    2 * time.Second,
	}
	if second {
		cc.Exchanger, cc.Leaf = w.Cli2Key, w.Cli2Leaf
	}
	if hidden {
		pk := w.SrvKEM.Public
		cc.ServerKEMKey = &pk
	}
	return cc
}

var (
	vSrvAddr  = simnet.Addr("10.0.0.1", 7777)
	vCliAddr  = simnet.Addr("10.0.0.2", 40000)
	vCli2Addr = simnet.Addr("10.0.0.3", 40001)
	vEvilAddr = simnet.Addr("10.6.6.6", 666)
)

// vFamilyHooks re-derive address variables of individual harness files after the address family changed.
var vFamilyHooks []func()

var vFamilyNames = []string{"ipv4-mapped-16-byte", "ipv4-4-byte", "ipv6"}

// vSetFamily switches every fixture address to the given family (see simnet.Family) and returns the previous one.
// Call at the start of a scenario: defer vSetFamily(vSetFamily(c.Fam)).
func vSetFamily(f int) int {
	old := simnet.Family
	simnet.Family = f % 3
	vSrvAddr = simnet.Addr("10.0.0.1", 7777)
	vCliAddr = simnet.Addr("10.0.0.2", 40000)
	vCli2Addr = simnet.Addr("10.0.0.3", 40001)
	vEvilAddr = simnet.Addr("10.6.6.6", 666)
	for _, h := range vFamilyHooks {
		h()
	}
	return old
}

type vEnv struct {
	Net     *simnet.Net
	Srv     *Server
	SrvSock *simnet.Sock
	serveDone chan struct{}
}

// vStartServer creates the network and a serving server. Must run inside the bubble.
func vStartServer(cfg ServerConfig) *vEnv {
	e := &vEnv{Net: simnet.New()}
	e.SrvSock = e.Net.Listen(vSrvAddr)
	s, err := NewServer(e.SrvSock, cfg)
	vMust(err)
	e.Srv = s
	e.serveDone = make(chan struct{})
	go func() { s.Serve(); close(e.serveDone) }()
	return e
}

func (e *vEnv) NewClient(addr *net.UDPAddr, cfg ClientConfig) (*Client, *simnet.Sock) {
	sock := e.Net.Dial(addr, vSrvAddr)
	return NewClient(sock, vSrvAddr, cfg), sock
}

// Stop closes the server and waits for Serve to return.
func (e *vEnv) Stop() {
	e.Srv.Close()
	<-e.serveDone
}

// vIsHandshake reports whether a datagram is a handshake message.
func vIsHandshake(b []byte) bool {
	return len(b) > 0 && MessageType(b[0]).IsHandshakeType() && b[0] < 0x10
}

// vEstablished returns the server-side session for id if it is established.
func (e *vEnv) vEstablished(id SessionID) *SessionState {
	ss := e.Srv.fetchSession(id)
	if ss == nil {
		return nil
	}
	ss.m.Lock()
	defer ss.m.Unlock()
	if ss.handleState != established || ss.handle == nil {
		return nil
	}
	return ss
}

// vEstablishedCount counts established server sessions.
func (e *vEnv) vEstablishedCount() int {
	e.Srv.m.RLock()
	var list []*SessionState
	for _, ss := range e.Srv.sessions {
		list = append(list, ss)
	}
	e.Srv.m.RUnlock()
	n := 0
	for _, ss := range list {
		ss.m.Lock()
		if ss.handleState == established && ss.handle != nil {
			n++
		}
		ss.m.Unlock()
	}
	return n
}
