//go:build go1.25

package transport

// C15 — a session's peer address moves only on authentic, fresh packets.
//
// An honest client and server (real transport code over vlib/simnet inside a synctest bubble) establish a session.
// A drawn script then interleaves genuine packets of the peer (from its current address, or after it moved to a new
// port and/or IP) with adversarial datagrams sent from a THIRD address: forged packets carrying the live session id,
// bit-flipped copies of genuine packets (type, reserved, session id, counter, body, tag), replays of delivered packets,
// a genuine packet that was held back until it fell below the replay window, truncated copies. After every step the
// endpoint under test writes one message and the destination of the datagram it put on the wire is compared with the
// harness-side model
//
//	addr := source address of the last delivered datagram that was genuine, unmodified and fresh.
//
// Side 0 examines the server's view of the client address (the client roams), side 1 the client's view of the server
// address (the server socket moves).
//
// Reflection: the adversary also captures what the endpoint under test ITSELF sends and delivers such a datagram back to
// that same endpoint (from a third address, or from the peer's address). Its counter is the endpoint's send counter, so
// it is fresh in the endpoint's receive window whenever the endpoint has sent more than it has received (drawn: extra
// writes of the endpoint first) and already seen otherwise (drawn: extra genuine packets of the peer first). Only packets
// of the peer authenticate at the endpoint: the address must not move and nothing reaches the application.
//
// Slow application: the endpoint under test is configured with a drawn receive queue length (the package default or
// 1..5 packets: ServerConfig.MaxBufferedPacketsPerConnection / ClientConfig.MaxBufferedPackets) and its application
// stops and resumes reading at drawn steps. While it is not reading, genuine packets fill the queue and further ones
// are dropped by the endpoint ("recv queue full"). The address model is untouched by that: a packet that authenticates
// and is fresh moves the address whether or not its payload could be handed to the application. The delivery clause
// follows a harness-side model of the queue (reader waiting / queued / dropped), so a packet dropped at a full queue is
// not counted as lost.

import (
	"bytes"
	"encoding/binary"
	"fmt"
	"net"
	"slices"
	"sort"
	"sync"
	"sync/atomic"
	"testing"
	"testing/synctest"
	"time"

	"pgregory.net/rapid"
	"verif.local/vlib"
	"verif.local/vlib/simnet"
)

const (
	c15Genuine = iota // genuine packet from the peer's current address
	c15Roam           // the peer moves to a new address and sends a genuine packet from there
	c15Move           // the peer moves silently (sends nothing): nothing authentic has arrived from the new address yet
	c15Forged         // third address: made-up packet with the live session id and a plausible counter
	c15Flip           // third address: genuine packet with one byte altered
	c15Replay         // third address: copy of a genuine packet the endpoint has already accepted
	c15Stale          // third address: genuine, never delivered packet released after it fell below the replay window
	c15Trunc          // third address: truncated copy of a genuine packet
	c15Blocked        // the peer roams while a write of the endpoint is blocked in the socket and further writes are queued behind it
	c15Reflect        // third address or the peer's address: a datagram the endpoint under test ITSELF sent is delivered back to it
)

var c15KindNames = []string{"genuine", "roam", "move", "forged", "flip", "replay", "stale", "truncated", "roam-while-write-blocked", "reflection"}
var c15Regions = []string{"type", "reserved", "session-id", "counter", "body", "tag"}

// replay window of the transport ("receive window of 448", transport/replay.go): a packet more than 448 counters behind
// the newest accepted one is stale under every reading of the window edge.
const c15Window = 448

type c15Step struct {
	Kind    int    `json:"k"`
	Len     int    `json:"len,omitempty"`    // payload length of the genuine packet written in this step / body length of a forged packet
	Seed    uint64 `json:"seed,omitempty"`   // payload / forged bytes (vlib.Fill)
	IP      int    `json:"ip,omitempty"`     // roam/move: 0 keep the IP, i>0: c15IPs[i-1]
	Port    int    `json:"port,omitempty"`   // roam/move: 0 keep the port, else the new port
	From    int    `json:"from,omitempty"`   // adversary's source address: 0 vEvilAddr, 1 an address the peer used earlier, 2 the peer's IP with another port, 3 the peer's port on another IP, 4 drawn (AdvIP, AdvPort); reflection only: 5 the peer's current address
	AdvIP   int    `json:"aip,omitempty"`    // index into c15IPs
	AdvPort int    `json:"aport,omitempty"`  // 0: the peer's port + 1
	Fresh   bool   `json:"fresh,omitempty"`  // flip/truncated: alter a packet the endpoint has never seen (the original is dropped on the wire) instead of an already delivered one
	Pick    int    `json:"pick,omitempty"`   // flip/truncated/replay of a delivered packet: how far back in the capture log
	Region  int    `json:"region,omitempty"` // flip: index into c15Regions
	Off     int    `json:"off,omitempty"`    // flip: offset inside the region (mod its length)
	Mask    int    `json:"mask,omitempty"`   // flip: xor mask 1..255
	Ctr     int    `json:"ctr,omitempty"`    // forged: counter = the peer's next counter + Ctr (clamped at 0)
	Big     bool   `json:"big,omitempty"`    // forged: counter 2^62 ahead
	Ctl     bool   `json:"ctl,omitempty"`    // forged: message type Control instead of Transport
	Cut     int    `json:"cut,omitempty"`    // truncated: resulting length
	Burst   int    `json:"burst,omitempty"`  // stale: number of later genuine packets delivered before the held one is released (>= 449)
	App     int    `json:"app,omitempty"`    // before this step the endpoint's application 1: stops reading, 2: resumes reading (0: no change)
	Extra   int    `json:"extra,omitempty"`  // genuine/roam/move: the peer first sends this many more genuine packets from its current (old) address
	Queued  int    `json:"queued,omitempty"` // roam-while-write-blocked: number of concurrent writers queued behind the write that is blocked in the socket (1..4)
	Ahead   int    `json:"ahead,omitempty"`  // reflection: the endpoint under test first writes this many more messages (so that it has sent more than it has received and its newest counters are unseen in its own receive window)
}

type c15Case struct {
	Hidden bool      `json:"hidden"`
	Side   int       `json:"side"` // 0: server's view of the client address; 1: client's view of the server address
	Steps  []c15Step `json:"steps"`
	Fam    int       `json:"fam,omitempty"` // family of the fixture addresses: 0 IPv4-mapped 16-byte, 1 IPv4 4-byte, 2 IPv6 (the pool c15IPs mixes both anyway)
	Queue  int       `json:"queue,omitempty"` // receive queue length (packets) of the endpoint under test; 0: the package default
}

var c15IPs = []string{"10.0.0.9", "192.168.7.7", "172.16.1.1", "2001:db8::5", "10.6.6.6", "203.0.113.77", "2001:db8::6", "2001:db8:1::5", "fd00::a00:2"}

var c15Sides = []string{"server", "client"}

// c15ShortOK: datagrams of 8..47 bytes carrying a live session id can be presented (learnt by c15Probe). On the pinned
// tree they panic handleSessionMessage (makeslice with a negative length) and kill the process; that defect belongs to
// C10 and is excluded here by construction for as long as it exists.
var c15ShortOK bool

func c15Same(a, b *net.UDPAddr) bool {
	if a == nil || b == nil {
		return a == b
	}
	return a.Port == b.Port && a.IP.Equal(b.IP) && a.Zone == b.Zone
}

// ---------------------------------------------------------------------------
// wire log / on-path hold

type c15Wire struct {
	mu   sync.Mutex
	eut  *net.UDPAddr
	log  []simnet.Datagram // every datagram handed to the network by either endpoint
	hold bool              // swallow the next datagram addressed to the endpoint under test
	held *simnet.Datagram
}

func (w *c15Wire) filter(d simnet.Datagram) []simnet.Datagram {
	w.mu.Lock()
	defer w.mu.Unlock()
	w.log = append(w.log, d)
	if w.hold && c15Same(d.Dst, w.eut) {
		w.hold = false
		x := d
		w.held = &x
		return nil
	}
	return []simnet.Datagram{d}
}

func (w *c15Wire) mark() int {
	w.mu.Lock()
	defer w.mu.Unlock()
	return len(w.log)
}

func (w *c15Wire) since(n int) []simnet.Datagram {
	w.mu.Lock()
	defer w.mu.Unlock()
	return append([]simnet.Datagram(nil), w.log[n:]...)
}

// c15Reader is an application reading messages in a loop. pause makes it a slow application: it finishes the ReadMsg
// call it is in (that call returns with the next message) and then does not call ReadMsg again until resume.
type c15Reader struct {
	mu   sync.Mutex
	n    int
	gate chan struct{} // non-nil while the application is busy elsewhere; closed by resume
	quit chan struct{}
}

func (r *c15Reader) run(read func([]byte) (int, error)) {
	buf := make([]byte, 70000)
	for {
		r.mu.Lock()
		g := r.gate
		r.mu.Unlock()
		if g != nil {
			select {
			case <-g:
			case <-r.quit:
				return
			}
		}
		if _, err := read(buf); err != nil {
			return
		}
		r.mu.Lock()
		r.n++
		r.mu.Unlock()
	}
}

func (r *c15Reader) pause() {
	r.mu.Lock()
	defer r.mu.Unlock()
	if r.gate == nil {
		r.gate = make(chan struct{})
	}
}

func (r *c15Reader) resume() {
	r.mu.Lock()
	defer r.mu.Unlock()
	if r.gate != nil {
		close(r.gate)
		r.gate = nil
	}
}

func (r *c15Reader) count() int {
	r.mu.Lock()
	defer r.mu.Unlock()
	return r.n
}

// ---------------------------------------------------------------------------
// scenario

type c15Scn struct {
	c        c15Case
	v        *vlib.Verdict
	side     string
	env      *vEnv
	cli      *Client
	h        *Handle
	peerSock *simnet.Sock
	eutSock  *simnet.Sock // socket of the endpoint under test
	sid      SessionID
	wire     c15Wire

	eut  *net.UDPAddr   // fixed address of the endpoint under test
	cur  *net.UDPAddr   // where the peer is now
	hist []*net.UDPAddr // addresses the peer used earlier

	// model
	addr      *net.UDPAddr // source of the last delivered datagram that was genuine, unmodified and fresh
	delivered [][]byte     // genuine peer packets delivered unmodified (capture log)
	nextCtr   uint64       // the peer's next send counter
	wantEut   int          // messages the endpoint's application must have received
	wantPeer  int          // messages the peer's application must have received

	// model of the endpoint's receive queue and of its application
	qcap    int  // queue length in packets
	q       int  // accepted messages waiting in the queue
	rdIn    bool // the application is inside ReadMsg, waiting (then the queue is empty)
	stalled bool // the application does not call ReadMsg again once the call it is in has returned
	dropped int  // genuine fresh packets whose payload the endpoint dropped at a full queue

	eutRd, peerRd c15Reader

	// roam-while-write-blocked steps
	blocked bool // a write of the endpoint is blocked in the socket, others wait for the handle's write mutex: synctest.Wait cannot be used
	skip    int  // wire-log mark: datagrams before it have been judged by the step itself

	// reflection steps
	burst   int             // messages the endpoint wrote during the step (in addition to the one written after every step)
	seen    map[uint64]bool // counters of the genuine packets delivered to the endpoint (model of its receive window)
	maxSeen uint64
	anySeen bool

	setupErr string
	changes  int // genuine address changes
	advs     int // adversarial datagrams from a third address
	labels   map[string]bool
}

func (s *c15Scn) label(f string, a ...any) { s.labels[fmt.Sprintf(f, a...)] = true }

// settle lets every goroutine run until nothing more can happen without the harness's next action. While writers of
// the endpoint wait for the handle's write mutex (not a durable wait) synctest.Wait would never return.
func (s *c15Scn) settle() bool {
	if !s.blocked {
		synctest.Wait()
		return true
	}
	if !vlib.BubbleQuiet(200000) {
		s.setupErr = "harness: the bubble did not become quiet while a write was blocked in the socket"
		return false
	}
	return true
}

func (s *c15Scn) peerWrite(b []byte) error {
	if s.c.Side == 0 {
		return s.cli.WriteMsg(b)
	}
	return s.h.WriteMsg(b)
}

func (s *c15Scn) eutWrite(b []byte) error {
	if s.c.Side == 0 {
		return s.h.WriteMsg(b)
	}
	return s.cli.WriteMsg(b)
}

func c15Ctr(pkt []byte) uint64 { return binary.BigEndian.Uint64(pkt[HeaderLen+SessionIDLen:]) }

// genuine: the peer writes one message; the datagram is delivered unmodified from the peer's current address.
func (s *c15Scn) genuine(st c15Step) bool {
	m := s.wire.mark()
	if err := s.peerWrite(vlib.Fill(st.Seed, st.Len)); err != nil {
		s.v.Failf("C15:"+s.side+":peer-write-fails", "the honest peer's WriteMsg failed: %v", err)
		return false
	}
	var d *simnet.Datagram
	for _, x := range s.wire.since(m) {
		if c15Same(x.Dst, s.eut) {
			x := x
			d = &x
		}
	}
	if d == nil || !c15Same(d.Src, s.cur) || len(d.Data) != 48+st.Len {
		s.setupErr = fmt.Sprintf("harness: genuine packet not seen on the wire as expected (%v)", d)
		return false
	}
	s.delivered = append(s.delivered, d.Data)
	s.nextCtr = c15Ctr(d.Data) + 1
	s.seen[c15Ctr(d.Data)] = true
	s.maxSeen, s.anySeen = max(s.maxSeen, c15Ctr(d.Data)), true
	if !c15Same(s.addr, d.Src) {
		s.changes++
	}
	moved := !c15Same(s.addr, d.Src)
	s.addr = d.Src // MODEL: delivered, genuine, unmodified, fresh (whether or not the payload finds room in the queue)
	// MODEL of the hand-over to the application: a waiting reader takes the message; otherwise it is queued while
	// there is room; otherwise the endpoint drops the payload (documented: "Packets after this will dropped until the
	// user calls Read").
	switch {
	case s.rdIn:
		s.wantEut++
		if s.stalled {
			s.rdIn = false // the slow application has got its message and is now busy with it
		}
		if moved && s.stalled {
			s.label("roam-arrives-while-app-stalled:queue-has-room")
		}
	case s.q < s.qcap:
		s.q++
		if moved {
			s.label("roam-arrives-while-app-stalled:queue-has-room")
		}
	default:
		s.dropped++
		s.label("genuine-packet-dropped-at-full-queue")
		if moved {
			s.label("roam-arrives-at-full-queue")
		}
	}
	if s.c.Queue != 0 {
		// a short queue and a reading application: let the application take the message before the next one arrives
		// (otherwise whether a burst overflows the queue would depend on the scheduler)
		return s.settle()
	}
	return true
}

// blockedRoam: "subsequent traffic goes to that address" for writes that are already under way when the peer moves.
// The endpoint's socket stops taking datagrams (a full send buffer: simnet write gate). One write of the endpoint's
// application blocks inside the socket - its packet is sealed and its destination was handed to the socket before the
// peer moved -, st.Queued further concurrent writers queue up behind it. Then the peer moves, its genuine packet from the
// new address is delivered and processed by the endpoint, and only then does the socket drain. Judged: every datagram
// whose socket write BEGAN after the genuine packet from the new address had been processed goes to the new address. A
// datagram whose socket write had begun before (the one blocked inside the socket) may carry the old destination.
func (s *c15Scn) blockedRoam(st c15Step) bool {
	k := st.Queued
	if k < 1 {
		k = 1
	}
	if k > 4 {
		k = 4
	}
	what := c15KindNames[c15Blocked]
	rel := make(chan struct{})
	released := false
	release := func() {
		if !released {
			released = true
			close(rel)
		}
	}
	var inSock atomic.Int32
	s.eutSock.SetWriteGate(func(b []byte, _ *net.UDPAddr, closed <-chan struct{}) {
		if !s.isSession(b) {
			return
		}
		inSock.Add(1)
		select {
		case <-rel:
		case <-closed:
		}
	})
	defer func() {
		release()
		s.eutSock.SetWriteGate(nil)
		s.blocked = false
	}()
	m := s.wire.mark()
	res := make(chan error, 1+k)
	go func() { res <- s.eutWrite(vlib.Fill(st.Seed^0xb10c, 1+st.Len%5)) }()
	synctest.Wait()
	if inSock.Load() != 1 {
		select {
		case err := <-res:
			s.v.Failf("C15:"+s.side+":endpoint-write-fails-after:"+what, "the endpoint's WriteMsg returned %v without reaching the socket", err)
		default:
			s.setupErr = "harness: the first write did not reach the socket"
		}
		return false
	}
	for i := 0; i < k; i++ {
		go func(i int) { res <- s.eutWrite(vlib.Fill(st.Seed^0xb10c+uint64(i)+1, 2+i)) }(i)
	}
	s.blocked = true
	if !s.settle() { // the queued writers have gone as far as they can
		return false
	}
	addrBefore := s.addr
	how := s.move(st)
	s.label("step:%s:%s", what, how)
	s.label("step:%s:%d-writers-queued", what, k)
	if !s.genuine(st) || !s.settle() { // the endpoint has processed the genuine packet from the new address
		return false
	}
	began := int(inSock.Load()) // writes whose socket write had begun before that
	s.blocked = false
	release()
	synctest.Wait()
	for i := 0; i < 1+k; i++ {
		select {
		case err := <-res:
			if err != nil {
				s.v.Failf("C15:"+s.side+":endpoint-write-fails-after:"+what, "a WriteMsg of the endpoint that was blocked in the socket or queued behind such a write while the peer moved failed: %v", err)
				return false
			}
		default:
			s.v.Failf("C15:"+s.side+":write-not-released:"+what, "the socket takes datagrams again but only %d of the %d concurrent WriteMsg calls have returned", i, 1+k)
			return false
		}
	}
	emitted, old := 0, 0
	for _, d := range s.wire.since(m) {
		if !c15Same(d.Src, s.eut) {
			continue
		}
		if !s.isSession(d.Data) {
			s.label("endpoint-emitted-a-non-session-datagram")
			continue
		}
		emitted++
		switch {
		case c15Same(d.Dst, s.addr):
		case c15Same(d.Dst, addrBefore) && old < began:
			old++ // its socket write had begun before the genuine packet from the new address arrived
			s.label("blocked-write-keeps-its-old-destination(allowed)")
		case c15Same(d.Dst, addrBefore):
			s.v.Failf("C15:"+s.side+":roaming-not-followed:write-queued-behind-a-blocked-socket-write", "%d writes were queued behind a write blocked in the socket when a genuine fresh packet arrived from %v and was processed; after the socket drained %d datagrams went to the old address %v although only %d socket write(s) had begun before the move", k, s.addr, old+1, addrBefore, began)
			return false
		default:
			s.v.Failf("C15:"+s.side+":unexpected-destination:after-"+what, "the endpoint sends to %v, the last genuine fresh packet came from %v (before: %v)", d.Dst, s.addr, addrBefore)
			return false
		}
		if c15Same(d.Dst, s.cur) {
			s.wantPeer++
		}
	}
	if emitted != 1+k {
		s.v.Failf("C15:"+s.side+":session-datagrams-per-write:"+what, "%d WriteMsg calls returned nil and the endpoint put %d session datagrams on the wire", 1+k, emitted)
		return false
	}
	s.skip = s.wire.mark()
	return true
}

// extra: the peer sends n more genuine packets from where it is now.
func (s *c15Scn) extra(st c15Step) bool {
	for i := 0; i < st.Extra; i++ {
		if !s.genuine(c15Step{Seed: st.Seed ^ uint64(0xe0+i), Len: 1 + (st.Len+i)%9}) {
			return false
		}
	}
	if st.Extra > 0 {
		s.label("step:with-extra-genuine-packets-first")
	}
	return true
}

// app applies the step's change of the application's reading behaviour (all goroutines are settled when it is called).
func (s *c15Scn) app(st c15Step) {
	switch {
	case st.App == 1 && !s.stalled:
		s.stalled = true
		s.eutRd.pause()
		s.label("app:stops-reading")
	case st.App == 2 && s.stalled:
		s.appResume()
		s.label("app:resumes-reading")
	}
}

func (s *c15Scn) appResume() {
	s.stalled = false
	s.eutRd.resume()
	synctest.Wait()
	// MODEL: a reading application empties the queue and waits in ReadMsg
	if !s.rdIn {
		s.wantEut += s.q
		s.q, s.rdIn = 0, true
	}
}

// intercept: the peer writes one message; the datagram is taken off the wire (never delivered) and returned.
func (s *c15Scn) intercept(st c15Step) []byte {
	s.wire.mu.Lock()
	s.wire.hold, s.wire.held = true, nil
	s.wire.mu.Unlock()
	err := s.peerWrite(vlib.Fill(st.Seed, st.Len))
	s.wire.mu.Lock()
	d := s.wire.held
	s.wire.hold, s.wire.held = false, nil
	s.wire.mu.Unlock()
	if err != nil {
		s.v.Failf("C15:"+s.side+":peer-write-fails", "the honest peer's WriteMsg failed: %v", err)
		return nil
	}
	if d == nil || len(d.Data) != 48+st.Len {
		s.setupErr = "harness: intercepted packet not seen on the wire"
		return nil
	}
	s.nextCtr = c15Ctr(d.Data) + 1
	return d.Data
}

func (s *c15Scn) poolIP(i int) net.IP {
	if i < 0 {
		i = -i
	}
	return net.ParseIP(c15IPs[i%len(c15IPs)])
}

// moveTarget resolves the peer's new address; it always differs from the current one.
func (s *c15Scn) moveTarget(st c15Step) (*net.UDPAddr, string) {
	a := &net.UDPAddr{IP: s.cur.IP, Port: s.cur.Port}
	if st.IP > 0 {
		a.IP = s.poolIP(st.IP - 1)
	}
	if st.Port > 0 {
		a.Port = st.Port
	}
	for c15Same(a, s.cur) || c15Same(a, s.eut) {
		a.Port = a.Port%65535 + 1
	}
	switch ipCh, portCh := !a.IP.Equal(s.cur.IP), a.Port != s.cur.Port; {
	case ipCh && portCh:
		return a, "ip+port"
	case ipCh:
		return a, "ip"
	default:
		return a, "port"
	}
}

func (s *c15Scn) move(st c15Step) string {
	a, how := s.moveTarget(st)
	s.hist = append(s.hist, s.cur)
	s.peerSock.Rebind(a)
	s.cur = a
	return how
}

// third resolves the adversary's source address: never the peer's current address, never the address the model
// says traffic goes to, never the endpoint's own address.
func (s *c15Scn) third(st c15Step) (*net.UDPAddr, string) {
	bad := func(a *net.UDPAddr) bool { return c15Same(a, s.cur) || c15Same(a, s.addr) || c15Same(a, s.eut) }
	var a *net.UDPAddr
	cls := "evil"
	switch st.From {
	case 1:
		for i := len(s.hist) - 1; i >= 0; i-- {
			if !bad(s.hist[i]) {
				a, cls = s.hist[i], "earlier-peer-address"
				break
			}
		}
	case 2:
		p := st.AdvPort
		if p == 0 {
			p = s.cur.Port%65535 + 1
		}
		a, cls = &net.UDPAddr{IP: s.cur.IP, Port: p}, "peer-ip-other-port"
	case 3:
		for j := 0; j < len(c15IPs); j++ {
			if ip := s.poolIP(st.AdvIP + j); !ip.Equal(s.cur.IP) {
				a, cls = &net.UDPAddr{IP: ip, Port: s.cur.Port}, "peer-port-other-ip"
				break
			}
		}
	case 4:
		p := st.AdvPort
		if p == 0 {
			p = 5353
		}
		a, cls = &net.UDPAddr{IP: s.poolIP(st.AdvIP), Port: p}, "drawn"
	}
	if a == nil {
		a, cls = &net.UDPAddr{IP: vEvilAddr.IP, Port: vEvilAddr.Port}, "evil"
	}
	if bad(a) {
		a = &net.UDPAddr{IP: a.IP, Port: a.Port}
		for bad(a) {
			a.Port = a.Port%65535 + 1
		}
		if cls == "peer-port-other-ip" || cls == "earlier-peer-address" {
			cls = "drawn"
		}
	}
	return a, cls
}

// original returns the genuine packet an adversarial copy is made from: a fresh one (written now, dropped on the
// wire) or one from the capture log of delivered packets.
func (s *c15Scn) original(st c15Step) (pkt []byte, fresh bool) {
	if st.Fresh || len(s.delivered) == 0 {
		return s.intercept(st), true
	}
	p := st.Pick
	if p < 0 {
		p = -p
	}
	return s.delivered[len(s.delivered)-1-p%len(s.delivered)], false
}

func c15FlipPos(L, region, off int) int {
	if off < 0 {
		off = -off
	}
	body := L - 48
	switch region {
	case 0:
		return 0
	case 1:
		return 1 + off%3
	case 2:
		return HeaderLen + off%SessionIDLen
	case 3:
		return HeaderLen + SessionIDLen + off%CounterLen
	case 4:
		if body > 0 {
			return 16 + off%body
		}
	}
	return L - TagLen + off%TagLen
}

// step performs the deliveries of one step. It returns the class of the adversarial datagram ("" for honest steps)
// and the address it came from.
func (s *c15Scn) step(st c15Step) (class string, from *net.UDPAddr, ok bool) {
	switch st.Kind {
	case c15Genuine:
		s.label("step:genuine")
		return "", nil, s.extra(st) && s.genuine(st)
	case c15Roam:
		if !s.extra(st) {
			return "", nil, false
		}
		how := s.move(st)
		s.label("step:roam:%s", how)
		return "", nil, s.genuine(st)
	case c15Move:
		if !s.extra(st) {
			return "", nil, false
		}
		how := s.move(st)
		s.label("step:silent-move:%s", how)
		return "", nil, true
	case c15Blocked:
		return "", nil, s.blockedRoam(st)
	}
	// adversarial kinds
	var data []byte
	switch st.Kind {
	case c15Forged:
		class = "forged"
		ctr := int64(s.nextCtr) + int64(st.Ctr)
		if ctr < 0 {
			ctr = 0
		}
		if st.Big {
			ctr += 1 << 62
			class = "forged:far-ahead-counter"
		}
		typ := byte(MessageTypeTransport)
		if st.Ctl {
			typ = byte(MessageTypeControl)
			class += ":control"
		}
		data = make([]byte, 16, 48+st.Len)
		data[0] = typ
		copy(data[4:8], s.sid[:])
		binary.BigEndian.PutUint64(data[8:16], uint64(ctr))
		data = append(data, vlib.Fill(st.Seed, st.Len+TagLen)...)
	case c15Flip:
		orig, fresh := s.original(st)
		if orig == nil {
			return "", nil, false
		}
		data = append([]byte(nil), orig...)
		region := st.Region
		if region < 0 || region >= len(c15Regions) {
			region = 5
		}
		pos := c15FlipPos(len(data), region, st.Off)
		mask := byte(st.Mask)
		if mask == 0 {
			mask = 1
		}
		data[pos] ^= mask
		switch {
		case pos == 0:
			region = 0
		case pos < 4:
			region = 1
		case pos < 8:
			region = 2
		case pos < 16:
			region = 3
		case pos < len(data)-TagLen:
			region = 4
		default:
			region = 5
		}
		class = "flip:" + c15Regions[region]
		s.label("adv:flip:%s:of-%s-packet", c15Regions[region], map[bool]string{true: "undelivered", false: "delivered"}[fresh])
		if fresh && len(data) == 48 {
			s.label("adv:flip:of-undelivered-empty-message")
		}
		if pos == 0 && data[0] == byte(MessageTypeControl) {
			s.label("adv:flip:type:transport->control")
		} else if pos == 0 && data[0] <= byte(MessageTypeServerResponseHidden) && MessageType(data[0]).IsHandshakeType() {
			s.label("adv:flip:type:transport->handshake-type")
		}
	case c15Replay:
		if len(s.delivered) == 0 {
			// nothing to replay yet: deliver one genuine packet first
			if !s.genuine(st) {
				return "", nil, false
			}
			synctest.Wait()
		}
		orig, _ := s.original(c15Step{Pick: st.Pick})
		data = append([]byte(nil), orig...)
		class = "replay"
	case c15Stale:
		held := s.intercept(st)
		if held == nil {
			return "", nil, false
		}
		burst := st.Burst
		if burst < c15Window+1 {
			burst = c15Window + 1
		}
		for i := 0; i < burst; i++ {
			if !s.genuine(c15Step{Seed: st.Seed + uint64(i) + 1, Len: 1 + i%3}) {
				return "", nil, false
			}
			if i%128 == 127 {
				synctest.Wait()
			}
		}
		synctest.Wait()
		data = held
		class = "stale"
	case c15Trunc:
		orig, fresh := s.original(st)
		if orig == nil {
			return "", nil, false
		}
		cut := st.Cut
		if cut >= len(orig) {
			cut = len(orig) - 1
		}
		if cut < 0 {
			cut = 0
		}
		if !c15ShortOK {
			s.label("excluded-by-construction:truncated:8-47(short-datagram-panic-still-present)")
			if cut >= 8 && cut < 48 {
				cut = 48 // see c15ShortOK; 48 < len(orig) because every genuine payload has >= 1 byte
			}
		}
		data = append([]byte(nil), orig[:cut]...)
		switch {
		case cut < 8:
			class = "truncated:below-8"
		case cut < 48:
			class = "truncated:8-47"
		default:
			class = "truncated:48-or-more"
		}
		s.label("adv:%s:of-%s-packet", class, map[bool]string{true: "undelivered", false: "delivered"}[fresh])
	case c15Reflect:
		// REFLECTION: a datagram that the endpoint under test itself sent (captured off the wire by the adversary) is
		// delivered back to that same endpoint. It is authentic traffic of the session - but of the OTHER direction: by
		// the statement only a packet that "authenticates under the session keys and passes the replay filter" AT THE
		// RECEIVER counts, and an endpoint's own packets must not authenticate at itself. The counter of the reflected
		// datagram is the endpoint's SEND counter; whether it is fresh in the endpoint's RECEIVE window depends on the
		// history: st.Ahead extra writes of the endpoint put it ahead of everything received, st.Extra extra genuine
		// packets of the peer put it behind.
		if !s.extra(st) {
			return "", nil, false
		}
		own := func() (o [][]byte) {
			for _, d := range s.wire.since(0) {
				if c15Same(d.Src, s.eut) && s.isSession(d.Data) && len(d.Data) >= 48 {
					o = append(o, d.Data)
				}
			}
			return o
		}
		n := st.Ahead
		if n == 0 && len(own()) == 0 {
			n = 1 // nothing to reflect yet
		}
		for i := 0; i < n; i++ {
			if err := s.eutWrite(vlib.Fill(st.Seed^uint64(0xa0+i), 1+(st.Len+i)%11)); err != nil {
				s.v.Failf("C15:"+s.side+":endpoint-write-fails-after:reflection-burst", "the endpoint's WriteMsg failed: %v", err)
				return "", nil, false
			}
			s.burst++
			synctest.Wait() // the peer's application takes the message before the next one
		}
		o := own()
		if len(o) == 0 {
			s.setupErr = "harness: no session datagram of the endpoint under test on the wire"
			return "", nil, false
		}
		p := st.Pick
		if p < 0 {
			p = -p
		}
		data = append([]byte(nil), o[len(o)-1-p%len(o)]...)
		class = "reflection"
		switch ctr := c15Ctr(data); {
		case !s.anySeen || ctr > s.maxSeen:
			s.label("adv:reflection:counter-ahead-of-everything-the-endpoint-received")
		case !s.seen[ctr] && s.maxSeen-ctr < c15Window:
			s.label("adv:reflection:counter-unseen-inside-the-endpoint's-receive-window")
		default:
			s.label("adv:reflection:counter-already-seen-or-stale-at-the-endpoint")
		}
		if p%len(o) == 0 {
			s.label("adv:reflection:of-the-endpoint's-newest-datagram")
		}
	default:
		s.setupErr = fmt.Sprintf("harness: unknown step kind %d", st.Kind)
		return "", nil, false
	}
	from, fcls := s.third(st)
	if st.Kind == c15Reflect && st.From == 5 {
		// from the peer's own address: a redirect can only be seen if the peer moved silently before; the delivery
		// clause (nothing adversarial reaches the application) applies in any case
		from, fcls = &net.UDPAddr{IP: s.cur.IP, Port: s.cur.Port}, "peer-current-address"
	}
	if !s.rdIn && s.q >= s.qcap {
		s.label("adversarial-datagram-arrives-at-full-queue")
	}
	s.label("adv:%s", class)
	s.label("from:%s", fcls)
	s.advs++
	und := s.env.Net.Undeliverable
	s.env.Net.Inject(from, s.eut, data)
	if s.env.Net.Undeliverable != und {
		s.setupErr = "harness: injected datagram did not reach the endpoint's socket"
		return "", nil, false
	}
	return class, from, true
}

func (s *c15Scn) isSession(b []byte) bool {
	return len(b) >= 8 && (b[0] == byte(MessageTypeTransport) || b[0] == byte(MessageTypeControl)) && bytes.Equal(b[4:8], s.sid[:])
}

func c15Scenario(c c15Case, v *vlib.Verdict, s *c15Scn) {
	w := vGetWorld()
	s.c, s.v, s.labels, s.seen = c, v, map[string]bool{}, map[uint64]bool{}
	s.side = c15Sides[c.Side&1]
	scfg, ccfg := w.ServerConfig(c.Hidden), w.ClientConfig(c.Hidden, false)
	if c.Side == 0 {
		scfg.MaxBufferedPacketsPerConnection = c.Queue
		s.qcap = scfg.maxBufferedPacketsPerConnection()
	} else {
		ccfg.MaxBufferedPackets = c.Queue
		s.qcap = ccfg.maxBufferedPackets()
	}
	s.env = vStartServer(scfg)
	defer s.env.Stop()
	if c.Side == 0 {
		s.eut, s.cur = vSrvAddr, vCliAddr
	} else {
		s.eut, s.cur = vCliAddr, vSrvAddr
	}
	s.wire.eut = s.eut
	s.env.Net.Filter = s.wire.filter
	cli, csock := s.env.NewClient(vCliAddr, ccfg)
	defer cli.Close()
	s.eutRd.quit = make(chan struct{})
	defer close(s.eutRd.quit) // releases an application that is still not reading when the script ends
	s.cli = cli
	if err := cli.Handshake(); err != nil {
		s.setupErr = fmt.Sprintf("honest handshake failed: %v", err)
		return
	}
	h, err := s.env.Srv.AcceptTimeout(3 * time.Second)
	if err != nil || h == nil {
		s.setupErr = fmt.Sprintf("honest handshake not accepted: %v", err)
		return
	}
	s.h = h
	s.sid = cli.ss.sessionID
	if c.Side == 0 {
		s.peerSock, s.eutSock = csock, s.env.SrvSock
		go s.eutRd.run(h.ReadMsg)
		go s.peerRd.run(cli.ReadMsg)
	} else {
		s.peerSock, s.eutSock = s.env.SrvSock, csock
		go s.eutRd.run(cli.ReadMsg)
		go s.peerRd.run(h.ReadMsg)
	}
	s.addr = s.cur // the handshake came from here
	synctest.Wait()
	s.rdIn = true // the application waits in ReadMsg, nothing is queued

	for i, st := range c.Steps {
		s.app(st)
		s.burst = 0
		m := s.wire.mark()
		addrBefore := s.addr
		class, from, ok := s.step(st)
		if !ok {
			return
		}
		synctest.Wait()
		// the endpoint under test writes one message; where does it go?
		werr := s.eutWrite(vlib.Fill(st.Seed^0x5a5a5a5a, 1+i%7))
		synctest.Wait()
		ctx := class
		if ctx == "" {
			ctx = c15KindNames[st.Kind]
		}
		if werr != nil {
			v.Failf("C15:"+s.side+":endpoint-write-fails-after:"+ctx, "step %d (%s): the endpoint's WriteMsg failed: %v", i, ctx, werr)
			return
		}
		emitted := 0
		for _, d := range s.wire.since(max(m, s.skip)) {
			if !c15Same(d.Src, s.eut) {
				continue
			}
			if !s.isSession(d.Data) {
				s.label("endpoint-emitted-a-non-session-datagram")
				continue
			}
			emitted++
			if c15Same(d.Dst, s.addr) {
				continue
			}
			switch {
			case from != nil && c15Same(d.Dst, from):
				v.Failf("C15:"+s.side+":redirected-by:"+class, "step %d: after a %s datagram from %v the endpoint sends the session's traffic to %v; the last genuine fresh packet came from %v", i, class, from, d.Dst, s.addr)
			case !c15Same(addrBefore, s.addr) && c15Same(d.Dst, addrBefore):
				v.Failf("C15:"+s.side+":roaming-not-followed", "step %d (%s): a genuine fresh packet arrived from %v but the endpoint still sends to %v", i, ctx, s.addr, d.Dst)
			default:
				v.Failf("C15:"+s.side+":unexpected-destination:after-"+ctx, "step %d (%s): the endpoint sends to %v, the last genuine fresh packet came from %v", i, ctx, d.Dst, s.addr)
			}
			return
		}
		if s.burst > 0 && emitted != 1+s.burst {
			v.Failf("C15:"+s.side+":session-datagrams-per-write:after-"+ctx, "step %d (%s): %d WriteMsg calls returned nil and the endpoint put %d session datagrams on the wire", i, ctx, 1+s.burst, emitted)
			return
		}
		if s.burst == 0 && emitted != 1 {
			v.Failf("C15:"+s.side+":session-datagrams-per-write:"+fmt.Sprint(min(emitted, 2)), "step %d (%s): WriteMsg returned nil and the endpoint put %d session datagrams on the wire", i, ctx, emitted)
			return
		}
		// the session stays usable: genuine packets are accepted (also right after a move), adversarial ones are not,
		// and what the endpoint writes reaches the peer whenever the peer is where its last genuine packet came from
		if got := s.eutRd.count(); got < s.wantEut {
			v.Failf("C15:"+s.side+":genuine-packet-not-accepted:"+ctx, "step %d (%s): the endpoint's application received %d messages; %d genuine fresh packets were delivered while it was reading or waiting in ReadMsg (%d more wait in the queue of length %d, %d were dropped at a full queue)", i, ctx, got, s.wantEut, s.q, s.qcap, s.dropped)
			return
		} else if got > s.wantEut {
			v.Failf("C15:"+s.side+":accepted:"+ctx, "step %d (%s): the endpoint's application received %d messages, only %d genuine fresh packets were delivered while it was reading or waiting in ReadMsg (%d more wait in the queue of length %d, %d were dropped at a full queue)", i, ctx, got, s.wantEut, s.q, s.qcap, s.dropped)
			return
		}
		if c15Same(s.addr, s.cur) {
			s.wantPeer += 1 + s.burst
		} else {
			s.label("endpoint-writes-to-vacated-address(model-agrees)")
		}
		if got := s.peerRd.count(); got != s.wantPeer {
			v.Failf("C15:"+s.side+":peer-lost-the-session:after-"+ctx, "step %d (%s): the peer's application received %d messages, expected %d", i, ctx, got, s.wantPeer)
			return
		}
	}
	// an application that was not reading when the script ended reads again: what was queued comes out, no more, no less
	if s.stalled {
		s.appResume()
		if got := s.eutRd.count(); got != s.wantEut {
			v.Failf("C15:"+s.side+":queued-messages-after-app-resumes:"+map[bool]string{true: "missing", false: "surplus"}[got < s.wantEut], "after the script the endpoint's application reads again and has received %d messages in total; %d genuine fresh packets were taken by it or found room in the queue (queue length %d, %d dropped at a full queue)", got, s.wantEut, s.qcap, s.dropped)
			return
		}
	}
}

func c15Run(t *testing.T) func(c c15Case, v *vlib.Verdict) {
	return func(c c15Case, v *vlib.Verdict) {
		if c.Side < 0 || c.Side > 1 || len(c.Steps) == 0 || c.Queue < 0 || c.Queue > 64 {
			v.Discard = true
			return
		}
		for _, st := range c.Steps {
			if st.App < 0 || st.App > 2 || st.Extra < 0 || st.Extra > 16 || (st.Extra > 0 && st.Kind > c15Move && st.Kind != c15Reflect) || st.Ahead < 0 || st.Ahead > 64 || (st.Ahead > 0 && st.Kind != c15Reflect) || st.From < 0 || st.From > 5 {
				v.Discard = true
				return
			}
			if st.Kind < 0 || st.Kind > c15Reflect || st.Queued < 0 || st.Queued > 4 || st.Len < 0 || st.Len > 4096 || ((st.Kind != c15Forged && st.Kind != c15Move && st.Kind != c15Genuine && st.Kind != c15Roam && st.Kind != c15Blocked && st.Kind != c15Reflect && st.Kind != c15Flip) && st.Len < 1) {
				v.Discard = true
				return
			}
		}
		var s c15Scn
		defer vSetFamily(vSetFamily(c.Fam))
		v.Label("addresses:" + vFamilyNames[c.Fam%3])
		res := vlib.Bubble(t, 60*time.Second, func() { c15Scenario(c, v, &s) })
		if res.Hung {
			v.Inconclusive = "bubble hung in real time (C15)"
			return
		}
		if res.Panic != "" {
			if res.Leak() || res.Deadlock() {
				v.Failf("C15:goroutines-left:"+fmt.Sprint(vlib.BlockedHopFrames(res.Stacks)), "after closing client and server goroutines remain: %v", vlib.BlockedHopFrames(res.Stacks))
			} else {
				v.Failf(vlib.PanicSig(res.Panic, res.Stacks), "panic: %s", res.Panic)
			}
			return
		}
		if s.setupErr != "" {
			v.Inconclusive = s.setupErr
			return
		}
		v.Label(fmt.Sprintf("%s-tracks-peer:%s", s.side, map[bool]string{false: "discoverable", true: "hidden"}[c.Hidden]))
		var ls []string
		for l := range s.labels {
			ls = append(ls, l)
		}
		sort.Strings(ls)
		for _, l := range ls {
			v.Label(l)
		}
		switch {
		case c.Queue == 0:
			v.Label("receive-queue:package-default")
		case c.Queue <= 2:
			v.Label(fmt.Sprintf("receive-queue:%d", c.Queue))
		default:
			v.Label("receive-queue:3-5")
		}
		if !s.labels["app:stops-reading"] {
			v.Label("app:reads-throughout")
		}
		switch n := len(c.Steps); {
		case n < 10:
			v.Label("script-length:5-9")
		case n < 20:
			v.Label("script-length:10-19")
		default:
			v.Label("script-length:20-40")
		}
		switch {
		case s.changes == 0:
			v.Label("genuine-address-changes:0")
		case s.changes < 4:
			v.Label("genuine-address-changes:1-3")
		default:
			v.Label("genuine-address-changes:4+")
		}
		switch {
		case s.advs == 0:
			v.Label("adversarial-datagrams:0")
		case s.advs < 6:
			v.Label("adversarial-datagrams:1-5")
		default:
			v.Label("adversarial-datagrams:6+")
		}
		v.NonTrivial = s.changes >= 1 && s.advs >= 1
	}
}

// ---------------------------------------------------------------------------
// generator

func c15GenStep(t *rapid.T) c15Step {
	kind := rapid.SampledFrom([]int{
		c15Genuine, c15Genuine, c15Genuine, c15Genuine,
		c15Roam, c15Roam, c15Roam, c15Roam,
		c15Move,
		c15Forged, c15Forged, c15Forged,
		c15Flip, c15Flip, c15Flip, c15Flip, c15Flip,
		c15Replay, c15Replay, c15Replay,
		c15Stale,
		c15Trunc, c15Trunc,
		c15Blocked, c15Blocked,
		c15Reflect, c15Reflect, c15Reflect,
	}).Draw(t, "kind")
	st := c15Step{Kind: kind, Seed: rapid.Uint64().Draw(t, "seed")}
	port := func(label string) int {
		if rapid.IntRange(0, 3).Draw(t, label+"-well-known") == 0 {
			return rapid.SampledFrom([]int{1, 53, 666, 7777, 40000, 40001, 65535}).Draw(t, label)
		}
		return rapid.IntRange(1024, 65535).Draw(t, label)
	}
	if kind != c15Move {
		st.Len = rapid.IntRange(1, 120).Draw(t, "len")
		// a message may be empty: its datagram is header, counter and tag only, and is as genuine and fresh as any
		// (flip: the undelivered original that is altered may be an empty message too - its datagram has no body, every
		// flip outside the header lands in the tag)
		if (kind == c15Genuine || kind == c15Roam || kind == c15Blocked || kind == c15Flip) && rapid.IntRange(0, 5).Draw(t, "empty") == 0 {
			st.Len = 0
		}
	}
	// the endpoint's application: mostly no change; stops are drawn more often than resumptions so that stretches
	// without a reader are long enough to fill a short queue
	st.App = rapid.SampledFrom([]int{0, 0, 0, 0, 0, 0, 0, 0, 0, 0, 0, 0, 1, 1, 1, 2, 2}).Draw(t, "app")
	if kind <= c15Move {
		st.Extra = rapid.SampledFrom([]int{0, 0, 0, 0, 0, 0, 1, 1, 2, 3, 6}).Draw(t, "extra")
	}
	switch kind {
	case c15Roam, c15Move, c15Blocked:
		if kind == c15Blocked {
			st.Queued = rapid.SampledFrom([]int{1, 1, 1, 2, 3}).Draw(t, "queued")
		}
		switch rapid.IntRange(0, 2).Draw(t, "how") {
		case 0:
			st.Port = port("port")
		case 1:
			st.IP = 1 + rapid.IntRange(0, len(c15IPs)-1).Draw(t, "ip")
		default:
			st.Port = port("port")
			st.IP = 1 + rapid.IntRange(0, len(c15IPs)-1).Draw(t, "ip")
		}
		return st
	case c15Genuine:
		return st
	}
	st.From = rapid.SampledFrom([]int{0, 0, 0, 1, 1, 1, 2, 2, 3, 4, 4}).Draw(t, "from")
	if kind == c15Reflect && rapid.IntRange(0, 3).Draw(t, "from-peer-address") == 0 {
		st.From = 5
	}
	switch st.From {
	case 2:
		if rapid.Bool().Draw(t, "neighbour-port") {
			st.AdvPort = 0
		} else {
			st.AdvPort = port("aport")
		}
	case 3:
		st.AdvIP = rapid.IntRange(0, len(c15IPs)-1).Draw(t, "aip")
	case 4:
		st.AdvIP = rapid.IntRange(0, len(c15IPs)-1).Draw(t, "aip")
		st.AdvPort = port("aport")
	}
	pick := func() int {
		if rapid.Bool().Draw(t, "recent") {
			return rapid.IntRange(0, 3).Draw(t, "pick")
		}
		return rapid.IntRange(0, 1200).Draw(t, "pick")
	}
	switch kind {
	case c15Forged:
		st.Len = rapid.IntRange(0, 120).Draw(t, "bodylen")
		st.Ctr = rapid.SampledFrom([]int{0, 0, 1, 2, -1, -2, 7, 63, 64, 447, 448, 449, 600, -8, -449, -1000}).Draw(t, "ctr")
		st.Big = rapid.IntRange(0, 7).Draw(t, "big") == 0
		st.Ctl = rapid.IntRange(0, 3).Draw(t, "ctl") == 0
	case c15Flip:
		st.Fresh = rapid.Bool().Draw(t, "fresh")
		st.Pick = pick()
		st.Region = rapid.IntRange(0, len(c15Regions)-1).Draw(t, "region")
		st.Off = rapid.IntRange(0, 127).Draw(t, "off")
		if st.Region == 0 && rapid.Bool().Draw(t, "to-other-valid-type") {
			// the type byte becomes another valid message type: Control, or one of the handshake types
			to := rapid.SampledFrom([]MessageType{MessageTypeControl, MessageTypeControl, MessageTypeControl, MessageTypeClientHello, MessageTypeServerHello,
				MessageTypeClientAck, MessageTypeServerAuth, MessageTypeClientAuth, MessageTypeClientRequestHidden, MessageTypeServerResponseHidden}).Draw(t, "to")
			st.Mask = int(MessageTypeTransport) ^ int(to)
		} else if rapid.Bool().Draw(t, "single-bit") {
			st.Mask = 1 << rapid.IntRange(0, 7).Draw(t, "bit")
		} else {
			st.Mask = rapid.IntRange(1, 255).Draw(t, "mask")
		}
	case c15Replay:
		st.Pick = pick()
	case c15Reflect:
		// most recent datagrams of the endpoint preferred (their counters are the ones most likely to be unseen in
		// its own receive window); the endpoint gets ahead of the peer (Ahead) or the peer ahead of it (Extra)
		st.Pick = rapid.SampledFrom([]int{0, 0, 0, 0, 1, 1, 2, 3, pick()}).Draw(t, "own-pick")
		switch rapid.IntRange(0, 3).Draw(t, "who-is-ahead") {
		case 0, 1:
			st.Ahead = rapid.SampledFrom([]int{1, 2, 3, 6, 12, 30}).Draw(t, "ahead")
		case 2:
			st.Extra = rapid.SampledFrom([]int{1, 2, 3, 6, 12}).Draw(t, "extra-first")
		}
	case c15Stale:
		st.Burst = c15Window + 1 + rapid.SampledFrom([]int{0, 0, 1, 2, 15, 63, 64, 65}).Draw(t, "beyond")
	case c15Trunc:
		st.Fresh = rapid.Bool().Draw(t, "fresh")
		st.Pick = pick()
		switch cls := rapid.SampledFrom([]int{0, 0, 0, 0, 1, 2, 2, 2}).Draw(t, "cutclass"); {
		case cls == 1:
			st.Cut = rapid.IntRange(0, 7).Draw(t, "cut")
		case cls == 2 && c15ShortOK:
			st.Cut = rapid.IntRange(8, 47).Draw(t, "cut")
		default:
			// 48 .. len-1 of the fresh packet; clamped at run time for a picked packet
			st.Cut = 48 + rapid.SampledFrom([]int{0, 0, 1, st.Len - 1, rapid.IntRange(0, st.Len-1).Draw(t, "cutoff")}).Draw(t, "cut")
		}
	}
	return st
}

func c15Gen(t *rapid.T) c15Case {
	c := c15Case{Hidden: rapid.Bool().Draw(t, "hidden"), Side: rapid.IntRange(0, 1).Draw(t, "side")}
	c.Fam = rapid.SampledFrom([]int{0, 0, 1, 2, 2}).Draw(t, "fam")
	c.Queue = rapid.SampledFrom([]int{0, 0, 0, 1, 1, 1, 2, 2, 3, 5}).Draw(t, "queue")
	n := rapid.IntRange(5, 40).Draw(t, "nsteps") // drawn explicitly: SliceOfN alone favours short scripts
	c.Steps = rapid.SliceOfN(rapid.Custom(c15GenStep), n, n).Draw(t, "steps")
	// a stale step costs ~450 packets: at most two per script, later ones become replays
	stale := 0
	for i := range c.Steps {
		if c.Steps[i].Kind == c15Stale {
			if stale++; stale > 2 {
				c.Steps[i].Kind, c.Steps[i].Burst = c15Replay, 0
			}
		}
	}
	return c
}

// ---------------------------------------------------------------------------
// machinery self-tests

// c15Probe learns whether a datagram of 8..47 bytes with a live session id can be presented to the endpoints
// (calls handleSessionMessage on this goroutine so that the panic of the pinned tree can be recovered).
func c15Probe(t *testing.T) {
	ok, setup := true, ""
	vlib.Bubble(t, 60*time.Second, func() {
		w := vGetWorld()
		env := vStartServer(w.ServerConfig(false))
		defer env.Stop()
		cli, _ := env.NewClient(vCliAddr, w.ClientConfig(false, false))
		defer cli.Close()
		if err := cli.Handshake(); err != nil {
			setup = err.Error()
			return
		}
		if _, err := env.Srv.AcceptTimeout(3 * time.Second); err != nil {
			setup = err.Error()
			return
		}
		for _, n := range []int{8, 16, 47} {
			msg := make([]byte, n)
			msg[0] = byte(MessageTypeTransport)
			copy(msg[4:8], cli.ss.sessionID[:])
			for _, f := range []func(){
				func() { env.Srv.handleSessionMessage(vEvilAddr, msg) },
				func() { cli.handleSessionMessage(vEvilAddr, msg) },
			} {
				func() {
					defer func() {
						if recover() != nil {
							ok = false
						}
					}()
					f()
				}()
			}
		}
	})
	if setup != "" {
		t.Fatalf("VERIF-MACHINERY C15 probe: honest handshake does not complete in the harness: %s", setup)
	}
	c15ShortOK = ok
}

// c15Baseline: honest scripts without any address change or adversary must pass, in both modes and on both sides.
func c15Baseline(t *testing.T) {
	run := c15Run(t)
	for _, hidden := range []bool{false, true} {
		for side := 0; side < 2; side++ {
			c := c15Case{Hidden: hidden, Side: side}
			for i := 0; i < 4; i++ {
				c.Steps = append(c.Steps, c15Step{Kind: c15Genuine, Len: 1 + 9*i, Seed: uint64(i)})
			}
			var v vlib.Verdict
			run(c, &v)
			if !v.OK() || v.Inconclusive != "" || v.Discard {
				t.Fatalf("VERIF-MACHINERY C15 baseline (hidden=%v side=%d): honest script without address changes does not pass: %+v %s", hidden, side, v.Violations, v.Inconclusive)
			}
			// the same with a queue of two packets and an application that stops reading, overflows the queue, reads
			// again (twice; the second stretch lasts to the end of the script): checks the harness's model of the queue
			c.Queue = 2
			for i, app := range []int{1, 0, 0, 0, 2, 0, 1, 0} {
				c.Steps = append(c.Steps, c15Step{Kind: c15Genuine, Len: 3 + i, Seed: uint64(100 + i), App: app, Extra: i % 3})
			}
			v = vlib.Verdict{}
			run(c, &v)
			if !v.OK() || v.Inconclusive != "" || v.Discard || !slices.Contains(v.Labels, "genuine-packet-dropped-at-full-queue") {
				t.Fatalf("VERIF-MACHINERY C15 baseline (hidden=%v side=%d): honest script without address changes, slow application and a queue of 2, does not pass or does not overflow the queue: %+v %s", hidden, side, v.Violations, v.Inconclusive)
			}
			// the peer roams while a write of the endpoint is blocked in the socket and others are queued behind it: the
			// harness must get through such a step (a violation is left to the search to report, it is not a machinery fault)
			c = c15Case{Hidden: hidden, Side: side}
			for i, k := range []int{c15Genuine, c15Blocked, c15Genuine, c15Blocked, c15Blocked} {
				c.Steps = append(c.Steps, c15Step{Kind: k, Len: 2 + i, Seed: uint64(200 + i), Queued: 1 + i%3, Port: 41000 + i, IP: i % 3})
			}
			v = vlib.Verdict{}
			run(c, &v)
			// (that the blocked write keeps its old destination is allowed, not required: its absence is not a machinery fault)
			if v.Inconclusive != "" || v.Discard {
				t.Fatalf("VERIF-MACHINERY C15 baseline (hidden=%v side=%d): script with roams while a write is blocked in the socket: %+v %s labels %v", hidden, side, v.Violations, v.Inconclusive, v.Labels)
			}
			// reflection steps: the harness must get through them and must reach histories in which the reflected datagram's
			// counter is ahead of / behind what the endpoint has received (a violation is left to the search to report)
			c = c15Case{Hidden: hidden, Side: side}
			for i, st := range []c15Step{{Kind: c15Reflect}, {Kind: c15Genuine}, {Kind: c15Reflect, Ahead: 3, From: 5}, {Kind: c15Reflect, Extra: 12, Pick: 9, From: 2}, {Kind: c15Genuine}} {
				st.Len, st.Seed = 2+i, uint64(300+i)
				c.Steps = append(c.Steps, st)
			}
			v = vlib.Verdict{}
			run(c, &v)
			if v.Inconclusive != "" || v.Discard || !slices.Contains(v.Labels, "adv:reflection:counter-ahead-of-everything-the-endpoint-received") ||
				(v.OK() && !slices.Contains(v.Labels, "adv:reflection:counter-already-seen-or-stale-at-the-endpoint")) {
				t.Fatalf("VERIF-MACHINERY C15 baseline (hidden=%v side=%d): script with reflection steps: %+v %s labels %v", hidden, side, v.Violations, v.Inconclusive, v.Labels)
			}
		}
	}
}

func TestVerifC15Roaming(t *testing.T) {
	c15Probe(t)
	c15Baseline(t)
	vlib.Drive(t, vlib.Spec[c15Case]{ID: "C15", Quick: 12000, Gen: c15Gen, Run: c15Run(t)})
}
