//go:build go1.25

package transport

// C02 — any in-flight change to a handshake aborts it; success means equal fresh keys.

import (
	"fmt"
	"sync"
	"testing"
	"time"

	"pgregory.net/rapid"
	"verif.local/vlib"
	"verif.local/vlib/simnet"
)

type c02Case struct {
	Hidden bool `json:"hidden"`
	Msg    int  `json:"msg"`  // index of the handshake datagram that is altered (-1: none)
	Kind   int  `json:"kind"` // 0 xor mask at offset, 1 truncate to Len, 2 extend by Len bytes (informational), 3 replace by the same-numbered datagram of another handshake, 4 truncate to Len after the complete datagram was first sent to the same receiver from a third address (primes its read buffer)
	Off    int  `json:"off"`
	Mask   int  `json:"mask"`
	Len    int  `json:"len"`
	Same   bool `json:"sameIdentity"` // kind 3: the other handshake uses the same client identity
}

var c02MsgNames = map[bool][]string{
	false: {"ClientHello", "ServerHello", "ClientAck", "ServerAuth", "ClientAuth"},
	true:  {"ClientRequestHidden", "ServerResponseHidden"},
}

// keys seen in this process: independent sessions must never share keys
var (
	c02KeysMu sync.Mutex
	c02Keys   = map[[KeyLen]byte]string{}
)

func c02NoteKeys(v *vlib.Verdict, tag string, ks ...[KeyLen]byte) {
	c02KeysMu.Lock()
	defer c02KeysMu.Unlock()
	var zero [KeyLen]byte
	for i, k := range ks {
		if k == zero {
			v.Failf("C02:zero-session-key", "%s: directional key %d is all zero", tag, i)
			return
		}
		if prev, ok := c02Keys[k]; ok {
			v.Failf("C02:session-key-reused", "%s: key %d equals a key of %s", tag, i, prev)
			return
		}
		c02Keys[k] = fmt.Sprintf("%s/%d", tag, i)
	}
}

type c02Outcome struct {
	cliErr   error
	cliDone  bool
	accepted *Handle
	lens     []int
	server   *SessionState
	client   *SessionState
}

// c02Handshake runs one client handshake against a fresh server; alter is applied to the Msg-th handshake datagram.
func c02Handshake(c c02Case, v *vlib.Verdict, serial int) (out c02Outcome) {
	w := vGetWorld()
	env := vStartServer(w.ServerConfig(c.Hidden))
	defer env.Stop()
	var captured [][]byte // datagrams of the "other" handshake (kind 3)
	if c.Kind == 3 && c.Msg >= 0 {
		// run another complete handshake first and capture its datagrams
		var mu sync.Mutex
		env.Net.Filter = func(d simnet.Datagram) []simnet.Datagram {
			if vIsHandshake(d.Data) {
				mu.Lock()
				captured = append(captured, d.Data)
				mu.Unlock()
			}
			return []simnet.Datagram{d}
		}
		oc, _ := env.NewClient(vCli2Addr, w.ClientConfig(c.Hidden, !c.Same))
		err := oc.Handshake()
		if err == nil {
			if h, e2 := env.Srv.AcceptTimeout(time.Second); e2 == nil && h != nil {
				c02NoteKeys(v, fmt.Sprintf("case%d-other", serial), oc.ss.clientToServerKey, oc.ss.serverToClientKey)
			}
		}
		defer oc.Close()
	}
	idx := 0
	var mu sync.Mutex
	env.Net.Filter = func(d simnet.Datagram) []simnet.Datagram {
		if !vIsHandshake(d.Data) || !(simnetEq(d.Src, vCliAddr) || simnetEq(d.Dst, vCliAddr)) {
			return []simnet.Datagram{d}
		}
		mu.Lock()
		k := idx
		idx++
		out.lens = append(out.lens, len(d.Data))
		mu.Unlock()
		if k != c.Msg {
			return []simnet.Datagram{d}
		}
		switch c.Kind {
		case 0:
			if c.Off < len(d.Data) {
				d.Data[c.Off] ^= byte(c.Mask)
			}
		case 1:
			if c.Len < len(d.Data) {
				d.Data = d.Data[:c.Len]
			}
		case 4:
			if c.Len < len(d.Data) {
				prime := d
				prime.Data = append([]byte(nil), d.Data...)
				prime.Src = vEvilAddr
				d.Data = d.Data[:c.Len]
				return []simnet.Datagram{prime, d}
			}
		case 2:
			d.Data = append(d.Data, vlib.Fill(uint64(c.Len), c.Len)...)
		case 3:
			if k < len(captured) {
				d.Data = append([]byte(nil), captured[k]...)
			}
		}
		return []simnet.Datagram{d}
	}
	cli, _ := env.NewClient(vCliAddr, w.ClientConfig(c.Hidden, false))
	// virtual watchdog: a client that waits forever for a reply is not C02's subject (see C17); unblock it
	hsDone := make(chan error, 1)
	go func() { hsDone <- cli.Handshake() }()
	select {
	case out.cliErr = <-hsDone:
	case <-time.After(20 * time.Second):
		cli.Close()
		out.cliErr = <-hsDone
		if out.cliErr == nil {
			out.cliErr = fmt.Errorf("handshake did not return within 20 virtual seconds")
		}
		v.Label("client-handshake-needed-close-to-return")
	}
	out.cliDone = out.cliErr == nil
	if out.cliDone {
		out.client = cli.ss
	}
	h, err := env.Srv.AcceptTimeout(3 * time.Second)
	if err == nil {
		out.accepted = h
		out.server = h.ss
	}
	cli.Close()
	return out
}

func simnetEq(a, b interface{ String() string }) bool { return a != nil && b != nil && a.String() == b.String() }

var c02Serial int

func c02Run(t *testing.T) func(c c02Case, v *vlib.Verdict) {
	return func(c c02Case, v *vlib.Verdict) {
		c02Serial++
		serial := c02Serial
		var out c02Outcome
		res := vlib.Bubble(t, 60*time.Second, func() { out = c02Handshake(c, v, serial) })
		if res.Hung {
			v.Inconclusive = "bubble hung in real time (C02)"
			return
		}
		if res.Panic != "" {
			if res.Leak() || res.Deadlock() {
				v.Failf("C02:goroutines-left:"+fmt.Sprint(vlib.BlockedHopFrames(res.Stacks)), "after closing client and server goroutines remain: %v", vlib.BlockedHopFrames(res.Stacks))
			} else {
				v.Failf(vlib.PanicSig(res.Panic, res.Stacks), "panic: %s", res.Panic)
			}
			return
		}
		if !v.OK() {
			return
		}
		names := c02MsgNames[c.Hidden]
		if c.Msg < 0 {
			// honest run: must complete, with equal fresh keys
			v.Label("honest")
			if !out.cliDone || out.accepted == nil {
				v.Failf("C02:honest-handshake-fails", "unaltered %v handshake did not complete: client err %v, accepted %v", c.Hidden, out.cliErr, out.accepted != nil)
				return
			}
		}
		if out.cliDone && out.accepted != nil && out.client != nil && out.server != nil {
			cs, ss := out.client, out.server
			switch {
			case cs.sessionID != ss.sessionID:
				v.Failf("C02:session-id-differs", "both sides completed with different session ids %x / %x", cs.sessionID, ss.sessionID)
			case cs.clientToServerKey != ss.clientToServerKey || cs.serverToClientKey != ss.serverToClientKey:
				v.Failf("C02:keys-differ", "both sides completed but hold different directional keys")
			case cs.clientToServerKey == cs.serverToClientKey:
				v.Failf("C02:directions-share-key", "client-to-server and server-to-client keys are equal")
			default:
				c02NoteKeys(v, fmt.Sprintf("case%d", serial), cs.clientToServerKey, cs.serverToClientKey)
			}
			if !v.OK() {
				return
			}
		}
		if c.Msg < 0 {
			return
		}
		if c.Msg >= len(names) {
			v.Discard = true
			return
		}
		name := names[c.Msg]
		toClient := c.Msg%2 == 1
		altered := true
		switch c.Kind {
		case 0:
			altered = c.Mask&0xff != 0 && c.Msg < len(out.lens) && c.Off < out.lens[c.Msg]
		case 1, 4:
			altered = c.Msg < len(out.lens) && c.Len < out.lens[c.Msg]
		case 3:
			altered = true
		}
		if !altered {
			v.Discard = true
			return
		}
		kind := []string{"xor", "truncate", "extend", "transplant", "truncate-after-priming"}[c.Kind]
		v.NonTrivial = true
		v.Key = fmt.Sprintf("%v/%s/%s/%d/%d/%d/%v", c.Hidden, name, kind, c.Off, c.Mask, c.Len, c.Same)
		v.Label(map[bool]string{false: "discoverable", true: "hidden"}[c.Hidden] + ":" + name + ":" + kind)
		receiverCompleted := false
		if toClient {
			receiverCompleted = out.cliDone
		} else {
			receiverCompleted = out.accepted != nil
		}
		if c.Kind == 2 {
			// trailing additions are not covered by the statement: informational only
			if receiverCompleted {
				v.Label("extension-accepted:" + name)
			} else {
				v.Label("extension-rejected:" + name)
			}
			return
		}
		if c.Hidden && c.Msg == 0 && c.Kind == 3 {
			// A complete, unaltered hidden request of ANOTHER handshake is, within the timestamp window, a fresh valid
			// request in its own right: the server legitimately answers it (replay protection of hidden requests is
			// the timestamp window, C19). What C02 demands is that it cannot complete THIS client's handshake.
			if out.accepted != nil {
				v.Label("hidden-request-of-other-handshake-answered(fresh-valid-request)")
			}
			if out.cliDone {
				v.Failf("C02:altered-handshake-completes:ClientRequestHidden:transplant", "the client completed although its request was replaced by another handshake's request")
			}
			return
		}
		if receiverCompleted {
			who := "server"
			if toClient {
				who = "client"
			}
			v.Failf(fmt.Sprintf("C02:altered-handshake-completes:%s:%s", name, kind), "%s completed the handshake although %s was altered (%s off=%d mask=%#x len=%d of %d bytes)", who, name, kind, c.Off, c.Mask, c.Len, out.lens[c.Msg])
		}
	}
}

// c02Baseline learns the datagram lengths of an honest handshake.
func c02Baseline(t *testing.T, hidden bool) []int {
	var v vlib.Verdict
	var out c02Outcome
	vlib.Bubble(t, 60*time.Second, func() { out = c02Handshake(c02Case{Hidden: hidden, Msg: -1}, &v, 0) })
	if !out.cliDone || out.accepted == nil {
		t.Fatalf("VERIF-MACHINERY honest %v handshake does not complete in the harness: %v", hidden, out.cliErr)
	}
	return out.lens
}

// TestVerifC02Sweep enumerates alterations: every field boundary and (thorough: every) byte offset of every
// handshake message with masks {0x01,0x80,0xff}, truncations, extensions and transplants.
func TestVerifC02Sweep(t *testing.T) {
	run := c02Run(t)
	if vlib.ReplayEnumerated(t, "C02", run) {
		return
	}
	rec := vlib.Open(t, "C02")
	idx := 0
	emit := func(c c02Case) bool {
		idx++
		if !rec.Mine(idx) {
			return true
		}
		return vlib.Each(t, rec, c, run)
	}
	complete := true
	for _, hidden := range []bool{false, true} {
		lens := c02Baseline(t, hidden)
		if !emit(c02Case{Hidden: hidden, Msg: -1}) {
			return
		}
		for m, L := range lens {
			// every byte offset of every message: quick with masks {0x01, 0x80} (+0xff near the edges),
			// thorough with every single-bit mask and 0xff
			for o := 0; o < L; o++ {
				masks := []int{0x01, 0x80}
				if vlib.Thorough() {
					masks = []int{0x01, 0x02, 0x04, 0x08, 0x10, 0x20, 0x40, 0x80, 0xff}
				} else if o < 8 || o >= L-33 {
					masks = append(masks, 0xff)
				}
				for _, mk := range masks {
					if !emit(c02Case{Hidden: hidden, Msg: m, Kind: 0, Off: o, Mask: mk}) {
						return
					}
				}
			}
			tstep := 1
			if !vlib.Thorough() {
				tstep = 5
				complete = false
			}
			for l := 0; l < L; l += tstep {
				if !emit(c02Case{Hidden: hidden, Msg: m, Kind: 1, Len: l}) {
					return
				}
			}
			for _, l := range []int{L - 1, L - 2, L - 16, L - 17, L - 32} {
				if l >= 0 && !emit(c02Case{Hidden: hidden, Msg: m, Kind: 1, Len: l}) {
					return
				}
			}
			if m%2 == 0 && !hidden { // datagrams received by the server, whose read buffer is shared by all peers (in hidden mode the priming copy would itself be a fresh valid request)
				for _, cut := range []int{1, 2, 8, 15, 16, 17, 31, 32, 33, 48} {
					if l := L - cut; l >= 0 && !emit(c02Case{Hidden: hidden, Msg: m, Kind: 4, Len: l}) {
						return
					}
				}
			}
			for _, k := range []int{1, 16} {
				if !emit(c02Case{Hidden: hidden, Msg: m, Kind: 2, Len: k}) {
					return
				}
			}
			for _, same := range []bool{false, true} {
				if !emit(c02Case{Hidden: hidden, Msg: m, Kind: 3, Same: same}) {
					return
				}
			}
		}
	}
	rec.SetExhaustive(complete)
	rec.Extra("enumerated", "every handshake message of both modes: xor masks at byte offsets (thorough: every offset x {0x01,0x80,0xff}), truncation lengths, extensions, transplants from a concurrent handshake")
}

func TestVerifC02Random(t *testing.T) {
	lens := map[bool][]int{false: c02Baseline(t, false), true: c02Baseline(t, true)}
	vlib.Drive(t, vlib.Spec[c02Case]{ID: "C02", Quick: 600, Run: c02Run(t), Gen: func(t *rapid.T) c02Case {
		c := c02Case{Hidden: rapid.Bool().Draw(t, "hidden")}
		L := lens[c.Hidden]
		c.Msg = rapid.IntRange(0, len(L)-1).Draw(t, "msg")
		c.Kind = rapid.SampledFrom([]int{0, 0, 0, 0, 1, 3}).Draw(t, "kind")
		c.Off = rapid.IntRange(0, L[c.Msg]-1).Draw(t, "off")
		c.Mask = rapid.IntRange(1, 255).Draw(t, "mask")
		c.Len = rapid.IntRange(0, L[c.Msg]-1).Draw(t, "len")
		c.Same = rapid.Bool().Draw(t, "same")
		return c
	}})
}
