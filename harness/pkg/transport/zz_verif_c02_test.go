//go:build go1.25

package transport

// C02 — any in-flight change to a handshake aborts it; success means equal fresh keys.

import (
	"bytes"
	"fmt"
	"net"
	"sync"
	"syscall"
	"testing"
	"time"

	"hop.computer/hop/authkeys"
	"hop.computer/hop/certs"
	"hop.computer/hop/keys"
	"pgregory.net/rapid"
	"verif.local/vlib"
	"verif.local/vlib/simnet"
)

type c02Case struct {
	Hidden bool `json:"hidden"`
	Msg    int  `json:"msg"`  // index of the handshake datagram that is altered (-1: none)
	Kind   int  `json:"kind"` // 0 xor mask at offset, 1 truncate to Len, 2 extend by Len bytes (informational), 3 replace by the same-numbered datagram of another handshake, 4 truncate to Len after the complete datagram was first sent to the same receiver from a third address (primes its read buffer), 5 session id overwritten (below), 6 the last Cut bytes removed from a datagram whose removed bytes EQUAL what the receiver's buffer already holds at those offsets (below)
	Off    int  `json:"off"`
	Mask   int  `json:"mask"`
	Len    int  `json:"len"`
	Same   bool `json:"sameIdentity"` // kind 3, 5: the other handshake uses the same client identity
	// kind 5: the four session-id bytes (offsets 4..7) of a datagram that carries a session id are overwritten with the id
	// of ANOTHER session of the same server: an established one, or (Pending) a half-open handshake whose ClientAuth never arrived
	Pending bool `json:"pending,omitempty"`
	// certificate policies of the two parties (indices into c02CliPolicies / c02SrvPolicies; 0 = CA store, the default)
	CliPol int `json:"cliPolicy,omitempty"`
	SrvPol int `json:"srvPolicy,omitempty"`
	// kind 6: a receiver that parses beyond the bytes it received sees whatever its buffer held before - the tail of an
	// earlier datagram, of a message it wrote itself, or the zeros of a fresh buffer - so a truncation is masked exactly
	// when the removed bytes equal that residue. The harness cannot choose the bytes of a handshake message (they are MACs
	// and ciphertext), but it chooses WHICH handshake it truncates: up to Attempts successive handshakes of fresh clients run
	// against one server; the harness keeps an image of the receiver's buffer (client: one buffer per handshake through
	// which every datagram it sends and receives passes from offset 0; server: one read buffer for all peers), lets every
	// handshake pass unaltered whose Msg-th datagram does not end in the residue, and removes the last Cut bytes of the
	// first one that does. That handshake is the case; the oracle is the same as for every truncation.
	Cut      int `json:"cut,omitempty"`
	Attempts int `json:"attempts,omitempty"`
}

// Certificate policies under which an honest handshake of the fixture identities completes. The statement quantifies over
// every handshake, whatever the certificate policy of the party that receives the altered datagram.
var (
	c02CliPolicies = []string{"ca-store", "skip-verify", "authorized-keys", "authorized-keys-else-ca-store", "ca-store+callback"}
	c02SrvPolicies = []string{"ca-store", "skip-verify", "authorized-keys", "no-client-verification", "authorized-keys-else-ca-store", "ca-store+callback"}
)

func c02Policy(pol string, name certs.Name, trusted ...keys.DHPublicKey) *VerifyConfig {
	w := vGetWorld()
	vc := &VerifyConfig{Store: w.store(), CurrentTime: w.Now, Name: name}
	switch pol {
	case "no-client-verification":
		return nil
	case "skip-verify":
		vc.Store = certs.Store{}
		vc.InsecureSkipVerify = true
	case "authorized-keys": // the peer's static key is an authorized key, nothing else is trusted
		vc.Store = certs.Store{}
		vc.AuthKeysAllowed = true
		vc.AuthKeys = authkeys.NewSyncAuthKeySet()
		for _, k := range trusted {
			vc.AuthKeys.AddKey(k)
		}
	case "authorized-keys-else-ca-store": // authorized keys are tried first (the peer's key is not among them), then the CA store
		vc.AuthKeysAllowed = true
		vc.AuthKeys = authkeys.NewSyncAuthKeySet()
		vc.AuthKeys.AddKey(keys.GenerateNewX25519KeyPair().Public)
	case "ca-store+callback":
		vc.AddVerifyCallback = func(*certs.Certificate) error { return nil }
	}
	return vc
}

func c02PolName(list []string, i int) string {
	if i < 0 {
		i = 0
	}
	return list[i%len(list)]
}

// c02Configs builds the configurations of the case: same identities as the common fixture, certificate policy as drawn.
func c02Configs(c c02Case) (ServerConfig, func(second bool) ClientConfig) {
	w := vGetWorld()
	scfg := w.ServerConfig(c.Hidden)
	if c.SrvPol != 0 {
		scfg.ClientVerify = c02Policy(c02PolName(c02SrvPolicies, c.SrvPol), certs.Name{}, w.CliKey.Public, w.Cli2Key.Public)
	}
	return scfg, func(second bool) ClientConfig {
		cc := w.ClientConfig(c.Hidden, second)
		if c.CliPol != 0 {
			cc.Verify = *c02Policy(c02PolName(c02CliPolicies, c.CliPol), w.ServerName, w.SrvKey.Public)
		}
		return cc
	}
}

// c02HasSessionID: the handshake datagrams that carry a session id (at offsets 4..7).
func c02HasSessionID(hidden bool, msg int) bool {
	if hidden {
		return msg == 1 // ServerResponseHidden
	}
	return msg == 3 || msg == 4 // ServerAuth, ClientAuth
}

var c02MsgNames = map[bool][]string{
	false: {"ClientHello", "ServerHello", "ClientAck", "ServerAuth", "ClientAuth"},
	true:  {"ClientRequestHidden", "ServerResponseHidden"},
}

// keys seen in this process: independent sessions must never share keys
var (
	c02KeysMu sync.Mutex
	c02Keys   = map[[KeyLen]byte]string{}
)

func c02NoteKeys(v *vlib.Verdict, tag string, ks ...[KeyLen]byte) {
	c02KeysMu.Lock()
	defer c02KeysMu.Unlock()
	var zero [KeyLen]byte
	for i, k := range ks {
		if k == zero {
			v.Failf("C02:zero-session-key", "%s: directional key %d is all zero", tag, i)
			return
		}
		if prev, ok := c02Keys[k]; ok {
			v.Failf("C02:session-key-reused", "%s: key %d equals a key of %s", tag, i, prev)
			return
		}
		c02Keys[k] = fmt.Sprintf("%s/%d", tag, i)
	}
}

type c02Outcome struct {
	cliErr   error
	cliDone  bool
	accepted *Handle
	lens     []int
	server   *SessionState
	client   *SessionState
	setupFailed    bool // the other handshake of the scenario did not get to the state the case asks for
	sidOverwritten bool // kind 5: the session-id field was replaced by a different id
	// kind 6
	noQualifying bool   // no handshake of this batch had a Msg-th datagram ending in the receiver's residue
	attempt      int    // which handshake was truncated
	residue      []byte // the bytes that were removed (= what the receiver's buffer held there)
	unaltered    string // an UNALTERED handshake of the batch failed: its description
}

// c02Grind runs handshakes first..first+n-1 of a kind-6 case against one fresh server (see c02Case.Cut).
func c02Grind(c c02Case, v *vlib.Verdict, serial, first, n int) (out c02Outcome) {
	scfg, ccfg := c02Configs(c)
	env := vStartServer(scfg)
	defer env.Stop()
	if c.Msg < 0 || c.Msg >= len(c02MsgNames[c.Hidden]) || c.Cut <= 0 {
		out.setupFailed = true
		return out
	}
	toClient := c.Msg%2 == 1
	var mu sync.Mutex
	srvImg := make([]byte, 65535) // the server's read buffer, shared by all peers
	var cliImg []byte             // the current client's handshake buffer
	var cur *net.UDPAddr
	idx, truncated := 0, false
	env.Net.Filter = func(d simnet.Datagram) []simnet.Datagram {
		mu.Lock()
		defer mu.Unlock()
		if cur != nil && vIsHandshake(d.Data) && (simnetEq(d.Src, cur) || simnetEq(d.Dst, cur)) {
			k := idx
			idx++
			out.lens = append(out.lens, len(d.Data))
			if simnetEq(d.Src, cur) {
				copy(cliImg, d.Data) // the client wrote it into its handshake buffer
			}
			if k == c.Msg && !truncated && c.Cut < len(d.Data) {
				img := srvImg
				if toClient {
					img = cliImg
				}
				if l := len(d.Data) - c.Cut; bytes.Equal(d.Data[l:], img[l:len(d.Data)]) {
					out.residue = append([]byte(nil), d.Data[l:]...)
					d.Data = d.Data[:l]
					truncated = true
				}
			}
			if simnetEq(d.Dst, cur) {
				copy(cliImg, d.Data)
			}
		}
		if simnetEq(d.Dst, vSrvAddr) {
			copy(srvImg, d.Data)
		}
		return []simnet.Datagram{d}
	}
	for a := first; a < first+n; a++ {
		mu.Lock()
		cur = simnet.Addr("10.0.0.2", 42000+a%20000)
		cliImg = make([]byte, 65535)
		idx, out.lens = 0, nil
		mu.Unlock()
		cli, _ := env.NewClient(cur, ccfg(false))
		hsDone := make(chan error, 1)
		go func() { hsDone <- cli.Handshake() }()
		var cliErr error
		select {
		case cliErr = <-hsDone:
		case <-time.After(20 * time.Second):
			cli.Close()
			if cliErr = <-hsDone; cliErr == nil {
				cliErr = fmt.Errorf("handshake did not return within 20 virtual seconds")
			}
		}
		mu.Lock()
		tr := truncated
		mu.Unlock()
		h, err := env.Srv.AcceptTimeout(3 * time.Second)
		if tr {
			out.attempt, out.cliErr, out.cliDone = a, cliErr, cliErr == nil
			if out.cliDone {
				out.client = cli.ss
			}
			if err == nil && h != nil {
				out.accepted, out.server = h, h.ss
			}
			cli.Close()
			return out
		}
		// an unaltered handshake: it completes, and it is an independent session like any other
		if cliErr != nil || err != nil || h == nil {
			out.unaltered = fmt.Sprintf("handshake #%d of the batch (unaltered): client err %v, accepted %v", a, cliErr, err == nil && h != nil)
			cli.Close()
			return out
		}
		c02NoteKeys(v, fmt.Sprintf("case%d-attempt%d", serial, a), cli.ss.clientToServerKey, cli.ss.serverToClientKey)
		h.Close()
		cli.Close()
		if !v.OK() {
			return out
		}
	}
	out.noQualifying = true
	return out
}

// c02GrindBatch: handshakes per bubble of a kind-6 case (one server each; bounds the real time of one bubble).
const c02GrindBatch = 200

// c02Handshake runs one client handshake against a fresh server; alter is applied to the Msg-th handshake datagram.
func c02Handshake(c c02Case, v *vlib.Verdict, serial int) (out c02Outcome) {
	scfg, ccfg := c02Configs(c)
	env := vStartServer(scfg)
	defer env.Stop()
	var captured [][]byte // datagrams of the "other" handshake (kind 3, 5)
	var other *Client
	var otherID []byte // kind 5: session id of the other session, as seen on the wire
	if (c.Kind == 3 || c.Kind == 5) && c.Msg >= 0 {
		// run another handshake first and capture its datagrams. Kind 5 with Pending: its ClientAuth is lost, so it
		// stays half-open on the server (pending handshake state + allocated session id) for the handshake timeout
		halfOpen := c.Kind == 5 && c.Pending && !c.Hidden
		var mu sync.Mutex
		env.Net.Filter = func(d simnet.Datagram) []simnet.Datagram {
			if vIsHandshake(d.Data) {
				mu.Lock()
				captured = append(captured, append([]byte(nil), d.Data...))
				mu.Unlock()
				if halfOpen && MessageType(d.Data[0]) == MessageTypeClientAuth {
					return nil
				}
			}
			return []simnet.Datagram{d}
		}
		oc, _ := env.NewClient(vCli2Addr, ccfg(!c.Same))
		err := oc.Handshake()
		if err == nil && !halfOpen {
			if h, e2 := env.Srv.AcceptTimeout(time.Second); e2 == nil && h != nil {
				c02NoteKeys(v, fmt.Sprintf("case%d-other", serial), oc.ss.clientToServerKey, oc.ss.serverToClientKey)
				other = oc
			}
		}
		defer oc.Close()
		if c.Kind == 5 {
			for _, m := range captured {
				if t := MessageType(m[0]); (t == MessageTypeServerAuth || t == MessageTypeServerResponseHidden) && len(m) >= 8 {
					otherID = m[4:8]
				}
			}
			if otherID == nil || (!halfOpen && other == nil) {
				out.setupFailed = true
				return out
			}
		}
	}
	idx := 0
	var mu sync.Mutex
	env.Net.Filter = func(d simnet.Datagram) []simnet.Datagram {
		if !vIsHandshake(d.Data) || !(simnetEq(d.Src, vCliAddr) || simnetEq(d.Dst, vCliAddr)) {
			return []simnet.Datagram{d}
		}
		mu.Lock()
		k := idx
		idx++
		out.lens = append(out.lens, len(d.Data))
		mu.Unlock()
		if k != c.Msg {
			return []simnet.Datagram{d}
		}
		switch c.Kind {
		case 0:
			if c.Off < len(d.Data) {
				d.Data[c.Off] ^= byte(c.Mask)
			}
		case 1:
			if c.Len < len(d.Data) {
				d.Data = d.Data[:c.Len]
			}
		case 4:
			if c.Len < len(d.Data) {
				prime := d
				prime.Data = append([]byte(nil), d.Data...)
				prime.Src = vEvilAddr
				d.Data = d.Data[:c.Len]
				return []simnet.Datagram{prime, d}
			}
		case 2:
			d.Data = append(d.Data, vlib.Fill(uint64(c.Len), c.Len)...)
		case 3:
			if k < len(captured) {
				d.Data = append([]byte(nil), captured[k]...)
			}
		case 5:
			if len(d.Data) >= 8 && otherID != nil && !bytes.Equal(d.Data[4:8], otherID) {
				copy(d.Data[4:8], otherID)
				mu.Lock()
				out.sidOverwritten = true
				mu.Unlock()
			}
		}
		return []simnet.Datagram{d}
	}
	cli, _ := env.NewClient(vCliAddr, ccfg(false))
	// virtual watchdog: a client that waits forever for a reply is not C02's subject (see C17); unblock it
	hsDone := make(chan error, 1)
	go func() { hsDone <- cli.Handshake() }()
	select {
	case out.cliErr = <-hsDone:
	case <-time.After(20 * time.Second):
		cli.Close()
		out.cliErr = <-hsDone
		if out.cliErr == nil {
			out.cliErr = fmt.Errorf("handshake did not return within 20 virtual seconds")
		}
		v.Label("client-handshake-needed-close-to-return")
	}
	out.cliDone = out.cliErr == nil
	if out.cliDone {
		out.client = cli.ss
	}
	h, err := env.Srv.AcceptTimeout(3 * time.Second)
	if err == nil {
		out.accepted = h
		out.server = h.ss
	}
	if other != nil && v.OK() {
		// the other, completed session is an independent session: whatever happened to this handshake, both of its
		// parties still hold the same identifier and keys
		os := other.ss
		if ss := env.vEstablished(os.sessionID); ss != nil {
			ss.m.Lock()
			same := ss.clientToServerKey == os.clientToServerKey && ss.serverToClientKey == os.serverToClientKey
			ss.m.Unlock()
			if !same {
				v.Failf("C02:keys-differ:other-session-after-altered-handshake", "the keys the server holds for the other, already completed session %x changed while an altered handshake of another client was processed", os.sessionID)
			}
		}
	}
	cli.Close()
	return out
}

func simnetEq(a, b interface{ String() string }) bool { return a != nil && b != nil && a.String() == b.String() }

var c02Serial int

func c02Run(t *testing.T) func(c c02Case, v *vlib.Verdict) {
	return func(c c02Case, v *vlib.Verdict) {
		c02Serial++
		serial := c02Serial
		var out c02Outcome
		var res vlib.BubbleResult
		if c.Kind == 6 {
			for first := 0; first == 0 || first < c.Attempts; first += c02GrindBatch {
				n := min(c02GrindBatch, max(c.Attempts-first, 1))
				res = vlib.Bubble(t, 240*time.Second, func() { out = c02Grind(c, v, serial, first, n) })
				if res.Hung || res.Panic != "" || !out.noQualifying || !v.OK() {
					break
				}
			}
		} else {
			res = vlib.Bubble(t, 60*time.Second, func() { out = c02Handshake(c, v, serial) })
		}
		if res.Hung {
			v.Inconclusive = "bubble hung in real time (C02)"
			return
		}
		if res.Panic != "" {
			if res.Leak() || res.Deadlock() {
				v.Failf("C02:goroutines-left:"+fmt.Sprint(vlib.BlockedHopFrames(res.Stacks)), "after closing client and server goroutines remain: %v", vlib.BlockedHopFrames(res.Stacks))
			} else {
				v.Failf(vlib.PanicSig(res.Panic, res.Stacks), "panic: %s", res.Panic)
			}
			return
		}
		if !v.OK() {
			return
		}
		names := c02MsgNames[c.Hidden]
		cliPol, srvPol := c02PolName(c02CliPolicies, c.CliPol), c02PolName(c02SrvPolicies, c.SrvPol)
		v.Label("client-policy:" + cliPol)
		v.Label("server-policy:" + srvPol)
		if out.setupFailed {
			v.Label("other-handshake-of-the-scenario-failed")
			v.Discard = true
			return
		}
		if c.Msg < 0 {
			// honest run: must complete, with equal fresh keys
			v.Label("honest")
			if !out.cliDone || out.accepted == nil {
				v.Failf("C02:honest-handshake-fails", "unaltered %v handshake did not complete: client err %v, accepted %v", c.Hidden, out.cliErr, out.accepted != nil)
				return
			}
		}
		if out.cliDone && out.accepted != nil && out.client != nil && out.server != nil {
			cs, ss := out.client, out.server
			switch {
			case cs.sessionID != ss.sessionID:
				v.Failf("C02:session-id-differs", "both sides completed with different session ids %x / %x", cs.sessionID, ss.sessionID)
			case cs.clientToServerKey != ss.clientToServerKey || cs.serverToClientKey != ss.serverToClientKey:
				v.Failf("C02:keys-differ", "both sides completed but hold different directional keys")
			case cs.clientToServerKey == cs.serverToClientKey:
				v.Failf("C02:directions-share-key", "client-to-server and server-to-client keys are equal")
			default:
				c02NoteKeys(v, fmt.Sprintf("case%d", serial), cs.clientToServerKey, cs.serverToClientKey)
			}
			if !v.OK() {
				return
			}
		}
		if c.Msg < 0 {
			return
		}
		if c.Msg >= len(names) {
			v.Discard = true
			return
		}
		if c.Kind == 6 {
			v.Label(fmt.Sprintf("truncate-tail-equal-to-receiver-buffer:%s:cut=%d", names[c.Msg], c.Cut))
			if out.unaltered != "" {
				v.Failf("C02:honest-handshake-fails:in-a-sequence-on-one-server", "an unaltered %s handshake did not complete: %s", map[bool]string{false: "discoverable", true: "hidden"}[c.Hidden], out.unaltered)
				return
			}
			if out.noQualifying {
				// chance decides (1 in 256^Cut per handshake): nothing was altered, nothing to judge
				v.Label(fmt.Sprintf("truncate-tail-equal-to-receiver-buffer:no-qualifying-handshake-in-%d", c.Attempts))
				return
			}
			v.Label("truncate-tail-equal-to-receiver-buffer:qualifying-handshake-found")
		}
		name := names[c.Msg]
		toClient := c.Msg%2 == 1
		altered := true
		switch c.Kind {
		case 0:
			altered = c.Mask&0xff != 0 && c.Msg < len(out.lens) && c.Off < out.lens[c.Msg]
		case 1, 4:
			altered = c.Msg < len(out.lens) && c.Len < out.lens[c.Msg]
		case 3:
			altered = true
		case 5:
			altered = c02HasSessionID(c.Hidden, c.Msg) && out.sidOverwritten
		case 6:
			altered = out.residue != nil
		}
		if !altered {
			v.Discard = true
			return
		}
		kind := []string{"xor", "truncate", "extend", "transplant", "truncate-after-priming", "session-id-of-other-session", "truncate-tail-equal-to-receiver-buffer"}[c.Kind]
		if c.Kind == 5 && c.Pending && !c.Hidden {
			kind = "session-id-of-pending-handshake"
		}
		v.NonTrivial = true
		v.Key = fmt.Sprintf("%v/%s/%s/%d/%d/%d/%v/%s/%s", c.Hidden, name, kind, c.Off, c.Mask, c.Len+c.Cut, c.Same, cliPol, srvPol)
		v.Label(map[bool]string{false: "discoverable", true: "hidden"}[c.Hidden] + ":" + name + ":" + kind)
		// The certificate policy of the party that wrongly completed goes into the signature only when it matters: the
		// same alteration is run again under the default policies, and the suffix is dropped if it is accepted there too.
		polSig := func(judgeClient bool) string {
			ps := ""
			if judgeClient && c.CliPol != 0 {
				ps = ":client-policy=" + cliPol
			} else if !judgeClient && c.SrvPol != 0 {
				ps = ":server-policy=" + srvPol
			}
			if ps == "" {
				return ""
			}
			c0 := c
			c0.CliPol, c0.SrvPol = 0, 0
			var v0 vlib.Verdict
			var out0 c02Outcome
			r0 := vlib.Bubble(t, 60*time.Second, func() { out0 = c02Handshake(c0, &v0, serial) })
			if !r0.Hung && r0.Panic == "" && ((judgeClient && out0.cliDone) || (!judgeClient && out0.accepted != nil)) {
				return ""
			}
			return ps
		}
		receiverCompleted := false
		if toClient {
			receiverCompleted = out.cliDone
		} else {
			receiverCompleted = out.accepted != nil
		}
		if c.Kind == 2 {
			// trailing additions are not covered by the statement: informational only
			if receiverCompleted {
				v.Label("extension-accepted:" + name)
			} else {
				v.Label("extension-rejected:" + name)
			}
			return
		}
		if c.Hidden && c.Msg == 0 && c.Kind == 3 {
			// A complete, unaltered hidden request of ANOTHER handshake is, within the timestamp window, a fresh valid
			// request in its own right: the server legitimately answers it (replay protection of hidden requests is
			// the timestamp window, C19). What C02 demands is that it cannot complete THIS client's handshake.
			if out.accepted != nil {
				v.Label("hidden-request-of-other-handshake-answered(fresh-valid-request)")
			}
			if out.cliDone {
				v.Failf("C02:altered-handshake-completes:ClientRequestHidden:transplant"+polSig(true), "the client completed although its request was replaced by another handshake's request")
			}
			return
		}
		if receiverCompleted {
			who := "server"
			if toClient {
				who = "client"
			}
			extra := ""
			if c.Kind == 6 {
				extra = fmt.Sprintf("; handshake #%d on this server, the last %d byte(s) %x were removed - equal to what the receiver's buffer held at those offsets", out.attempt, c.Cut, out.residue)
			}
			v.Failf(fmt.Sprintf("C02:altered-handshake-completes:%s:%s%s", name, kind, polSig(toClient)), "%s completed the handshake although %s was altered (%s off=%d mask=%#x len=%d of %d bytes; client policy %s, server policy %s%s)", who, name, kind, c.Off, c.Mask, c.Len, out.lens[c.Msg], cliPol, srvPol, extra)
		}
	}
}

// c02Baseline learns the datagram lengths of an honest handshake.
func c02Baseline(t *testing.T, hidden bool) []int {
	var v vlib.Verdict
	var out c02Outcome
	vlib.Bubble(t, 60*time.Second, func() { out = c02Handshake(c02Case{Hidden: hidden, Msg: -1}, &v, 0) })
	if !out.cliDone || out.accepted == nil {
		t.Fatalf("VERIF-MACHINERY honest %v handshake does not complete in the harness: %v", hidden, out.cliErr)
	}
	return out.lens
}

// TestVerifC02Sweep enumerates alterations: every field boundary and (thorough: every) byte offset of every
// handshake message with masks {0x01,0x80,0xff}, truncations, extensions and transplants.
func TestVerifC02Sweep(t *testing.T) {
	run := c02Run(t)
	if vlib.ReplayEnumerated(t, "C02", run) {
		return
	}
	rec := vlib.Open(t, "C02")
	idx := 0
	emit := func(c c02Case) bool {
		idx++
		if !rec.Mine(idx) {
			return true
		}
		return vlib.Each(t, rec, c, run)
	}
	complete := true
	for _, hidden := range []bool{false, true} {
		lens := c02Baseline(t, hidden)
		if !emit(c02Case{Hidden: hidden, Msg: -1}) {
			return
		}
		for m, L := range lens {
			// every byte offset of every message: quick with masks {0x01, 0x80} (+0xff near the edges),
			// thorough with every single-bit mask and 0xff
			for o := 0; o < L; o++ {
				masks := []int{0x01, 0x80}
				if vlib.Thorough() {
					masks = []int{0x01, 0x02, 0x04, 0x08, 0x10, 0x20, 0x40, 0x80, 0xff}
				} else if o < 8 || o >= L-33 {
					masks = append(masks, 0xff)
				}
				for _, mk := range masks {
					if !emit(c02Case{Hidden: hidden, Msg: m, Kind: 0, Off: o, Mask: mk}) {
						return
					}
				}
			}
			tstep := 1
			if !vlib.Thorough() {
				tstep = 5
				complete = false
			}
			for l := 0; l < L; l += tstep {
				if !emit(c02Case{Hidden: hidden, Msg: m, Kind: 1, Len: l}) {
					return
				}
			}
			for _, l := range []int{L - 1, L - 2, L - 16, L - 17, L - 32} {
				if l >= 0 && !emit(c02Case{Hidden: hidden, Msg: m, Kind: 1, Len: l}) {
					return
				}
			}
			if m%2 == 0 && !hidden { // datagrams received by the server, whose read buffer is shared by all peers (in hidden mode the priming copy would itself be a fresh valid request)
				for _, cut := range []int{1, 2, 8, 15, 16, 17, 31, 32, 33, 48} {
					if l := L - cut; l >= 0 && !emit(c02Case{Hidden: hidden, Msg: m, Kind: 4, Len: l}) {
						return
					}
				}
			}
			for _, k := range []int{1, 16} {
				if !emit(c02Case{Hidden: hidden, Msg: m, Kind: 2, Len: k}) {
					return
				}
			}
			// the last byte removed from a handshake whose last byte equals what the receiver's buffer already holds
			// there (1 handshake in 256: up to 2400 handshakes are tried, a miss has probability 0.01 %; two bytes
			// would need ~65000 handshakes)
			if !emit(c02Case{Hidden: hidden, Msg: m, Kind: 6, Cut: 1, Attempts: 2400}) {
				return
			}
			for _, same := range []bool{false, true} {
				if !emit(c02Case{Hidden: hidden, Msg: m, Kind: 3, Same: same}) {
					return
				}
				// the session-id field replaced by the id of another live session of the same server
				if c02HasSessionID(hidden, m) {
					for _, pending := range []bool{false, true} {
						if pending && hidden { // a hidden handshake is never half-open on the server
							continue
						}
						if !emit(c02Case{Hidden: hidden, Msg: m, Kind: 5, Same: same, Pending: pending}) {
							return
						}
					}
				}
			}
		}
		// certificate policies other than the CA store: the messages whose processing depends on the policy of the
		// party that receives them (the ones carrying the peer's certificates) are swept again under each policy
		type polCase struct {
			cp, sp, msg int
		}
		var pols []polCase
		ncp, nsp := 3, 4 // quick: skip-verify, authorized-keys (client); + no-client-verification (server)
		if vlib.Thorough() {
			ncp, nsp = len(c02CliPolicies), len(c02SrvPolicies)
		}
		toCli, toSrv := 3, 4 // ServerAuth, ClientAuth
		if hidden {
			toCli, toSrv = 1, 0 // ServerResponseHidden, ClientRequestHidden
		}
		for cp := 1; cp < ncp; cp++ {
			pols = append(pols, polCase{cp, 0, toCli})
		}
		for sp := 1; sp < nsp; sp++ {
			pols = append(pols, polCase{0, sp, toSrv})
		}
		for _, pc := range pols {
			base := c02Case{Hidden: hidden, CliPol: pc.cp, SrvPol: pc.sp}
			with := func(f func(c *c02Case)) c02Case { c := base; c.Msg = pc.msg; f(&c); return c }
			hon := base
			hon.Msg = -1
			if !emit(hon) {
				return
			}
			L := lens[pc.msg]
			for o := 0; o < L; o++ {
				masks := []int{0x01, 0x80}
				if vlib.Thorough() || o < 8 || o >= L-33 {
					masks = append(masks, 0xff)
				}
				for _, mk := range masks {
					if !emit(with(func(c *c02Case) { c.Kind, c.Off, c.Mask = 0, o, mk })) {
						return
					}
				}
			}
			for _, cut := range []int{1, 2, 16, 17, 32, 33} {
				if l := L - cut; l >= 0 && !emit(with(func(c *c02Case) { c.Kind, c.Len = 1, l })) {
					return
				}
			}
			for _, same := range []bool{false, true} {
				if !emit(with(func(c *c02Case) { c.Kind, c.Same = 3, same })) {
					return
				}
				if c02HasSessionID(hidden, pc.msg) {
					for _, pending := range []bool{false, true} {
						if pending && hidden {
							continue
						}
						if !emit(with(func(c *c02Case) { c.Kind, c.Same, c.Pending = 5, same, pending })) {
							return
						}
					}
				}
			}
		}
	}
	rec.SetExhaustive(complete)
	rec.Extra("enumerated", "every handshake message of both modes: xor masks at every byte offset, truncation lengths, extensions, transplants from a concurrent handshake, session-id field overwritten with the id of another established session / half-open handshake; the certificate-carrying messages again under each non-default certificate policy of their receiver")
}

func TestVerifC02Random(t *testing.T) {
	lens := map[bool][]int{false: c02Baseline(t, false), true: c02Baseline(t, true)}
	vlib.Drive(t, vlib.Spec[c02Case]{ID: "C02", Quick: 1000, Run: c02Run(t), Gen: func(t *rapid.T) c02Case {
		c := c02Case{Hidden: rapid.Bool().Draw(t, "hidden")}
		L := lens[c.Hidden]
		c.Msg = rapid.IntRange(0, len(L)-1).Draw(t, "msg")
		c.Kind = rapid.SampledFrom([]int{0, 0, 0, 0, 1, 3, 5}).Draw(t, "kind")
		if c.Kind == 5 && !c02HasSessionID(c.Hidden, c.Msg) {
			c.Msg = map[bool][]int{false: {3, 4}, true: {1, 1}}[c.Hidden][rapid.IntRange(0, 1).Draw(t, "sidmsg")]
		}
		c.Off = rapid.IntRange(0, L[c.Msg]-1).Draw(t, "off")
		c.Mask = rapid.IntRange(1, 255).Draw(t, "mask")
		c.Len = rapid.IntRange(0, L[c.Msg]-1).Draw(t, "len")
		c.Same = rapid.Bool().Draw(t, "same")
		c.Pending = c.Kind == 5 && !c.Hidden && rapid.Bool().Draw(t, "pending")
		// certificate policy of each party: uniform over the policies (half of the cases keep the default on one side)
		c.CliPol = rapid.SampledFrom([]int{0, 1, 2, 3, 4}).Draw(t, "cliPolicy")
		c.SrvPol = rapid.SampledFrom([]int{0, 1, 2, 3, 4, 5}).Draw(t, "srvPolicy")
		return c
	}})
}

// ---------------------------------------------------------------------------------------------------------------------
// Sequences of handshakes on one server with a FAULTED attempt followed by retries.
//
// The statement's second sentence quantifies over every pair of parties that complete, whatever happened on the server
// before: a client whose handshake failed because a datagram could not be sent (the socket write returned an error) or
// was lost retries with a fresh handshake - from the same address (the same host, or the same NAT mapping) while the
// server may still track the first attempt, after the server's handshake timeout, or from another address. The attempts
// of a case run one after the other on a faithful network (nothing is altered, replayed or delayed), each to quiescence,
// so during attempt i the only handshake datagrams that reach the server are the ones of handshake i: a session the
// server completes (offers to Accept) during attempt i is its completion of handshake i (the first sentence of the
// statement: the datagram of a different handshake never completes a handshake). Hence, if the client of attempt i
// reports success as well, both parties completed and must hold the same identifier and keys.

type c02Fault struct {
	Side int `json:"side"`           // 0 no fault, 1 the server's, 2 the client's K-th handshake datagram of this attempt
	K    int `json:"k,omitempty"`    // 0-based index among the handshake datagrams that party writes in this attempt
	Kind int `json:"kind,omitempty"` // 0 the socket write fails with an error (nothing is sent), 1 the write succeeds and the datagram is lost
}

type c02Attempt struct {
	Fault     c02Fault `json:"fault"`
	Addr      int      `json:"addr,omitempty"`          // 0 the first client address, 1 another address
	Second    bool     `json:"otherIdentity,omitempty"` // the attempt uses the second client identity
	DelayMs   int      `json:"delayMs,omitempty"`       // virtual pause before the attempt starts (server HandshakeTimeout is 5 s, client HSTimeout 2 s)
}

type c02RetryCase struct {
	Hidden   bool         `json:"hidden"`
	Attempts []c02Attempt `json:"attempts"`
}

type c02Sess struct {
	id       SessionID
	c2s, s2c [KeyLen]byte
}

type c02AttemptOutcome struct {
	cliErr   error
	cliDone  bool
	client   c02Sess
	accepted []c02Sess // sessions the server offered to Accept during the attempt
	fired    bool      // the fault of the attempt was applied
	exchange string    // both completed with equal id and keys, but data did not flow: description
	exchanged bool
}

var c02ErrInjected = &net.OpError{Op: "write", Net: "udp", Err: syscall.ENOBUFS}

func c02SessOf(ss *SessionState) c02Sess {
	ss.m.Lock()
	defer ss.m.Unlock()
	return c02Sess{ss.sessionID, ss.clientToServerKey, ss.serverToClientKey}
}

// c02Exchange: one message each way between a client and the server-side handle of the session (black box).
func c02Exchange(cli *Client, h *Handle, serial, i int) string {
	buf := make([]byte, 4096)
	m1 := append([]byte("C02>"), vlib.Fill(uint64(serial)*16+uint64(i), 48)...)
	if err := cli.WriteMsg(m1); err != nil {
		return fmt.Sprintf("client-to-server: WriteMsg on the completed client returns %v", err)
	}
	h.SetReadDeadline(time.Now().Add(2 * time.Second))
	if n, err := h.ReadMsg(buf); err != nil || !bytes.Equal(buf[:n], m1) {
		return fmt.Sprintf("client-to-server: the server-side handle read %d bytes, err %v, instead of the %d bytes the client wrote", n, err, len(m1))
	}
	m2 := append([]byte("C02<"), vlib.Fill(uint64(serial)*16+uint64(i)+7, 40)...)
	if err := h.WriteMsg(m2); err != nil {
		return fmt.Sprintf("server-to-client: WriteMsg on the accepted handle returns %v", err)
	}
	cli.SetReadDeadline(time.Now().Add(2 * time.Second))
	if n, err := cli.ReadMsg(buf); err != nil || !bytes.Equal(buf[:n], m2) {
		return fmt.Sprintf("server-to-client: the client read %d bytes, err %v, instead of the %d bytes the server wrote", n, err, len(m2))
	}
	return ""
}

func c02RetryScenario(c c02RetryCase, serial int) (outs []c02AttemptOutcome) {
	w := vGetWorld()
	env := vStartServer(w.ServerConfig(c.Hidden))
	defer env.Stop()
	var mu sync.Mutex
	var cur *net.UDPAddr
	var f c02Fault
	var cnt [3]int
	var drop [3]bool
	fired := false
	gate := func(side int, sock *simnet.Sock) simnet.WriteGate {
		return func(b []byte, dst *net.UDPAddr, _ <-chan struct{}) {
			mu.Lock()
			defer mu.Unlock()
			sock.FailWrites(nil)
			if !vIsHandshake(b) || f.Side != side || (side == 1 && !simnetEq(dst, cur)) {
				return
			}
			k := cnt[side]
			cnt[side]++
			if k != f.K {
				return
			}
			fired = true
			if f.Kind == 0 {
				sock.FailWrites(c02ErrInjected) // this write fails; the next write clears it again
			} else {
				drop[side] = true
			}
		}
	}
	env.Net.Filter = func(d simnet.Datagram) []simnet.Datagram {
		mu.Lock()
		defer mu.Unlock()
		side := 2
		if simnetEq(d.Src, vSrvAddr) {
			side = 1
		}
		if drop[side] && vIsHandshake(d.Data) {
			drop[side] = false
			return nil
		}
		return []simnet.Datagram{d}
	}
	env.SrvSock.SetWriteGate(gate(1, env.SrvSock))
	for i, a := range c.Attempts {
		if a.DelayMs > 0 {
			time.Sleep(time.Duration(a.DelayMs) * time.Millisecond)
		}
		addr := vCliAddr
		if a.Addr != 0 {
			addr = vCli2Addr
		}
		mu.Lock()
		cur, f, cnt, drop, fired = addr, a.Fault, [3]int{}, [3]bool{}, false
		mu.Unlock()
		cli, sock := env.NewClient(addr, w.ClientConfig(c.Hidden, a.Second))
		sock.SetWriteGate(gate(2, sock))
		var o c02AttemptOutcome
		hsDone := make(chan error, 1)
		go func() { hsDone <- cli.Handshake() }()
		select {
		case o.cliErr = <-hsDone:
		case <-time.After(20 * time.Second):
			cli.Close()
			if o.cliErr = <-hsDone; o.cliErr == nil {
				o.cliErr = fmt.Errorf("handshake did not return within 20 virtual seconds")
			}
		}
		o.cliDone = o.cliErr == nil
		// quiescence: the server has processed everything this attempt sent
		time.Sleep(20 * time.Millisecond)
		var handles []*Handle
		for {
			h, err := env.Srv.AcceptTimeout(time.Millisecond)
			if err != nil || h == nil {
				break
			}
			handles = append(handles, h)
			o.accepted = append(o.accepted, c02SessOf(h.ss))
		}
		mu.Lock()
		o.fired = fired
		f = c02Fault{}
		mu.Unlock()
		if o.cliDone {
			o.client = c02SessOf(cli.ss)
			if len(handles) == 1 && o.accepted[0] == o.client {
				o.exchange = c02Exchange(cli, handles[0], serial, i)
				o.exchanged = true
			}
		}
		outs = append(outs, o)
		for _, h := range handles {
			h.Close()
		}
		cli.Close()
		sock.Close()
	}
	return outs
}

func c02FaultName(hidden bool, f c02Fault) string {
	if f.Side == 0 {
		return "no-fault"
	}
	idx := 2*f.K + 1 // the server writes the odd-numbered datagrams
	if f.Side == 2 {
		idx = 2 * f.K
	}
	name := "?"
	if n := c02MsgNames[hidden]; idx < len(n) {
		name = n[idx]
	}
	return name + map[int]string{0: ":write-error", 1: ":lost"}[f.Kind]
}

func c02RetryRun(t *testing.T) func(c c02RetryCase, v *vlib.Verdict) {
	return func(c c02RetryCase, v *vlib.Verdict) {
		c02Serial++
		serial := c02Serial
		var outs []c02AttemptOutcome
		res := vlib.Bubble(t, 60*time.Second, func() { outs = c02RetryScenario(c, serial) })
		if res.Hung {
			v.Inconclusive = "bubble hung in real time (C02 retry)"
			return
		}
		if res.Panic != "" {
			if res.Leak() || res.Deadlock() {
				v.Failf("C02:goroutines-left:"+fmt.Sprint(vlib.BlockedHopFrames(res.Stacks)), "after closing clients and server goroutines remain: %v", vlib.BlockedHopFrames(res.Stacks))
			} else {
				v.Failf(vlib.PanicSig(res.Panic, res.Stacks), "panic: %s", res.Panic)
			}
			return
		}
		mode := map[bool]string{false: "discoverable", true: "hidden"}[c.Hidden]
		faulted := false // an earlier attempt of the sequence was faulted
		for i, o := range outs {
			a := c.Attempts[i]
			fn := c02FaultName(c.Hidden, a.Fault)
			if a.Fault.Side != 0 && !o.fired {
				v.Label("retry:fault-not-reached:" + mode + ":" + fn)
			}
			ctx := ""
			if faulted {
				ctx = ":after-faulted-attempt"
			}
			what := fmt.Sprintf("%s handshake #%d of the sequence (%s, address %d, %d ms after the previous attempt ended)", mode, i, fn, a.Addr, a.DelayMs)
			if a.Fault.Side == 0 || !o.fired {
				who := "neither"
				switch {
				case o.cliDone && len(o.accepted) > 0:
					who = "both"
				case o.cliDone:
					who = "client-only"
				case len(o.accepted) > 0:
					who = "server-only"
				}
				when := "first"
				if faulted {
					when = fmt.Sprintf("after-fault:addr=%d:delay=%dms", a.Addr, a.DelayMs)
				}
				v.Label("retry:unfaulted-attempt:" + mode + ":" + when + ":completed-by-" + who)
				if !faulted && i == 0 && who != "both" {
					v.Failf("C02:honest-handshake-fails", "unaltered %s: client err %v, sessions accepted %d", what, o.cliErr, len(o.accepted))
					return
				}
			}
			if o.cliDone {
				for _, s := range o.accepted {
					// both parties completed during this attempt
					switch {
					case s.id != o.client.id:
						v.Failf("C02:session-id-differs"+ctx, "%s: the client completed with session id %x, the server completed (offered to Accept) session %x during the same attempt", what, o.client.id, s.id)
					case s.c2s != o.client.c2s || s.s2c != o.client.s2c:
						v.Failf("C02:keys-differ"+ctx, "%s: client and server completed session %x with different directional keys", what, s.id)
					}
					if !v.OK() {
						return
					}
				}
				if o.client.c2s == o.client.s2c {
					v.Failf("C02:directions-share-key"+ctx, "%s: client-to-server and server-to-client keys of the client are equal", what)
					return
				}
			}
			// every completed session is an independent session: fresh, non-zero, direction-separated keys
			seen := map[c02Sess]bool{}
			note := func(tag string, s c02Sess) {
				if seen[s] {
					return
				}
				seen[s] = true
				if s.c2s == s.s2c {
					v.Failf("C02:directions-share-key"+ctx, "%s: %s holds equal keys for both directions", what, tag)
					return
				}
				c02NoteKeys(v, fmt.Sprintf("case%d-attempt%d-%s", serial, i, tag), s.c2s, s.s2c)
			}
			if o.cliDone {
				note("client", o.client)
			}
			for _, s := range o.accepted {
				if v.OK() {
					note("server", s)
				}
			}
			if !v.OK() {
				return
			}
			if o.exchanged {
				if o.exchange != "" {
					dir := "client-to-server"
					if len(o.exchange) > 6 && o.exchange[:6] == "server" {
						dir = "server-to-client"
					}
					v.Failf("C02:completed-pair-cannot-exchange-data:"+dir+ctx, "%s: both parties completed with equal session id and keys, but %s", what, o.exchange)
					return
				}
				v.Label("retry:completed-pair-exchanged-data")
			}
			if a.Fault.Side != 0 && o.fired {
				faulted = true
				v.Label("retry:fault:" + mode + ":" + fn)
			}
		}
		v.NonTrivial = faulted && len(outs) > 1
	}
}

// c02Faults: every single-datagram send fault of one handshake attempt.
func c02Faults(hidden bool) []c02Fault {
	var fs []c02Fault
	for idx := range c02MsgNames[hidden] {
		side := 2 - idx%2 // even datagrams are written by the client (2), odd ones by the server (1)
		for kind := 0; kind < 2; kind++ {
			fs = append(fs, c02Fault{Side: side, K: idx / 2, Kind: kind})
		}
	}
	return fs
}

// TestVerifC02Retry enumerates sequences of handshake attempts on one server: a faulted first attempt (every datagram of
// the handshake, of either party: socket write error / lost), then a retry - same or other address, same or other
// identity, immediately / later within / after the server's handshake timeout - optionally faulted too and retried again.
func TestVerifC02Retry(t *testing.T) {
	run := c02RetryRun(t)
	if vlib.ReplayEnumerated(t, "C02", run) {
		return
	}
	rec := vlib.Open(t, "C02")
	idx := 0
	emit := func(c c02RetryCase) bool {
		idx++
		if !rec.Mine(idx) {
			return true
		}
		return vlib.Each(t, rec, c, run)
	}
	delays := []int{0, 2500, 6000}
	for _, hidden := range []bool{false, true} {
		if !emit(c02RetryCase{Hidden: hidden, Attempts: []c02Attempt{{}}}) {
			return
		}
		fs := c02Faults(hidden)
		for _, f1 := range fs {
			first := c02Attempt{Fault: f1}
			for addr := 0; addr < 2; addr++ {
				for _, d := range delays {
					for _, second := range []bool{false, true} {
						if !emit(c02RetryCase{Hidden: hidden, Attempts: []c02Attempt{first, {Addr: addr, Second: second, DelayMs: d}}}) {
							return
						}
					}
					if d == 2500 {
						continue
					}
					for _, f2 := range fs {
						for addr3 := 0; addr3 < 2; addr3++ {
							for _, d3 := range delays {
								if !emit(c02RetryCase{Hidden: hidden, Attempts: []c02Attempt{first, {Fault: f2, Addr: addr, DelayMs: d}, {Addr: addr3, DelayMs: d3}}}) {
									return
								}
							}
						}
					}
				}
			}
		}
	}
	rec.SetExhaustive(true)
	rec.Extra("enumerated", "sequences of 2 and 3 handshake attempts on one server: every single-datagram send fault (write error / loss, either party, both modes) in the first and optionally the second attempt x retry address (same / other) x identity x pause (0 / 2.5 s / 6 s against a 5 s server handshake timeout)")
}
