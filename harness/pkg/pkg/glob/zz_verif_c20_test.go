package glob

// C20 — Glob is total and is glob matching.

import (
	"strings"
	"testing"

	"pgregory.net/rapid"
	"verif.local/vlib"
	"verif.local/vlib/refglob"
)

type c20Case struct {
	P string `json:"p"`
	S string `json:"s"`
}

func c20Classify(c c20Case, v *vlib.Verdict) {
	star, lit := false, false
	for i := 0; i < len(c.P); i++ {
		if c.P[i] == '*' {
			star = true
		} else {
			lit = true
		}
	}
	v.NonTrivial = (star && lit) || (c.S == "" && c.P != "")
	switch {
	case c.S == "":
		v.Label("empty-input")
	case star && lit:
		v.Label("star+literal")
	case star:
		v.Label("stars-only")
	default:
		v.Label("literal-only")
	}
}

func c20Run(c c20Case, v *vlib.Verdict) {
	c20Classify(c, v)
	want := refglob.Match(c.P, c.S)
	var got bool
	if vlib.Guard(v, func() { got = Glob(c.P, c.S) }) {
		return
	}
	if want {
		v.Label("match")
	} else {
		v.Label("no-match")
	}
	if got != want {
		kind := "false-negative"
		if got {
			kind = "false-positive"
		}
		v.Failf("C20:glob-"+kind, "Glob(%q,%q)=%v, reference says %v", c.P, c.S, got, want)
	}
}

func c20Strings(alpha []byte, maxLen int) []string {
	out := []string{""}
	prev := []string{""}
	for l := 1; l <= maxLen; l++ {
		var cur []string
		for _, p := range prev {
			for _, c := range alpha {
				cur = append(cur, p+string(c))
			}
		}
		out = append(out, cur...)
		prev = cur
	}
	return out
}

func TestVerifC20Exhaustive(t *testing.T) {
	if msg := refglob.SelfTest(); msg != "" {
		t.Fatalf("VERIF-MACHINERY reference self-test: %s", msg)
	}
	if vlib.ReplayEnumerated(t, "C20", c20Run) {
		return
	}
	rec := vlib.Open(t, "C20")
	pl, il := 6, 7
	if vlib.Thorough() {
		pl, il = 8, 9
	}
	pats := c20Strings([]byte{'a', 'b', '*'}, pl)
	ins := c20Strings([]byte{'a', 'b'}, il)
	// inputs are arbitrary strings (a requested server name is peer-chosen): a '*' in the INPUT is an ordinary byte
	// that only a wildcard can absorb
	for _, s := range c20Strings([]byte{'a', 'b', '*'}, il-2) {
		if strings.Contains(s, "*") {
			ins = append(ins, s)
		}
	}
	rec.SetRequested(0)
	sigs := map[string]bool{}
	for i, p := range pats {
		if !rec.Mine(i) {
			continue
		}
		for _, s := range ins {
			c := c20Case{P: p, S: s}
			var v vlib.Verdict
			c20Run(c, &v)
			if bad := rec.Observe(c, nil, &v); bad != nil {
				if !sigs[bad.Sig] {
					t.Errorf("VERIF-VIOLATION sig=%s detail=%s", bad.Sig, bad.Detail)
				}
				sigs[bad.Sig] = true
				if len(sigs) >= 4 {
					return
				}
			}
		}
	}
	rec.SetExhaustive(len(sigs) == 0)
	rec.Extra("enumerated", map[string]int{"pattern_len_max": pl, "input_len_max": il, "patterns": len(pats), "inputs": len(ins)})
}

func c20Gen(t *rapid.T) c20Case {
	alpha := []byte("abc.-")
	lit := rapid.SampledFrom(alpha)
	// bytes of the input that a wildcard absorbs, or that perturb it, may be anything - including '*' itself
	anyb := rapid.OneOf(rapid.SampledFrom([]byte("abc.-***")), rapid.SampledFrom([]byte{0, ' ', '?', '[', '\\', 0x7f}))
	n := rapid.IntRange(0, 12).Draw(t, "ntok")
	var p, s []byte
	for i := 0; i < n; i++ {
		if rapid.IntRange(0, 2).Draw(t, "star") == 0 {
			p = append(p, '*')
			k := rapid.IntRange(0, 4).Draw(t, "fill")
			for j := 0; j < k; j++ {
				s = append(s, anyb.Draw(t, "f"))
			}
		} else {
			k := rapid.IntRange(1, 3).Draw(t, "run")
			for j := 0; j < k; j++ {
				c := lit.Draw(t, "l")
				p = append(p, c)
				s = append(s, c)
			}
		}
	}
	// perturb half of the inputs
	switch rapid.IntRange(0, 5).Draw(t, "perturb") {
	case 0:
		if len(s) > 0 {
			i := rapid.IntRange(0, len(s)-1).Draw(t, "pi")
			s[i] = anyb.Draw(t, "pc")
		}
	case 1:
		if len(s) > 0 {
			i := rapid.IntRange(0, len(s)-1).Draw(t, "di")
			s = append(s[:i:i], s[i+1:]...)
		}
	case 2:
		i := rapid.IntRange(0, len(s)).Draw(t, "ii")
		s = append(s[:i:i], append([]byte{anyb.Draw(t, "ic")}, s[i:]...)...)
	}
	return c20Case{P: string(p), S: string(s)}
}

func TestVerifC20Random(t *testing.T) {
	vlib.Drive(t, vlib.Spec[c20Case]{ID: "C20", Quick: 20000, Gen: c20Gen, Run: c20Run})
}
