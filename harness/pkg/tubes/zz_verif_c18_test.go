package tubes

// C18 — tube frame headers round-trip (frame.toBytes / fromBytes,
// initiateFrame.toBytes / fromInitiateBytes and the path the muxer really
// takes for initiate frames: fromInitiateBytes(fromBytes(datagram).toBytes())).
// A decoded frame must stay what it is after the datagram buffer it came from
// has been overwritten (the muxer reuses one read buffer for every datagram).

import (
	"bytes"
	"fmt"
	"os"
	"runtime"
	"sync"
	"sync/atomic"
	"testing"

	"pgregory.net/rapid"
	"verif.local/vlib"
	"verif.local/vlib/wire"
)

type c18Frame struct {
	Init    bool   `json:"init"` // initiate frame (10-byte header with tube type) instead of a data frame
	TubeID  int    `json:"id"`
	Flags   int    `json:"flags"` // bit i = flag with index i (REQ, RESP, REL, ACK, FIN, RTR)
	Ack     uint32 `json:"ack"`
	FrameNo uint32 `json:"no"`
	Type    int    `json:"type"` // tube type byte (initiate frames)
	Len     int    `json:"len"`  // data length, dataLength field = len(data) as every constructor does
	Seed    uint64 `json:"seed"`
}

func c18Flags(b int) frameFlags {
	return frameFlags{REQ: b&1 != 0, RESP: b&2 != 0, REL: b&4 != 0, ACK: b&8 != 0, FIN: b&16 != 0, RTR: b&32 != 0}
}

// c18Datagram is what the muxer hands the frame decoders: the bytes of one
// datagram (Muxer.readMsg: fromBytes(m.readBuf[:n])). tail > 0 models a datagram
// that is longer than the frame it carries: sentinel bytes follow the frame.
func c18Datagram(enc []byte, tail int) []byte {
	buf := make([]byte, len(enc)+tail)
	copy(buf, enc)
	for i := len(enc); i < len(buf); i++ {
		buf[i] = wire.SentinelByte
	}
	return buf
}

func c18Buffer(enc []byte) []byte { return c18Datagram(enc, 0) }

// c18NextDatagram models what happens to the buffer a frame was decoded from
// once the decoder has returned: Muxer.readMsg reads EVERY datagram into the one
// m.readBuf and hands fromBytes the window m.readBuf[:n], so by the time a
// decoded frame is consumed (parked in the receive window behind a gap, queued
// for an unreliable reader) the next datagram has been written over those bytes.
// kind 0: every byte complemented; 1: zeroed; 2: another frame's bytes (keyed fill).
func c18NextDatagram(buf []byte, kind int, seed uint64) {
	full := buf[:cap(buf)]
	switch uint(kind) % 3 {
	case 0:
		for i := range full {
			full[i] = ^full[i]
		}
	case 1:
		for i := range full {
			full[i] = 0
		}
	default:
		copy(full, vlib.Fill(seed^0x9e3779b9, len(full)))
	}
}

// c18FrameSnap is a deep copy of a decoded frame.
func c18FrameSnap(f *frame) *frame {
	g := *f
	g.data = append([]byte(nil), f.data...)
	return &g
}

func c18FrameSame(a, b *frame) bool {
	return a.tubeID == b.tubeID && a.flags == b.flags && a.ackNo == b.ackNo && a.frameNo == b.frameNo && a.dataLength == b.dataLength && bytes.Equal(a.data, b.data)
}

func c18FrameRunA(c c18Frame, v *vlib.Verdict) {
	data := vlib.Fill(c.Seed, c.Len)
	flags := c18Flags(c.Flags)
	v.NonTrivial = wire.AtLimit(c.Len) || c.Len == int(MaxFrameDataLength) || c.Len == int(MaxFrameDataLength)-1 || (c.Ack != c.FrameNo && c.Flags != 0)
	switch {
	case c.Len == 0:
		v.Label("len=0")
	case c.Len < 252:
		v.Label("len<252")
	case c.Len <= 257:
		v.Label("len=252..257")
	case c.Len < int(MaxFrameDataLength)-1:
		v.Label("len<max-1")
	default:
		v.Label("len=max-1..max")
	}
	if c.Init {
		v.Label("initiate-frame")
		f := &initiateFrame{frameNo: c.FrameNo, tubeID: byte(c.TubeID), tubeType: TubeType(c.Type), data: data, dataLength: uint16(len(data)), flags: flags}
		var enc []byte
		if vlib.Guard(v, func() { enc = f.toBytes() }) {
			return
		}
		if len(enc) != 10+len(data) {
			v.Failf("C18:encoded-length:tubes.initiateFrame", "initiate frame with %d data bytes encodes to %d bytes", len(data), len(enc))
			return
		}
		check := func(path string, g *initiateFrame) bool {
			field := ""
			switch {
			case g.tubeID != f.tubeID:
				field = "tubeID"
			case g.flags != f.flags:
				field = "flags"
			case g.tubeType != f.tubeType:
				field = "tubeType"
			case g.frameNo != f.frameNo:
				field = "frameNo"
			case g.dataLength != f.dataLength:
				field = "dataLength"
			case !bytes.Equal(g.data, f.data):
				field = "data"
			}
			if field != "" {
				v.Failf("C18:roundtrip-mismatch:tubes.initiateFrame:"+field, "%s: sent %+v (%d data bytes), decoded id=%d flags=%+v type=%d no=%d dataLength=%d (%d data bytes)", path, c, len(data), g.tubeID, g.flags, g.tubeType, g.frameNo, g.dataLength, len(g.data))
				return false
			}
			return true
		}
		for _, tail := range []int{0, 64} {
			var g *initiateFrame
			if vlib.Guard(v, func() { g = fromInitiateBytes(c18Datagram(enc, tail)) }) {
				return
			}
			if !check(fmt.Sprintf("fromInitiateBytes (datagram = frame + %d bytes)", tail), g) {
				return
			}
		}
		// the muxer's path: every datagram is first parsed as a data frame and re-serialised. Initiate frames are
		// built without data and with REQ or RESP set (tubes/reliable.go, unreliable.go); only those take this path.
		if len(data) == 0 && (flags.REQ || flags.RESP) {
			v.Label("initiate-frame-via-muxer-path")
			var g2 *initiateFrame
			var ferr error
			dgram := c18Datagram(enc, 0)
			if vlib.Guard(v, func() {
				var fr *frame
				if fr, ferr = fromBytes(dgram); ferr == nil {
					g2 = fromInitiateBytes(fr.toBytes())
				}
			}) {
				return
			}
			c18NextDatagram(dgram, int(c.Seed>>8), c.Seed) // the read buffer is reused before the initiate frame is acted on
			if ferr != nil {
				v.Failf("C18:decode-rejects-own-encoding:tubes.initiateFrame", "fromBytes rejects the 10-byte encoding of an initiate frame (flags %+v): %v", flags, ferr)
				return
			}
			check("fromInitiateBytes(fromBytes(datagram).toBytes())", g2)
		}
		return
	}
	v.Label("data-frame")
	f := &frame{ackNo: c.Ack, frameNo: c.FrameNo, dataLength: uint16(len(data)), flags: flags, tubeID: byte(c.TubeID), data: data}
	var enc []byte
	if vlib.Guard(v, func() { enc = f.toBytes() }) {
		return
	}
	if len(enc) != 12+len(data) {
		v.Failf("C18:encoded-length:tubes.frame", "frame with %d data bytes encodes to %d bytes", len(data), len(enc))
		return
	}
	var g *frame
	var err error
	tail := int(c.Seed % 2 * 64) // every other case: the datagram continues past the frame
	dgram := c18Datagram(enc, tail)
	if vlib.Guard(v, func() { g, err = fromBytes(dgram) }) {
		return
	}
	if err != nil {
		v.Failf("C18:decode-rejects-own-encoding:tubes.frame", "fromBytes (datagram = frame + %d bytes): %v", tail, err)
		return
	}
	field := ""
	switch {
	case g.tubeID != f.tubeID:
		field = "tubeID"
	case g.flags != f.flags:
		field = "flags"
	case g.ackNo != f.ackNo:
		field = "ackNo"
	case g.frameNo != f.frameNo:
		field = "frameNo"
	case g.dataLength != f.dataLength:
		field = "dataLength"
	case !bytes.Equal(g.data, f.data):
		field = "data"
	}
	if field != "" {
		v.Failf("C18:roundtrip-mismatch:tubes.frame:"+field, "sent %+v, decoded id=%d flags=%+v ack=%d no=%d dataLength=%d (%d data bytes)", c, g.tubeID, g.flags, g.ackNo, g.frameNo, g.dataLength, len(g.data))
		return
	}
	// A decoder's result must not depend on the caller's buffer after the call: the muxer reads the next datagram
	// into the same buffer while this frame is still waiting to be consumed. Likewise the encoder's result is the
	// sender's (it is encrypted / queued): changing it must not reach the frame it was made from.
	c18NextDatagram(dgram, int(c.Seed>>8), c.Seed)
	if !bytes.Equal(g.data, f.data) || g.tubeID != f.tubeID || g.flags != f.flags || g.ackNo != f.ackNo || g.frameNo != f.frameNo || g.dataLength != f.dataLength {
		v.Failf("C18:decoded-value-aliases-input-buffer:tubes.frame", "the frame decoded from a %d-byte datagram (%d data bytes) changed when the datagram buffer was overwritten afterwards (as Muxer.readMsg does with its reused read buffer)", len(dgram), len(f.data))
		return
	}
	if len(data) > 0 {
		v.Label("buffer-reused-after-decode")
	}
	c18NextDatagram(enc, int(c.Seed>>8), c.Seed)
	if !bytes.Equal(f.data, vlib.Fill(c.Seed, c.Len)) {
		v.Failf("C18:encoded-bytes-alias-value:tubes.frame", "overwriting the bytes toBytes returned changed the data of the frame that was encoded")
	}
}

var c18Nums = []uint32{0, 1, 2, 255, 256, 65535, 65536, 1<<31 - 1, 1 << 31, 1<<32 - 2, 1<<32 - 1, 0x01020304, 0xA1B2C3D4}

func c18NumGen(t *rapid.T, label string) uint32 {
	if rapid.Bool().Draw(t, label+"-edge") {
		return rapid.SampledFrom(c18Nums).Draw(t, label)
	}
	return rapid.Uint32().Draw(t, label+"-any")
}

func c18FrameGen(t *rapid.T) c18Frame {
	c := c18Frame{
		Init:    rapid.IntRange(0, 3).Draw(t, "init") == 0,
		TubeID:  rapid.IntRange(0, 255).Draw(t, "id"),
		Flags:   rapid.IntRange(0, 63).Draw(t, "flags"),
		Ack:     c18NumGen(t, "ack"),
		FrameNo: c18NumGen(t, "no"),
		Type:    rapid.IntRange(0, 255).Draw(t, "type"),
		Seed:    rapid.Uint64().Draw(t, "seed"),
	}
	max := int(MaxFrameDataLength)
	switch rapid.IntRange(0, 5).Draw(t, "lk") {
	case 0, 1:
		c.Len = rapid.SampledFrom([]int{0, 1, 252, 253, 254, 255, 256, 257, 511, 512, max - 1, max}).Draw(t, "ledge")
	case 2, 3:
		c.Len = rapid.IntRange(0, 64).Draw(t, "lsmall")
	default:
		c.Len = rapid.IntRange(0, max).Draw(t, "lany")
	}
	return c
}

func TestVerifC18FrameEncDec(t *testing.T) {
	vlib.Drive(t, vlib.Spec[c18Frame]{ID: "C18", Quick: 16000, Gen: c18FrameGen, Run: c18FrameRunA})
}

// every flag combination x both frame kinds x distinct ack/frame numbers
func TestVerifC18FrameFlagSweep(t *testing.T) {
	if vlib.ReplayEnumerated(t, "C18", c18FrameRunA) {
		return
	}
	rec := vlib.Open(t, "C18")
	i := 0
	for flags := 0; flags < 64; flags++ {
		for _, init := range []bool{false, true} {
			for _, l := range []int{0, 1, 255, 256, int(MaxFrameDataLength)} {
				i++
				if !rec.Mine(i) {
					continue
				}
				c := c18Frame{Init: init, TubeID: i % 256, Flags: flags, Ack: 0x01020304, FrameNo: 0xA1B2C3D4, Type: (i * 7) % 256, Len: l, Seed: uint64(i)}
				if !vlib.Each(t, rec, c, c18FrameRunA) {
					return
				}
			}
		}
	}
	rec.SetExhaustive(true)
	rec.Extra("enumerated", "all 64 flag combinations x data/initiate frame x 5 data lengths, ack != frame number")
}

// (B) arbitrary headers: decode, re-encode, decode again. The length field is
// kept within the bytes present (a length field beyond the datagram is C11's
// subject), everything else is free, including the two undefined flag bits.
type c18FrameB struct {
	Header [12]byte `json:"hdr"`
	Len    int      `json:"len"`
	Seed   uint64   `json:"seed"`
}

func c18FrameRunB(c c18FrameB, v *vlib.Verdict) {
	in := append([]byte(nil), c.Header[:]...)
	in[2], in[3] = byte(c.Len>>8), byte(c.Len)
	in = append(in, vlib.Fill(c.Seed, c.Len)...)
	c18FrameBytesB(in, v)
}

// c18FrameBytesB: decode -> encode -> decode on one datagram (>= 12 bytes whose
// length field does not exceed the bytes present).
func c18FrameBytesB(in []byte, v *vlib.Verdict) {
	var f *frame
	var err error
	buf := c18Buffer(in)
	if vlib.Guard(v, func() { f, err = fromBytes(buf) }) {
		return
	}
	if err != nil {
		v.Label("decoder-rejected")
		return
	}
	// the caller's buffer is reused for the next datagram (Muxer.readMsg): the decoded frame must not follow it
	snap := c18FrameSnap(f)
	c18NextDatagram(buf, int(wire.Hash64(in[:12])), uint64(len(in)))
	if !c18FrameSame(snap, f) {
		v.Failf("C18:decoded-value-aliases-input-buffer:tubes.frame", "header % x: decoded %s; after the datagram buffer was overwritten the same frame object reads %s", in[:12], c18FrameStr(snap), c18FrameStr(f))
		return
	}
	var re []byte
	if vlib.Guard(v, func() { re = f.toBytes() }) {
		return
	}
	if !bytes.Equal(re, in) {
		v.NonTrivial = true
		v.Label("accepted-non-canonical")
	} else {
		v.Label("accepted-canonical")
	}
	var f2 *frame
	var err2 error
	if vlib.Guard(v, func() { f2, err2 = fromBytes(c18Buffer(re)) }) {
		return
	}
	if err2 != nil {
		v.Failf("C18:redecode-fails:tubes.frame", "%v", err2)
		return
	}
	if f.tubeID != f2.tubeID || f.flags != f2.flags || f.ackNo != f2.ackNo || f.frameNo != f2.frameNo || f.dataLength != f2.dataLength || !bytes.Equal(f.data, f2.data) {
		v.Failf("C18:reencode-changes-value:tubes.frame", "header % x: first decode %s, after re-encoding %s", in[:12], c18FrameStr(f), c18FrameStr(f2))
		return
	}
	// same header read as an initiate frame
	var g, g2 *initiateFrame
	if vlib.Guard(v, func() {
		g = fromInitiateBytes(c18Buffer(in))
		g2 = fromInitiateBytes(c18Buffer(g.toBytes()))
	}) {
		return
	}
	if g.tubeID != g2.tubeID || g.flags != g2.flags || g.tubeType != g2.tubeType || g.frameNo != g2.frameNo || g.dataLength != g2.dataLength || !bytes.Equal(g.data, g2.data) {
		v.Failf("C18:reencode-changes-value:tubes.initiateFrame", "header % x read as initiate frame changes when re-encoded", in[:10])
	}
}

func c18FrameStr(f *frame) string {
	return fmt.Sprintf("id=%d flags=%+v ack=%d no=%d dataLength=%d data=%d bytes", f.tubeID, f.flags, f.ackNo, f.frameNo, f.dataLength, len(f.data))
}

func TestVerifC18FrameDecEncDec(t *testing.T) {
	vlib.Drive(t, vlib.Spec[c18FrameB]{ID: "C18", Quick: 12000, Run: c18FrameRunB, Gen: func(t *rapid.T) c18FrameB {
		var c c18FrameB
		copy(c.Header[:], rapid.SliceOfN(rapid.Byte(), 12, 12).Draw(t, "hdr"))
		c.Header[1] = byte(rapid.IntRange(0, 255).Draw(t, "meta"))
		c.Len = rapid.SampledFrom([]int{0, 0, 1, 2, 10, 255, 256, 1000, int(MaxFrameDataLength)}).Draw(t, "len")
		c.Seed = rapid.Uint64().Draw(t, "seed")
		return c
	}})
}

// FuzzVerifC18Frame: native fuzzing of the frame decode -> encode -> decode
// oracle (only does work when VERIF_FUZZ is set; thorough tier).
func FuzzVerifC18Frame(f *testing.F) {
	if os.Getenv("VERIF_FUZZ") == "" {
		f.Skip("native fuzzing runs in the thorough tier only")
	}
	f.Add((&frame{tubeID: 3, ackNo: 1, frameNo: 2, dataLength: 3, data: []byte{1, 2, 3}, flags: frameFlags{ACK: true, REL: true}}).toBytes())
	f.Add((&frame{tubeID: 0, flags: frameFlags{FIN: true}, data: []byte{}}).toBytes())
	f.Fuzz(func(t *testing.T, in []byte) {
		// a length field beyond the datagram, or a datagram shorter than a header, is C11's subject
		if len(in) < 12 || 12+(int(in[2])<<8|int(in[3])) > len(in) {
			t.Skip()
		}
		var v vlib.Verdict
		c18FrameBytesB(in, &v)
		for _, vi := range v.Violations {
			if !vlib.KnownOpen(vi.Sig) {
				t.Fatalf("VERIF-VIOLATION sig=%s detail=%s", vi.Sig, vi.Detail)
			}
		}
	})
}

// ---------------------------------------------------------------------------
// Concurrent dimension. The frame codecs are pure functions of their argument,
// and the tubes call them from many goroutines of one process at the same
// moment (every reliable tube's send loop and retransmission timer, unreliable
// tubes' Write, keep-alive / FIN / RTR paths, the muxer's receiver). 2..8
// goroutines each own 1..4 generated frames; behind a common start barrier each
// encodes and decodes ITS OWN frames in a loop. Every decoded frame must equal
// the goroutine's own frame. A deviating frame is encoded and decoded once more
// alone to tell a sequential defect from interference between encoders.
// ---------------------------------------------------------------------------

type c18ConcCase struct {
	Workers [][]c18Frame `json:"workers"` // frames owned by each goroutine
	Iters   int          `json:"iters"`   // passes over its frames per goroutine
}

// c18ConcItem is one frame prepared before the barrier: only real codec calls
// and comparisons run between the barrier and the end.
type c18ConcItem struct {
	c    c18Frame
	f    *frame
	ini  *initiateFrame
	data []byte
}

func c18ConcPrepare(c c18Frame) c18ConcItem {
	data := vlib.Fill(c.Seed, c.Len)
	it := c18ConcItem{c: c, data: data}
	if c.Init {
		it.ini = &initiateFrame{frameNo: c.FrameNo, tubeID: byte(c.TubeID), tubeType: TubeType(c.Type), data: data, dataLength: uint16(len(data)), flags: c18Flags(c.Flags)}
	} else {
		it.f = &frame{ackNo: c.Ack, frameNo: c.FrameNo, dataLength: uint16(len(data)), flags: c18Flags(c.Flags), tubeID: byte(c.TubeID), data: data}
	}
	return it
}

// c18ConcOnce encodes and decodes the item once; returns "" or the name of the
// first field that differs (or "decode-error") and a description.
func c18ConcOnce(it *c18ConcItem) (string, string) {
	if it.ini != nil {
		f := it.ini
		g := fromInitiateBytes(f.toBytes())
		field := ""
		switch {
		case g.tubeID != f.tubeID:
			field = "tubeID"
		case g.flags != f.flags:
			field = "flags"
		case g.tubeType != f.tubeType:
			field = "tubeType"
		case g.frameNo != f.frameNo:
			field = "frameNo"
		case g.dataLength != f.dataLength:
			field = "dataLength"
		case !bytes.Equal(g.data, f.data):
			field = "data"
		}
		if field == "" {
			return "", ""
		}
		return field, fmt.Sprintf("sent %+v, decoded id=%d flags=%+v type=%d no=%d dataLength=%d (%d data bytes)", it.c, g.tubeID, g.flags, g.tubeType, g.frameNo, g.dataLength, len(g.data))
	}
	f := it.f
	g, err := fromBytes(f.toBytes())
	if err != nil {
		return "decode-error", fmt.Sprintf("sent %+v, fromBytes: %v", it.c, err)
	}
	field := ""
	switch {
	case g.tubeID != f.tubeID:
		field = "tubeID"
	case g.flags != f.flags:
		field = "flags"
	case g.ackNo != f.ackNo:
		field = "ackNo"
	case g.frameNo != f.frameNo:
		field = "frameNo"
	case g.dataLength != f.dataLength:
		field = "dataLength"
	case !bytes.Equal(g.data, f.data):
		field = "data"
	}
	if field == "" {
		return "", ""
	}
	return field, "sent " + fmt.Sprintf("%+v", it.c) + ", decoded " + c18FrameStr(g)
}

func c18ConcKind(it *c18ConcItem) string {
	if it.ini != nil {
		return "tubes.initiateFrame"
	}
	return "tubes.frame"
}

func c18ConcRun(c c18ConcCase, v *vlib.Verdict) {
	n := len(c.Workers)
	iters := c.Iters
	if iters < 1 {
		iters = 1
	}
	items := make([][]c18ConcItem, n)
	for i := range c.Workers {
		for _, fc := range c.Workers[i] {
			items[i] = append(items[i], c18ConcPrepare(fc))
		}
	}
	type deviation struct {
		item, iter  int
		field, what string
	}
	devs := make([]*deviation, n)
	verdicts := make([]vlib.Verdict, n)
	var arrived atomic.Int32
	var wg sync.WaitGroup
	for i := 0; i < n; i++ {
		wg.Add(1)
		go func(i int) {
			defer wg.Done()
			vlib.Guard(&verdicts[i], func() {
				arrived.Add(1)
				for int(arrived.Load()) < n { // start barrier
					runtime.Gosched()
				}
				for r := 0; r < iters; r++ {
					for k := range items[i] {
						if field, what := c18ConcOnce(&items[i][k]); field != "" {
							devs[i] = &deviation{item: k, iter: r, field: field, what: what}
							return
						}
					}
				}
			})
		}(i)
	}
	wg.Wait()
	for i := 0; i < n; i++ {
		if !verdicts[i].OK() { // a panic in goroutine i
			v.Violations = append(v.Violations, verdicts[i].Violations...)
			return
		}
	}
	for i := 0; i < n; i++ {
		d := devs[i]
		if d == nil {
			continue
		}
		it := &items[i][d.item]
		var sfield, swhat string
		if vlib.Guard(v, func() { sfield, swhat = c18ConcOnce(it) }) {
			return
		}
		if sfield != "" {
			v.Failf("C18:roundtrip-mismatch:"+c18ConcKind(it)+":"+sfield, "frame %d of goroutine %d also fails when encoded alone: %s", d.item, i, swhat)
			return
		}
		v.Failf("C18:concurrent-encoders-interfere:"+c18ConcKind(it)+":"+d.field, "goroutine %d of %d, pass %d, its frame %d: the round trip deviates only while other goroutines encode frames of their own: %s", i, n, d.iter, d.item, d.what)
		return
	}
	kinds := map[bool]bool{}
	ids := map[int]bool{}
	for i := range c.Workers {
		for _, fc := range c.Workers[i] {
			kinds[fc.Init] = true
			ids[fc.TubeID] = true
		}
	}
	v.NonTrivial = n >= 2 && len(ids) >= 2
	v.Labelf("goroutines:%d", n)
	if kinds[true] && kinds[false] {
		v.Label("data-and-initiate-frames-together")
	}
}

func c18ConcGen(t *rapid.T) c18ConcCase {
	n := rapid.IntRange(2, 8).Draw(t, "goroutines")
	c := c18ConcCase{Iters: rapid.SampledFrom([]int{100, 400, 1500}).Draw(t, "iters")}
	for i := 0; i < n; i++ {
		k := rapid.IntRange(1, 4).Draw(t, "frames")
		fs := make([]c18Frame, k)
		for j := range fs {
			fs[j] = c18FrameGen(t)
			// mostly small frames (the header work dominates, as for acks, keep-alives and interactive traffic); the
			// lengths of c18FrameGen (limits, up to the maximum) one time in four
			if rapid.IntRange(0, 3).Draw(t, "small") != 0 {
				fs[j].Len = rapid.IntRange(0, 48).Draw(t, "lconc")
			}
		}
		c.Workers = append(c.Workers, fs)
	}
	return c
}

func TestVerifC18FrameConcurrent(t *testing.T) {
	quick := 800
	if c18Race {
		quick = 240
	}
	vlib.Drive(t, vlib.Spec[c18ConcCase]{ID: "C18", Quick: quick, Gen: c18ConcGen, Run: c18ConcRun})
}
