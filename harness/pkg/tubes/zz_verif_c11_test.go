//go:build go1.25

package tubes

// C11 (muxer half) — whatever frames an authenticated peer sends, the muxer
// does not panic, keeps serving its other tubes and can still be stopped.

import (
	"bytes"
	"encoding/binary"
	"fmt"
	"io"
	"testing"
	"time"

	"pgregory.net/rapid"
	"verif.local/vlib"
	"verif.local/vlib/memconn"
)

type c11Frame struct {
	Tube    int    `json:"tube"`    // 0..255
	Flags   int    `json:"flags"`   // 0..63 (bit 2 = REL)
	LenKind int    `json:"lenkind"` // how the dataLength field relates to the payload
	Payload int    `json:"payload"` // actual payload bytes in the datagram
	Ack     uint32 `json:"ack"`
	No      uint32 `json:"no"`
	Short   int    `json:"short"` // if >=0: datagram truncated to this many bytes (0..11)
	TType   int    `json:"ttype"`
	GapMs   int    `json:"gap"`
}

type c11Case struct {
	Frames     []c11Frame `json:"frames"`
	CtlWarm    int        `json:"warm"`    // bytes moved on the control tube before the junk
	Interleave bool       `json:"interleave"` // honest control traffic continues during the junk
	StopJunk   []c11Frame `json:"stopjunk"`   // frames injected WHILE the muxer is stopping (the peer withholds its answers, keeping the stopping window open)
}

var c11LenFields = []int{-1, -2, -3, 0, 0x7FFF, 0x8000, 0xFFF3, 0xFFF4, 0xFFFF, 1}

func c11Bytes(f c11Frame, ctlID byte) []byte {
	payload := vlib.Fill(uint64(f.No)+uint64(f.Tube), f.Payload)
	lf := 0
	switch k := c11LenFields[f.LenKind%len(c11LenFields)]; k {
	case -1:
		lf = f.Payload
	case -2:
		lf = f.Payload + 1
	case -3:
		lf = f.Payload - 1
		if lf < 0 {
			lf = 0
		}
	default:
		lf = k
	}
	b := make([]byte, 12+len(payload))
	b[0] = byte(f.Tube)
	b[1] = byte(f.Flags)
	binary.BigEndian.PutUint16(b[2:4], uint16(lf))
	if f.Flags&3 != 0 { // REQ / RESP layout: type byte at 4, frame number at 6..10
		b[4] = byte(f.TType)
		binary.BigEndian.PutUint32(b[6:10], f.No)
	} else {
		binary.BigEndian.PutUint32(b[4:8], f.Ack)
		binary.BigEndian.PutUint32(b[8:12], f.No)
	}
	copy(b[12:], payload)
	if f.Short >= 0 && f.Short < len(b) {
		b = b[:f.Short]
	}
	return b
}

// targetsControl reports whether the frame addresses the honest control tube's own (reliability, id).
func c11TargetsControl(f c11Frame, ctlID byte) bool {
	return byte(f.Tube) == ctlID && f.Flags&(1<<RELIdx) != 0
}

func c11Run(t *testing.T) func(c c11Case, v *vlib.Verdict) {
	return func(c c11Case, v *vlib.Verdict) {
		res := vlib.Bubble(t, 60*time.Second, func() { c11Scenario(c, v) })
		if res.Hung {
			v.Inconclusive = "bubble hung in real time (C11)"
			v.Note = firstLines(res.Stacks, 80)
			return
		}
		if res.Panic != "" && !res.Leak() && !res.Deadlock() {
			v.Failf(vlib.PanicSig(res.Panic, res.Stacks), "panic in scenario: %s", res.Panic)
			return
		}
		if v.OK() && (res.Leak() || res.Deadlock()) {
			v.Failf("C11:goroutines-left-after-stop:"+fmt.Sprint(vlib.BlockedHopFrames(res.Stacks)), "after both muxers were stopped goroutines remain blocked: %v", vlib.BlockedHopFrames(res.Stacks))
		}
	}
}

func c11Scenario(c c11Case, v *vlib.Verdict) {
	p := vNewPair(memconn.Params{}, memconn.Params{}, 0)
	M, P := p.MB, p.MA // M under test (server parity), P honest peer
	// M accepts whatever is opened, as a real server loop does, and closes unknown tubes.
	type acc struct {
		t Tube
	}
	ctlCh := make(chan *Reliable, 1)
	go func() {
		first := true
		for {
			tb, err := M.Accept()
			if err != nil {
				return
			}
			if first {
				first = false
				if r, ok := tb.(*Reliable); ok {
					ctlCh <- r
					continue
				}
			}
			go tb.Close()
		}
	}()
	ctlP, err := P.CreateReliableTube(TubeType(9))
	if err != nil {
		v.Discard = true
		return
	}
	var ctlM *Reliable
	select {
	case ctlM = <-ctlCh:
	case <-time.After(30 * time.Second):
		v.Failf("C11:control-tube-not-established", "honest control tube was not accepted within 30 s on a faithful network")
		return
	}
	ctlID := ctlP.GetID()
	seq := uint64(0)
	// exchange moves n fresh bytes each way on the control tube; false on failure
	exchange := func(n int, what string) bool {
		seq++
		ok := make(chan string, 2)
		oneWay := func(w, r *Reliable, seed uint64) {
			data := vlib.Fill(seed, n)
			go func() {
				if k, err := w.Write(data); err != nil || k != n {
					ok <- fmt.Sprintf("write: (%d,%v)", k, err)
				}
			}()
			buf := make([]byte, n)
			r.SetReadDeadline(time.Now().Add(60 * time.Second))
			if _, err := io.ReadFull(r, buf); err != nil {
				ok <- fmt.Sprintf("read: %v", err)
				return
			}
			if !bytes.Equal(buf, data) {
				ok <- "data differs"
				return
			}
			ok <- ""
		}
		go oneWay(ctlP, ctlM, seq*2)
		go oneWay(ctlM, ctlP, seq*2+1)
		for i := 0; i < 2; i++ {
			if msg := <-ok; msg != "" {
				v.Failf("C11:other-tube-disturbed:"+what, "control tube (id %d) no longer moves data %s: %s", ctlID, what, msg)
				return false
			}
		}
		return true
	}
	if c.CtlWarm > 0 && !exchange(c.CtlWarm, "before-junk") {
		return
	}
	inconsistent := 0
	for i, f := range c.Frames {
		if c11TargetsControl(f, ctlID) {
			f.Tube = int(ctlID) + 2 // keep the junk off the honest tube's own (reliability, id)
		}
		raw := c11Bytes(f, ctlID)
		if f.Short >= 0 || c11LenFields[f.LenKind%len(c11LenFields)] != -1 {
			inconsistent++
		}
		p.Net.B.Inject(raw)
		if f.GapMs > 0 {
			time.Sleep(time.Duration(f.GapMs) * time.Millisecond)
		}
		if c.Interleave && i%7 == 3 {
			if !exchange(100, "during-junk") {
				return
			}
		}
	}
	time.Sleep(2 * time.Second)
	if !exchange(1000, "after-junk") {
		return
	}
	// stop: must return within 10 virtual seconds, also when frames keep arriving while it is stopping
	if len(c.StopJunk) > 0 {
		// the peer stops answering (FINs stay unacknowledged), which keeps M in the stopping state until its forced close
		p.Net.Decide = func(dir, idx int, pkt []byte, now time.Duration) (memconn.Decision, bool) {
			if dir == 0 {
				return memconn.Decision{Drop: true}, true
			}
			return memconn.Decision{}, false
		}
	}
	done := make(chan struct{})
	go func() { M.Stop(); close(done) }()
	for _, f := range c.StopJunk {
		time.Sleep(time.Duration(20+f.GapMs) * time.Millisecond)
		if c11TargetsControl(f, ctlID) {
			f.Tube = int(ctlID) + 2
		}
		p.Net.B.Inject(c11Bytes(f, ctlID))
	}
	if len(c.StopJunk) > 0 {
		v.Label("frames-during-stop")
	}
	select {
	case <-done:
	case <-time.After(10 * time.Second):
		v.Failf("C11:stop-does-not-return", "Muxer.Stop did not return within 10 virtual seconds after %d junk frames", len(c.Frames))
	}
	go P.Stop()
	time.Sleep(3 * time.Minute)
	v.NonTrivial = inconsistent > 0
	v.Labelf("frames<=%d", c11Bucket(len(c.Frames)))
	if inconsistent > 0 {
		v.Label("inconsistent-frames")
	}
	if c.Interleave {
		v.Label("interleaved-honest-traffic")
	}
}

func c11Bucket(n int) int {
	for _, b := range []int{1, 3, 10, 30, 100, 300} {
		if n <= b {
			return b
		}
	}
	return 1000
}

func c11FrameGen() *rapid.Generator[c11Frame] {
	nums := []uint32{0, 1, 2, 3, 10, 1000, 1 << 31, 1<<31 + 1, 1<<32 - 1, 1<<32 - 2}
	return rapid.Custom(func(t *rapid.T) c11Frame {
		f := c11Frame{Short: -1}
		f.Tube = rapid.OneOf(rapid.IntRange(0, 255), rapid.SampledFrom([]int{0, 1, 2, 3, 254, 255})).Draw(t, "tube")
		f.Flags = rapid.IntRange(0, 63).Draw(t, "flags")
		f.LenKind = rapid.SampledFrom([]int{0, 0, 0, 1, 2, 3, 4, 5, 6, 7, 8, 9}).Draw(t, "lenkind")
		f.Payload = rapid.OneOf(rapid.SampledFrom([]int{0, 0, 1, 10, 100}), rapid.IntRange(0, 3000)).Draw(t, "payload")
		f.Ack = rapid.OneOf(rapid.SampledFrom(nums), rapid.Uint32Range(0, 40)).Draw(t, "ack")
		f.No = rapid.OneOf(rapid.SampledFrom(nums), rapid.Uint32Range(0, 40)).Draw(t, "no")
		if rapid.IntRange(0, 9).Draw(t, "isshort") == 0 {
			f.Short = rapid.IntRange(0, 11).Draw(t, "short")
		}
		f.TType = rapid.IntRange(0, 255).Draw(t, "ttype")
		f.GapMs = rapid.SampledFrom([]int{0, 0, 0, 1, 50, 400}).Draw(t, "gap")
		return f
	})
}

func c11Gen(t *rapid.T) c11Case {
	n := rapid.SampledFrom([]int{3, 10, 30, 100, 300}).Draw(t, "maxframes")
	c := c11Case{
		Frames:     rapid.SliceOfN(c11FrameGen(), 1, n).Draw(t, "frames"),
		CtlWarm:    rapid.SampledFrom([]int{0, 10, 40000}).Draw(t, "warm"),
		Interleave: rapid.Bool().Draw(t, "interleave"),
	}
	if rapid.IntRange(0, 2).Draw(t, "withStopJunk") == 0 {
		c.StopJunk = rapid.SliceOfN(rapid.Custom(func(t *rapid.T) c11Frame {
			f := c11FrameGen().Draw(t, "sf")
			if rapid.Bool().Draw(t, "forceREQ") {
				f.Flags |= 1 << REQIdx
				f.Short = -1
				f.LenKind = 0
				f.Payload = 0
			}
			return f
		}), 1, 12).Draw(t, "stopjunk")
	}
	// process-killing known findings are excluded by construction while they are open
	if vlib.KnownOpen("panic:tubes.fromBytes:slice-bounds") {
		for i := range c.Frames {
			k := c11LenFields[c.Frames[i].LenKind%len(c11LenFields)]
			if k >= 0xFFF4 {
				c.Frames[i].LenKind = 0
			}
		}
	}
	return c
}

func TestVerifC11Muxer(t *testing.T) {
	vQuiet()
	vlib.Drive(t, vlib.Spec[c11Case]{ID: "C11", Quick: 20000, Gen: c11Gen, Run: c11Run(t)})
}
