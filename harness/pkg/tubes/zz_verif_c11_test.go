//go:build go1.25

package tubes

// C11 (muxer half) — whatever frames an authenticated peer sends, the muxer
// does not panic, keeps serving its other tubes and can still be stopped.

import (
	"bytes"
	"encoding/binary"
	"encoding/json"
	"flag"
	"fmt"
	"io"
	"sync"
	"sync/atomic"
	"testing"
	"time"

	"pgregory.net/rapid"
	"verif.local/vlib"
	"verif.local/vlib/memconn"
)

type c11Frame struct {
	Tube    int    `json:"tube"`    // 0..255
	Flags   int    `json:"flags"`   // 0..63 (bit 2 = REL)
	LenKind int    `json:"lenkind"` // how the dataLength field relates to the payload
	Payload int    `json:"payload"` // actual payload bytes in the datagram
	Ack     uint32 `json:"ack"`
	No      uint32 `json:"no"`
	Short   int    `json:"short"` // if >=0: datagram truncated to this many bytes (0..11)
	TType   int    `json:"ttype"`
	GapMs   int    `json:"gap"`
}

type c11Case struct {
	Frames     []c11Frame `json:"frames"`
	CtlWarm    int        `json:"warm"`    // bytes moved on the control tube before the junk
	Interleave bool       `json:"interleave"` // honest control traffic continues during the junk
	StopJunk   []c11Frame `json:"stopjunk"`   // frames injected WHILE the muxer is stopping (the peer withholds its answers, keeping the stopping window open)
	// ReleaseMs > 0: the peer answers late but in time - everything it sends is held back until ReleaseMs after Stop began,
	// then it completes the close handshake of every tube that was open when Stop began (and of none it requested
	// afterwards), so that Stop finishes gracefully, before its forced close, with the StopJunk frames having met a
	// muxer in the stopping state. 0: the peer's answers are lost for good (Stop ends through its forced close).
	ReleaseMs int `json:"release,omitempty"`
	// Unread: "the application does not read". Before the drawn frames the peer opens these tubes; the application
	// accepts them and then neither reads nor closes them (a tube that was accepted but is not being read yet, a proxy
	// loop blocked on its other side). The peer fills each up to the bound the implementation has for unread input -
	// the receive queue of an unreliable tube (maxBufferedPackets messages), the reassembly window of a reliable tube
	// (maxWindowSize out-of-order frames behind a missing one), or an in-order backlog in its unbounded buffer - and
	// only then the drawn frames follow, about half of them aimed at these tubes (the generator writes their tube id
	// and reliability bit into the frames, every other field stays as drawn).
	Unread []c11Unread `json:"unread,omitempty"`
	// Flood: the peer requests a tube for EVERY identifier of one parity or of both (of one class or of both). Nothing
	// ties the identifier of an open request to the requester's parity, so the peer can occupy the identifiers the
	// LOCAL side creates its own tubes from, all of them or all but a few.
	Flood *c11Flood `json:"flood,omitempty"`
	// Local: after the junk the LOCAL application creates tubes of its own (a forwarded connection, an authorization
	// proxy). Every Create call must return - a tube, or an error such as ErrOutOfTubes - within 10 virtual seconds.
	Local []c11Local `json:"local,omitempty"`
	// History: an ESTABLISHED TUBE WITH HISTORY is under attack. Before the junk the honest peer opens a second reliable
	// tube, the local application writes on it and the peer acknowledges (see c11History); the junk then contains runs
	// of duplicate acknowledgements for this tube. The peer owns the tube and may ruin it; the clauses are the usual
	// ones (no panic, the control tube keeps working, Stop returns, nothing is left).
	History *c11History `json:"history,omitempty"`
}

type c11History struct {
	Acked int         `json:"acked"` // frames (one Write each) the local application sent on the tube and the peer acknowledged before the junk
	Out   int         `json:"out"`   // frames sent after that: the peer receives them and withholds its acknowledgements while the junk lasts
	N     int         `json:"n"`     // bytes per frame
	Runs  []c11DupRun `json:"runs"`
}

// c11DupRun is a run of Len acknowledgement frames for the tube with history, all carrying the same acknowledgement
// number: the last one the local sender genuinely received (Delta 0 - duplicates) or a neighbour of it.
type c11DupRun struct {
	At      int  `json:"at"`      // injected before drawn frame number At (after the last one when At >= their number)
	Len     int  `json:"len"`     // 1..8
	Delta   int  `json:"delta"`   // -2..2
	Payload int  `json:"payload"` // 0: pure acknowledgement; else the frames carry data too
	RTR     bool `json:"rtr"`
	NoOff   int  `json:"nooff"` // frame number relative to the one the tube expects next
	GapMs   int  `json:"gap"`   // pause between the frames of the run
}

// c11HistType is the tube type of the established tube with history; the application reads it and keeps it open.
const c11HistType = 0xE8

type c11Flood struct {
	Class  int  `json:"class"`  // 0 unreliable, 1 reliable, 2 both
	Parity int  `json:"parity"` // 0: the identifiers of the muxer under test (even), 1: the peer's own (odd), 2: all 256
	Held   bool `json:"held"`   // the application keeps these tubes (does not close them); else it closes each at once, as for any tube it does not know
	Free   int  `json:"free"`   // this many identifiers of each parity (the highest ones) are left out
	After  bool `json:"after"`  // the flood follows the drawn frames instead of preceding them
}

type c11Local struct {
	Rel   bool `json:"rel"`
	TType int  `json:"ttype"`
}

// c11FloodFrames: one well-formed open request per identifier.
func c11FloodFrames(fl c11Flood) []c11Frame {
	var out []c11Frame
	tt := 0x33
	if fl.Held {
		tt = c11HeldType
	}
	for class := 0; class < 2; class++ {
		if fl.Class != 2 && fl.Class != class {
			continue
		}
		for id := 0; id < 256-2*fl.Free; id++ {
			if fl.Parity != 2 && id%2 != fl.Parity {
				continue
			}
			out = append(out, c11Frame{Tube: id, Flags: class<<RELIdx | 1<<REQIdx, Short: -1, TType: tt})
		}
	}
	return out
}

type c11Unread struct {
	Rel   bool `json:"rel"`
	Tube  int  `json:"tube"`
	Delta int  `json:"delta"` // number of fill frames relative to the bound (bound+Delta)
	N     int  `json:"n"`     // payload bytes of each fill frame
	Hole  bool `json:"hole"`  // reliable only: frame 1 is left out, so everything that follows waits in the reassembly window
}

// c11HeldType is the tube type the application of the scenario holds without reading (it dispatches on the tube type,
// as hop's session loop does).
const c11HeldType = 0xE7

// c11FillFrames builds the frames with which the peer opens an unread tube and fills it up to its bound.
func c11FillFrames(u c11Unread) []c11Frame {
	rel := 0
	if u.Rel {
		rel = 1 << RELIdx
	}
	out := []c11Frame{{Tube: u.Tube, Flags: rel | 1<<REQIdx, Short: -1, TType: c11HeldType}}
	bound := maxBufferedPackets
	first := 0
	if u.Rel {
		bound, first = maxWindowSize, 1
		if u.Hole {
			first = 2
		}
	}
	n := bound + u.Delta
	for i := 0; i < n; i++ {
		out = append(out, c11Frame{Tube: u.Tube, Flags: rel, Payload: u.N, No: uint32(first + i), Short: -1})
	}
	return out
}

var c11LenFields = []int{-1, -2, -3, 0, 0x7FFF, 0x8000, 0xFFF3, 0xFFF4, 0xFFFF, 1}

func c11Bytes(f c11Frame, ctlID byte) []byte {
	payload := vlib.Fill(uint64(f.No)+uint64(f.Tube), f.Payload)
	lf := 0
	switch k := c11LenFields[f.LenKind%len(c11LenFields)]; k {
	case -1:
		lf = f.Payload
	case -2:
		lf = f.Payload + 1
	case -3:
		lf = f.Payload - 1
		if lf < 0 {
			lf = 0
		}
	default:
		lf = k
	}
	b := make([]byte, 12+len(payload))
	b[0] = byte(f.Tube)
	b[1] = byte(f.Flags)
	binary.BigEndian.PutUint16(b[2:4], uint16(lf))
	if f.Flags&3 != 0 { // REQ / RESP layout: type byte at 4, frame number at 6..10
		b[4] = byte(f.TType)
		binary.BigEndian.PutUint32(b[6:10], f.No)
	} else {
		binary.BigEndian.PutUint32(b[4:8], f.Ack)
		binary.BigEndian.PutUint32(b[8:12], f.No)
	}
	copy(b[12:], payload)
	if f.Short >= 0 && f.Short < len(b) {
		b = b[:f.Short]
	}
	return b
}

// targetsControl reports whether the frame addresses the honest control tube's own (reliability, id).
func c11TargetsControl(f c11Frame, ctlID byte) bool {
	return byte(f.Tube) == ctlID && f.Flags&(1<<RELIdx) != 0
}

func c11Run(t *testing.T) func(c c11Case, v *vlib.Verdict) {
	return func(c c11Case, v *vlib.Verdict) {
		ck, _ := json.Marshal(c)
		if old, ok := c11HungVerdicts[string(ck)]; ok {
			*v = old // rapid evaluates a failing case again; a frozen one costs a minute and leaves a spinning goroutine behind
			return
		}
		res := vlib.Bubble(t, 60*time.Second, func() { c11Scenario(c, v) })
		if res.Hung && len(c.Local) > 0 {
			// The bubble froze: some goroutine neither finishes nor blocks durably, so the virtual clock cannot advance
			// and no virtual bound can elapse. With local Create calls in the case that is what a Create spinning under
			// the muxer lock looks like (everything else then waits for that mutex) - or an artifact. Decide by
			// repeating that part of the case with real timers, outside any bubble.
			defer func() { c11HungVerdicts[string(ck)] = *v }()
			flag.Set("rapid.shrinktime", "1ms")
			v2 := &vlib.Verdict{}
			c11LocalRealtime(c, v2)
			*v = vlib.Verdict{Labels: []string{"bubble-froze:re-run-in-real-time"}}
			if !v2.OK() {
				v.Failf(v2.Violations[0].Sig+":confirmed-in-real-time", "(the bubble froze; repeated with real timers) %s", v2.Violations[0].Detail)
			} else {
				v.Inconclusive = "bubble froze, the real-time re-run of the local Create calls is fine (C11)"
				v.Note = firstLines(res.Stacks, 80)
			}
			return
		}
		if res.Hung {
			v.Inconclusive = "bubble hung in real time (C11)"
			v.Note = firstLines(res.Stacks, 80)
			return
		}
		if res.Panic != "" && !res.Leak() && !res.Deadlock() {
			v.Failf(vlib.PanicSig(res.Panic, res.Stacks), "panic in scenario: %s", res.Panic)
			return
		}
		if v.OK() && (res.Leak() || res.Deadlock()) {
			v.Failf("C11:goroutines-left-after-stop:"+fmt.Sprint(vlib.BlockedHopFrames(res.Stacks)), "after both muxers were stopped goroutines remain blocked: %v", vlib.BlockedHopFrames(res.Stacks))
		}
	}
}

// c11HungVerdicts: verdicts of cases whose bubble froze, by case JSON (this process).
var c11HungVerdicts = map[string]vlib.Verdict{}

func c11Scenario(c c11Case, v *vlib.Verdict) {
	p := vNewPair(memconn.Params{}, memconn.Params{}, 0)
	M, P := p.MB, p.MA // M under test (server parity), P honest peer
	// M accepts whatever is opened, as a real server loop does, and closes unknown tubes.
	type acc struct {
		t Tube
	}
	ctlCh := make(chan *Reliable, 1)
	histCh := make(chan *Reliable, 1)
	// the peer's acknowledgements (everything it sends) for the tube with history are lost while withhold is set
	var withhold atomic.Bool
	var histID atomic.Int32
	histID.Store(-1)
	if c.History != nil {
		p.Net.Decide = func(dir, idx int, pkt []byte, now time.Duration) (memconn.Decision, bool) {
			if dir == 0 && withhold.Load() && len(pkt) >= 2 && int32(pkt[0]) == histID.Load() && pkt[1]&(1<<RELIdx) != 0 {
				return memconn.Decision{Drop: true}, true
			}
			return memconn.Decision{}, false
		}
	}
	var accMu sync.Mutex // never held across a blocking call
	var accepted []Tube   // every tube Accept handed out
	var offeredLate []Tube // ... after the harness had seen the muxer in the stopping state
	var stoppingSeen atomic.Bool
	go func() {
		first := true
		for {
			tb, err := M.Accept()
			if err != nil {
				return
			}
			accMu.Lock()
			accepted = append(accepted, tb)
			if stoppingSeen.Load() {
				offeredLate = append(offeredLate, tb)
			}
			accMu.Unlock()
			if first {
				first = false
				if r, ok := tb.(*Reliable); ok {
					ctlCh <- r
					continue
				}
			}
			if tb.Type() == c11HeldType {
				continue // accepted, kept, not read (yet): whatever the peer sends stays buffered in the tube
			}
			if r, ok := tb.(*Reliable); ok && c.History != nil && tb.Type() == c11HistType {
				select {
				case histCh <- r: // the established tube: the application reads it and keeps it open
					go io.Copy(io.Discard, r)
					continue
				default:
				}
			}
			go tb.Close()
		}
	}()
	ctlP, err := P.CreateReliableTube(TubeType(9))
	if err != nil {
		v.Discard = true
		return
	}
	var ctlM *Reliable
	select {
	case ctlM = <-ctlCh:
	case <-time.After(30 * time.Second):
		v.Failf("C11:control-tube-not-established", "honest control tube was not accepted within 30 s on a faithful network")
		return
	}
	ctlID := ctlP.GetID()
	seq := uint64(0)
	// exchange moves n fresh bytes each way on the control tube; false on failure
	exchange := func(n int, what string) bool {
		seq++
		ok := make(chan string, 2)
		oneWay := func(w, r *Reliable, seed uint64) {
			data := vlib.Fill(seed, n)
			go func() {
				if k, err := w.Write(data); err != nil || k != n {
					ok <- fmt.Sprintf("write: (%d,%v)", k, err)
				}
			}()
			buf := make([]byte, n)
			r.SetReadDeadline(time.Now().Add(60 * time.Second))
			if _, err := io.ReadFull(r, buf); err != nil {
				ok <- fmt.Sprintf("read: %v", err)
				return
			}
			if !bytes.Equal(buf, data) {
				ok <- "data differs"
				return
			}
			ok <- ""
		}
		go oneWay(ctlP, ctlM, seq*2)
		go oneWay(ctlM, ctlP, seq*2+1)
		for i := 0; i < 2; i++ {
			if msg := <-ok; msg != "" {
				v.Failf("C11:other-tube-disturbed:"+what, "control tube (id %d) no longer moves data %s: %s", ctlID, what, msg)
				return false
			}
		}
		return true
	}
	if c.CtlWarm > 0 && !exchange(c.CtlWarm, "before-junk") {
		return
	}
	// the established tube with history: opened by the honest peer, the local application writes Acked frames, the peer
	// (which reads everything) acknowledges them all; then the peer's acknowledgements are withheld and Out more frames
	// are written - they stay outstanding while the junk lasts
	var histM *Reliable
	if c.History != nil {
		if histM = c11Establish(c.History, P, histCh, &histID, &withhold, v); histM != nil {
			v.Label("duplicate-ack-runs-on-established-tube")
		}
	}
	// dupRun injects a run of acknowledgements for the tube with history, numbered relative to the last acknowledgement
	// number the local sender really received and to the frame number the tube expects next (white box, in place of a
	// peer-side state machine: a peer knows what it acknowledged last and what it sent)
	dupRun := func(run c11DupRun) {
		if histM == nil {
			return
		}
		for i := 0; i < run.Len; i++ {
			histM.sender.m.Lock()
			ack := uint32(histM.sender.ackNo)
			histM.sender.m.Unlock()
			flags := frameFlags{REL: true, ACK: true, RTR: run.RTR}
			f := frame{tubeID: histM.id, ackNo: ack + uint32(run.Delta), frameNo: histM.recvWindow.getAck() + uint32(run.NoOff), flags: flags}
			f.data = vlib.Fill(uint64(run.At)*131+uint64(i), run.Payload)
			f.dataLength = uint16(len(f.data))
			p.Net.B.Inject(f.toBytes())
			if run.GapMs > 0 {
				time.Sleep(time.Duration(run.GapMs) * time.Millisecond)
			}
		}
	}
	// the tubes the application does not read: opened and filled up to their bound before the drawn frames
	for _, u := range c.Unread {
		for _, f := range c11FillFrames(u) {
			if c11TargetsControl(f, ctlID) {
				f.Tube = int(ctlID) + 2
			}
			p.Net.B.Inject(c11Bytes(f, ctlID))
		}
		time.Sleep(time.Millisecond) // the muxer has taken everything off the (bounded) fake network before more follows
		if u.Rel {
			v.Label("unread-reliable-tube-filled")
		} else {
			v.Label("unread-unreliable-tube-filled")
		}
	}
	flood := func() {
		if c.Flood == nil {
			return
		}
		for i, f := range c11FloodFrames(*c.Flood) {
			if c11TargetsControl(f, ctlID) {
				continue
			}
			p.Net.B.Inject(c11Bytes(f, ctlID))
			if i%32 == 31 {
				time.Sleep(time.Millisecond)
			}
		}
		time.Sleep(5 * time.Millisecond)
		v.Labelf("flood-of-open-requests:%s:%s", []string{"unreliable", "reliable", "both-classes"}[c.Flood.Class%3], []string{"local-parity", "peer-parity", "every-identifier"}[c.Flood.Parity%3])
	}
	if c.Flood != nil && !c.Flood.After {
		flood()
	}
	inconsistent := 0
	for i, f := range c.Frames {
		if c.History != nil {
			for _, run := range c.History.Runs {
				if run.At == i {
					dupRun(run)
				}
			}
		}
		if c11TargetsControl(f, ctlID) {
			f.Tube = int(ctlID) + 2 // keep the junk off the honest tube's own (reliability, id)
		}
		raw := c11Bytes(f, ctlID)
		if f.Short >= 0 || c11LenFields[f.LenKind%len(c11LenFields)] != -1 {
			inconsistent++
		}
		p.Net.B.Inject(raw)
		if f.GapMs > 0 {
			time.Sleep(time.Duration(f.GapMs) * time.Millisecond)
		}
		if c.Interleave && i%7 == 3 {
			if !exchange(100, "during-junk") {
				return
			}
		}
	}
	if c.History != nil {
		for _, run := range c.History.Runs {
			if run.At >= len(c.Frames) {
				dupRun(run)
			}
		}
	}
	if c.Flood != nil && c.Flood.After {
		flood()
	}
	withhold.Store(false) // the peer's acknowledgements get through again
	time.Sleep(2 * time.Second)
	if !c11LocalCreates(c, M, v, 10*time.Second) {
		return
	}
	if !exchange(1000, "after-junk") {
		return
	}
	// stop: must return within 10 virtual seconds, also when frames keep arriving while it is stopping
	var stopAt time.Duration
	if len(c.StopJunk) > 0 {
		// the peer stops answering (FINs stay unacknowledged), which keeps M in the stopping state until its forced
		// close - or, with ReleaseMs, until the peer's held-back answers arrive
		stopAt = p.Net.Elapsed()
		release := time.Duration(c.ReleaseMs) * time.Millisecond
		p.Net.Decide = func(dir, idx int, pkt []byte, now time.Duration) (memconn.Decision, bool) {
			if dir != 0 {
				return memconn.Decision{}, false
			}
			if c.ReleaseMs <= 0 {
				return memconn.Decision{Drop: true}, true
			}
			if now < stopAt+release {
				return memconn.Decision{Delays: []time.Duration{stopAt + release - now}}, true
			}
			return memconn.Decision{}, false
		}
	}
	// the tubes that are open when Stop begins (white box): a peer that answers late completes exactly their handshakes
	var openAtStop []*Reliable
	M.m.Lock()
	for _, r := range M.reliableTubes {
		openAtStop = append(openAtStop, r)
	}
	M.m.Unlock()
	done := make(chan struct{})
	go func() { M.Stop(); close(done) }()
	if len(c.StopJunk) > 0 && c.ReleaseMs > 0 {
		v.Label("frames-during-stop:peer-answers-late")
		go ctlP.Close() // the honest peer closes its end too; its FIN and its ACK are held back until the release
		time.AfterFunc(time.Duration(c.ReleaseMs)*time.Millisecond, func() {
			for _, r := range openAtStop {
				if r == ctlM {
					continue // the honest peer muxer answers for the control tube
				}
				if raw := c11PeerCompletesClose(r); raw != nil {
					p.Net.B.Inject(raw)
				}
			}
		})
	}
	reqWhileStopping := 0
	for _, f := range c.StopJunk {
		time.Sleep(time.Duration(20+f.GapMs) * time.Millisecond)
		if c11TargetsControl(f, ctlID) {
			f.Tube = int(ctlID) + 2
		}
		if st := M.state.Load(); st == muxerStopping {
			// from here on nothing may be admitted (muxer.go: "In this state, the muxer cannot create or accept new
			// tubes"); every tube requested earlier has long been handed to the accept loop (it never blocks)
			stoppingSeen.Store(true)
			if f.Flags&(1<<REQIdx) != 0 && f.Short < 0 {
				reqWhileStopping++
			}
		}
		p.Net.B.Inject(c11Bytes(f, ctlID))
	}
	if len(c.StopJunk) > 0 {
		v.Label("frames-during-stop")
	}
	if reqWhileStopping > 0 {
		v.Label("tube-requested-while-stopping")
	}
	select {
	case <-done:
		if d := p.Net.Elapsed() - stopAt; len(c.StopJunk) > 0 && c.ReleaseMs > 0 && d < muxerTimeout {
			v.Label("graceful-stop-after-late-answers")
			if reqWhileStopping > 0 {
				v.Label("graceful-stop-with-tube-requested-while-stopping")
			}
		}
	case <-time.After(10 * time.Second):
		v.Failf("C11:stop-does-not-return", "Muxer.Stop did not return within 10 virtual seconds after %d junk frames", len(c.Frames))
	}
	// Stop has returned ("gracefully closes every tube"): no tube that is still registered or that was ever handed
	// out may be alive (white box: its closed channel), and nothing requested while stopping may have been offered.
	if v.OK() {
		var left []Tube
		M.m.Lock()
		for _, r := range M.reliableTubes {
			left = append(left, r)
		}
		for _, u := range M.unreliableTubes {
			left = append(left, u)
		}
		M.m.Unlock()
		accMu.Lock()
		left = append(left, accepted...)
		late := append([]Tube(nil), offeredLate...)
		accMu.Unlock()
		for _, tb := range left {
			if !c11TubeClosed(tb) {
				v.Failf("C11:tube-alive-after-stop:"+c11Class(tb), "Muxer.Stop has returned but %s tube %d is not closed (its goroutines and timers keep running against the muxer's closed queues)", c11Class(tb), tb.GetID())
				break
			}
		}
		if v.OK() && len(late) > 0 {
			v.Failf("C11:tube-offered-while-stopping:"+c11Class(late[0]), "Accept handed out %d tube(s) (first: %s tube %d) that the peer requested after the muxer had entered the stopping state", len(late), c11Class(late[0]), late[0].GetID())
		}
	}
	// keep observing: retransmission and last-ack timers of anything left behind run for tens of virtual seconds
	go P.Stop()
	time.Sleep(3 * time.Minute)
	v.NonTrivial = inconsistent > 0
	v.Labelf("frames<=%d", c11Bucket(len(c.Frames)))
	if inconsistent > 0 {
		v.Label("inconsistent-frames")
	}
	if c.Interleave {
		v.Label("interleaved-honest-traffic")
	}
}

// c11Establish sets up the established tube with history and returns the local end (nil, with a label, if that did not
// work out - never a verdict).
func c11Establish(h *c11History, P *Muxer, histCh chan *Reliable, histID *atomic.Int32, withhold *atomic.Bool, v *vlib.Verdict) *Reliable {
	hP, err := P.CreateReliableTube(TubeType(c11HistType))
	if err != nil {
		v.Label("history:tube-not-established")
		return nil
	}
	go func() { io.Copy(io.Discard, hP); hP.Close() }() // the peer's application reads everything; closes when the tube ends
	var hM *Reliable
	select {
	case hM = <-histCh:
	case <-time.After(30 * time.Second):
		v.Label("history:tube-not-established")
		return nil
	}
	histID.Store(int32(hM.id))
	write := func(k int, seed uint64) {
		for i := 0; i < k; i++ {
			hM.Write(vlib.Fill(seed+uint64(i), h.N))
		}
	}
	write(h.Acked, 1000)
	for i := 0; i < 6000 && hM.sender.unAckedFramesRemaining() > 0; i++ {
		time.Sleep(5 * time.Millisecond)
	}
	hM.sender.m.Lock()
	left, ack := len(hM.sender.frames), hM.sender.ackNo
	hM.sender.m.Unlock()
	if left > 0 {
		v.Label("history:not-everything-acknowledged")
	}
	withhold.Store(true)
	write(h.Out, 2000)
	time.Sleep(2 * time.Millisecond) // the frames are on their way; their acknowledgements are lost
	hM.sender.m.Lock()
	out := len(hM.sender.frames)
	hM.sender.m.Unlock()
	v.Label("established-tube-with-history")
	if ack > 20 {
		switch {
		case out == 0:
			v.Label("history:ack>20:nothing-outstanding")
		case out < 4:
			v.Label("history:ack>20:1-3-outstanding")
		case out < defaultWindowSize:
			v.Label("history:ack>20:4-9-outstanding")
		default:
			v.Label("history:ack>20:full-window-outstanding")
		}
	} else {
		v.Label("history:ack<=20")
	}
	return hM
}

// c11LocalCreates: the local application creates its own tubes. Each call must come back within bound - with a tube
// of the local parity ("The server will create even numbered tubes") or with an error (ErrOutOfTubes when the peer
// holds every identifier). Under the virtual clock a Create that spins never lets the bound elapse: the bubble
// freezes and c11Run repeats this part in real time.
func c11LocalCreates(c c11Case, M *Muxer, v *vlib.Verdict, bound time.Duration) bool {
	for _, l := range c.Local {
		class := "unreliable"
		if l.Rel {
			class = "reliable"
		}
		type res struct {
			tb  Tube
			err error
		}
		ch := make(chan res, 1)
		go func() {
			if l.Rel {
				tb, err := M.CreateReliableTube(TubeType(l.TType))
				if tb == nil {
					ch <- res{nil, err} // (a nil *Reliable in a Tube would not compare equal to nil)
					return
				}
				ch <- res{tb, err}
				return
			}
			tb, err := M.CreateUnreliableTube(TubeType(l.TType))
			if tb == nil {
				ch <- res{nil, err}
				return
			}
			ch <- res{tb, err}
		}()
		select {
		case r := <-ch:
			switch {
			case r.err != nil:
				v.Label("local-create:refused:" + class)
				if r.err == ErrOutOfTubes {
					v.Label("local-create:out-of-identifiers")
				}
			case r.tb == nil:
				v.Failf("C11:local-create-returns-neither-tube-nor-error:"+class, "Create%sTube returned (nil, nil) after the peer's frames", class)
				return false
			case r.tb.GetID()%2 != M.idParity:
				v.Failf("C11:local-create-returns-peer-parity:"+class, "the local application was given %s tube id %d; the muxer creates identifiers of parity %d", class, r.tb.GetID(), M.idParity)
				return false
			default:
				v.Label("local-create:tube:" + class)
			}
		case <-time.After(bound):
			v.Failf("C11:local-create-does-not-return:"+class, "Create of a local %s tube did not return within %v after the peer's frames (flood: %+v)", class, bound, c.Flood)
			return false
		}
	}
	return true
}

// c11LocalRealtime repeats, with real timers and outside any bubble, the part of a scenario that can freeze a bubble
// without blocking anything durably - a local Create that spins while it holds the muxer lock: the same fixture, the
// tubes the application does not read, the flood and the drawn frames (without their pauses), then the local Create
// calls and Stop, each with a generous real-time bound.
func c11LocalRealtime(c c11Case, v *vlib.Verdict) {
	p := vNewPair(memconn.Params{}, memconn.Params{}, 0)
	M, P := p.MB, p.MA
	ctlCh := make(chan *Reliable, 1)
	go func() {
		first := true
		for {
			tb, err := M.Accept()
			if err != nil {
				return
			}
			if first {
				first = false
				if r, ok := tb.(*Reliable); ok {
					ctlCh <- r
					continue
				}
			}
			if tb.Type() == c11HeldType {
				continue
			}
			go tb.Close()
		}
	}()
	stopBoth := func() {
		go P.Stop()
		go M.Stop()
	}
	ctlP, err := P.CreateReliableTube(TubeType(9))
	if err != nil {
		v.Inconclusive = "real-time re-run: control tube: " + err.Error()
		stopBoth()
		return
	}
	select {
	case <-ctlCh:
	case <-time.After(20 * time.Second):
		v.Inconclusive = "real-time re-run: control tube not accepted"
		stopBoth()
		return
	}
	ctlID := ctlP.GetID()
	inject := func(fs []c11Frame, skipCtl bool) {
		for i, f := range fs {
			if c11TargetsControl(f, ctlID) {
				if skipCtl {
					continue
				}
				f.Tube = int(ctlID) + 2
			}
			p.Net.B.Inject(c11Bytes(f, ctlID))
			if i%32 == 31 {
				time.Sleep(2 * time.Millisecond)
			}
		}
		time.Sleep(20 * time.Millisecond)
	}
	for _, u := range c.Unread {
		inject(c11FillFrames(u), false)
	}
	if c.Flood != nil && !c.Flood.After {
		inject(c11FloodFrames(*c.Flood), true)
	}
	inject(c.Frames, false)
	if c.Flood != nil && c.Flood.After {
		inject(c11FloodFrames(*c.Flood), true)
	}
	time.Sleep(500 * time.Millisecond)
	if !c11LocalCreates(c, M, v, 45*time.Second) {
		go P.Stop()
		return // (Stop of M would wait for the same lock)
	}
	done := make(chan struct{})
	go func() { M.Stop(); close(done) }()
	select {
	case <-done:
	case <-time.After(60 * time.Second):
		v.Failf("C11:stop-does-not-return", "Muxer.Stop did not return within 60 s of real time after the local application created its tubes")
	}
	go P.Stop()
}

// c11PeerCompletesClose builds the frame with which a peer that kept track of the tube completes its close handshake:
// FIN + ACK, numbered with what the tube expects next and acknowledging everything the tube has sent (white box, in place
// of a peer-side state machine for tubes that only the injected frames opened). nil when there is nothing to complete.
func c11PeerCompletesClose(r *Reliable) []byte {
	r.l.Lock()
	st := r.tubeState
	r.sender.m.Lock()
	next := r.sender.frameNo
	r.sender.m.Unlock()
	r.l.Unlock()
	if st == created || st == closed {
		return nil
	}
	f := frame{tubeID: r.id, frameNo: r.recvWindow.getAck(), ackNo: next, data: []byte{}, flags: frameFlags{REL: true, ACK: true, FIN: true}}
	return f.toBytes()
}

func c11TubeClosed(t Tube) bool {
	var ch chan struct{}
	switch x := t.(type) {
	case *Reliable:
		ch = x.closed
	case *Unreliable:
		ch = x.closed
	}
	select {
	case <-ch:
		return true
	default:
		return false
	}
}

func c11Class(t Tube) string {
	if t.IsReliable() {
		return "reliable"
	}
	return "unreliable"
}

func c11Bucket(n int) int {
	for _, b := range []int{1, 3, 10, 30, 100, 300} {
		if n <= b {
			return b
		}
	}
	return 1000
}

func c11FrameGen() *rapid.Generator[c11Frame] {
	nums := []uint32{0, 1, 2, 3, 10, 1000, 1001, 1002, 1 << 31, 1<<31 + 1, 1<<32 - 1, 1<<32 - 2}
	return rapid.Custom(func(t *rapid.T) c11Frame {
		f := c11Frame{Short: -1}
		f.Tube = rapid.OneOf(rapid.IntRange(0, 255), rapid.SampledFrom([]int{0, 1, 2, 3, 254, 255})).Draw(t, "tube")
		f.Flags = rapid.IntRange(0, 63).Draw(t, "flags")
		f.LenKind = rapid.SampledFrom([]int{0, 0, 0, 1, 2, 3, 4, 5, 6, 7, 8, 9}).Draw(t, "lenkind")
		f.Payload = rapid.OneOf(rapid.SampledFrom([]int{0, 0, 1, 10, 100}), rapid.IntRange(0, 3000)).Draw(t, "payload")
		f.Ack = rapid.OneOf(rapid.SampledFrom(nums), rapid.Uint32Range(0, 40)).Draw(t, "ack")
		f.No = rapid.OneOf(rapid.SampledFrom(nums), rapid.Uint32Range(0, 40)).Draw(t, "no")
		if rapid.IntRange(0, 9).Draw(t, "isshort") == 0 {
			f.Short = rapid.IntRange(0, 11).Draw(t, "short")
		}
		f.TType = rapid.IntRange(0, 255).Draw(t, "ttype")
		f.GapMs = rapid.SampledFrom([]int{0, 0, 0, 1, 50, 400}).Draw(t, "gap")
		return f
	})
}

func c11Gen(t *rapid.T) c11Case {
	n := rapid.SampledFrom([]int{3, 10, 30, 100, 300}).Draw(t, "maxframes")
	c := c11Case{
		Frames:     rapid.SliceOfN(c11FrameGen(), 1, n).Draw(t, "frames"),
		CtlWarm:    rapid.SampledFrom([]int{0, 10, 40000}).Draw(t, "warm"),
		Interleave: rapid.Bool().Draw(t, "interleave"),
	}
	if rapid.IntRange(0, 2).Draw(t, "withStopJunk") == 0 {
		c.StopJunk = rapid.SliceOfN(rapid.Custom(func(t *rapid.T) c11Frame {
			f := c11FrameGen().Draw(t, "sf")
			if rapid.Bool().Draw(t, "forceREQ") {
				f.Flags |= 1 << REQIdx
				f.Short = -1
				f.LenKind = 0
				f.Payload = 0
			}
			return f
		}), 1, 12).Draw(t, "stopjunk")
		// six in ten of these: the peer answers late but in time (Stop ends gracefully, before the 1 s forced close)
		c.ReleaseMs = rapid.SampledFrom([]int{0, 0, 0, 0, 60, 150, 300, 500, 700, 900}).Draw(t, "release")
	}
	// one case in four: the application leaves 1-2 tubes unread and the peer fills them to their bound first; the drawn
	// frames (also those injected while stopping) are then aimed at these tubes with probability 1/2, all other
	// fields - flags, length field, payload, numbers - as drawn
	if rapid.IntRange(0, 3).Draw(t, "withUnread") == 0 {
		c.Unread = rapid.SliceOfN(rapid.Custom(func(t *rapid.T) c11Unread {
			u := c11Unread{Rel: rapid.IntRange(0, 2).Draw(t, "urel") == 0, Tube: rapid.IntRange(2, 250).Draw(t, "utube")}
			u.Delta = rapid.SampledFrom([]int{-1, 0, 0, 1, 30}).Draw(t, "udelta")
			u.N = rapid.SampledFrom([]int{0, 1, 1, 40, 1200}).Draw(t, "un")
			if u.Rel {
				u.Hole = rapid.Bool().Draw(t, "uhole")
				if u.N == 0 {
					u.N = 1 // a reliable frame without payload is an acknowledgement, not data
				}
			}
			return u
		}), 1, 2).Draw(t, "unread")
		aim := func(fs []c11Frame) {
			for i := range fs {
				if !rapid.Bool().Draw(t, "aimed") {
					continue
				}
				u := c.Unread[rapid.IntRange(0, len(c.Unread)-1).Draw(t, "at")]
				fs[i].Tube = u.Tube
				fs[i].Flags &^= 1 << RELIdx
				if u.Rel {
					fs[i].Flags |= 1 << RELIdx
				}
			}
		}
		aim(c.Frames)
		aim(c.StopJunk)
	}
	// one case in five: the peer requests a tube for every identifier of a parity (or of both); then, and in a quarter of
	// the other cases, the local application creates 1-3 tubes of each class after the junk
	if rapid.IntRange(0, 4).Draw(t, "withFlood") == 0 {
		c.Flood = &c11Flood{
			Class:  rapid.IntRange(0, 2).Draw(t, "floodclass"),
			Parity: rapid.SampledFrom([]int{0, 0, 1, 2, 2}).Draw(t, "floodparity"),
			Held:   rapid.Bool().Draw(t, "floodheld"),
			Free:   rapid.SampledFrom([]int{0, 0, 0, 1, 2, 5}).Draw(t, "floodfree"),
			After:  rapid.Bool().Draw(t, "floodafter"),
		}
	}
	if c.Flood != nil || rapid.IntRange(0, 3).Draw(t, "withLocal") == 0 {
		nr, nu := rapid.IntRange(1, 3).Draw(t, "localrel"), rapid.IntRange(1, 3).Draw(t, "localunrel")
		for i := 0; i < nr+nu; i++ {
			c.Local = append(c.Local, c11Local{Rel: (i%2 == 0 && i/2 < nr) || i/2 >= nu, TType: rapid.IntRange(0, 255).Draw(t, "localtype")})
		}
	}
	// one case in four: an established tube with history is under attack - the honest peer opened it, the local
	// application sent 5-80 frames on it which the peer acknowledged (mostly more than 20, the point from which duplicate
	// acknowledgements count), 0-12 more frames are outstanding because the peer withholds its acknowledgements; 1-6 runs
	// of 1-8 acknowledgement frames repeating the last genuine acknowledgement number (or a neighbour), with and without
	// payload and RTR, are spread over the drawn frames. The dimension is purely additive: the drawn frames and every other
	// dimension of the case stay exactly as they are without it (drawn last, nothing is re-aimed).
	if rapid.IntRange(0, 3).Draw(t, "withHistory") == 0 {
		h := &c11History{
			Acked: rapid.SampledFrom([]int{5, 19, 20, 21, 22, 25, 40, 80}).Draw(t, "hacked"),
			Out:   rapid.SampledFrom([]int{0, 1, 1, 2, 2, 3, 3, 4, 9, 10, 12}).Draw(t, "hout"),
			N:     rapid.SampledFrom([]int{1, 1, 100, 1200}).Draw(t, "hn"),
		}
		h.Runs = rapid.SliceOfN(rapid.Custom(func(t *rapid.T) c11DupRun {
			return c11DupRun{
				At:      rapid.IntRange(0, len(c.Frames)).Draw(t, "rat"),
				Len:     rapid.IntRange(1, 8).Draw(t, "rlen"),
				Delta:   rapid.SampledFrom([]int{0, 0, 0, 0, 0, -1, 1, -2, 2}).Draw(t, "rdelta"),
				Payload: rapid.SampledFrom([]int{0, 0, 1, 100}).Draw(t, "rpayload"),
				RTR:     rapid.IntRange(0, 3).Draw(t, "rrtr") == 0,
				NoOff:   rapid.SampledFrom([]int{0, 0, 1, 5}).Draw(t, "rnooff"),
				GapMs:   rapid.SampledFrom([]int{0, 0, 0, 1, 50}).Draw(t, "rgap"),
			}
		}), 1, 6).Draw(t, "runs")
		c.History = h
	}
	// process-killing known findings are excluded by construction while they are open
	if vlib.KnownOpen("panic:tubes.fromBytes:slice-bounds") {
		for i := range c.Frames {
			k := c11LenFields[c.Frames[i].LenKind%len(c11LenFields)]
			if k >= 0xFFF4 {
				c.Frames[i].LenKind = 0
			}
		}
	}
	return c
}

func TestVerifC11Muxer(t *testing.T) {
	vQuiet()
	vlib.Drive(t, vlib.Spec[c11Case]{ID: "C11", Quick: 20000, Gen: c11Gen, Run: c11Run(t)})
}
