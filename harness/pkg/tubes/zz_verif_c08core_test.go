//go:build go1.25

package tubes

// C08 — reassembly core: receiver.receive is driven directly with every arrival
// order of frames (duplicates, FIN, frames below and beyond the window, around
// the 2^32 wrap) up to a bounded length. Oracle: the buffer always equals the
// concatenation of the contiguous prefix received; FIN is reported only after
// all earlier frames.

import (
	"bytes"
	"fmt"
	"testing"

	"verif.local/vlib"
)

type c08CoreCase struct {
	Base uint64 `json:"base"` // frame number of the first data frame (64-bit, unwrapped)
	N    int    `json:"n"`    // data frames; frame Base+N is the FIN
	Seq  []int  `json:"seq"`  // arrivals: 0..N = frame Base+i, N+1 = stale frame (Base-1), N+2 = frame beyond the window
}

func c08CoreFrame(c c08CoreCase, k int) (*frame, uint64) {
	var no uint64
	switch {
	case k <= c.N:
		no = c.Base + uint64(k)
	case k == c.N+1:
		no = c.Base - 1
	default:
		no = c.Base + maxWindowSize + 1 + uint64(c.N)
	}
	data := vlib.Fill(no, 1+int(no%3))
	f := &frame{frameNo: uint32(no), dataLength: uint16(len(data)), data: data}
	if k == c.N {
		f.flags.FIN = true
		f.flags.ACK = true
		f.dataLength = 0
		f.data = []byte{}
	}
	return f, no
}

func c08CoreRun(c c08CoreCase, v *vlib.Verdict) {
	vlib.Guard(v, func() {
		r := newReceiver(vQuiet())
		r.m.Lock()
		r.ackNo = c.Base
		r.windowStart = c.Base
		r.m.Unlock()
		have := map[uint64]bool{}
		finSeen := false
		var want bytes.Buffer
		next := c.Base
		step := func(i, k int) bool {
			f, no := c08CoreFrame(c, k)
			fin, _ := r.receive(f)
			if k <= c.N && no >= next {
				have[no] = true
			}
			for have[next] {
				if next < c.Base+uint64(c.N) {
					d, _ := c08CoreFrame(c, int(next-c.Base))
					want.Write(d.data)
				}
				next++
			}
			wantFin := next > c.Base+uint64(c.N)
			r.m.Lock()
			got := append([]byte(nil), r.buffer.Bytes()...)
			ws := r.windowStart
			r.m.Unlock()
			if !bytes.Equal(got, want.Bytes()) {
				v.Failf("C08:core-buffer-differs", "after arrival %d (frame kind %d): buffer %x, contiguous prefix is %x", i, k, got, want.Bytes())
				return false
			}
			if ws != next {
				v.Failf("C08:core-window-start", "after arrival %d: windowStart %d, model %d", i, ws, next)
				return false
			}
			if fin && !wantFin {
				v.Failf("C08:core-fin-early", "arrival %d: FIN reported before all earlier frames arrived", i)
				return false
			}
			if wantFin && !finSeen && !fin {
				v.Failf("C08:core-fin-missed", "arrival %d completes the stream but FIN was not reported", i)
				return false
			}
			if fin {
				finSeen = true
			}
			if r.closed.Load() != wantFin {
				v.Failf("C08:core-closed-flag", "after arrival %d: receiver closed=%v, model %v", i, r.closed.Load(), wantFin)
				return false
			}
			return true
		}
		for i, k := range c.Seq {
			if finSeen {
				break // a closed receiver ignores everything (documented)
			}
			if !step(i, k) {
				return
			}
		}
		// heal: deliver everything in order
		for k := 0; k <= c.N && !finSeen; k++ {
			if !step(len(c.Seq)+k, k) {
				return
			}
		}
		if !finSeen {
			v.Failf("C08:core-fin-missed", "after delivering every frame in order no FIN was reported")
		}
	})
	dup := false
	seen := map[int]bool{}
	ooo := false
	maxk := -1
	for _, k := range c.Seq {
		if seen[k] {
			dup = true
		}
		seen[k] = true
		if k <= c.N {
			if k < maxk {
				ooo = true
			}
			if k > maxk {
				maxk = k
			}
		}
	}
	v.NonTrivial = dup || ooo
	if dup {
		v.Label("duplicate-arrival")
	}
	if ooo {
		v.Label("out-of-order")
	}
	if c.Base > 1<<31 {
		v.Label("near-2^32-wrap")
	}
}

func TestVerifC08Core(t *testing.T) {
	vQuiet()
	if vlib.ReplayEnumerated(t, "C08", c08CoreRun) {
		return
	}
	rec := vlib.Open(t, "C08")
	idx := 0
	bases := []uint64{1, 5, 1<<32 - 2, 1<<32 - 1, 1 << 32, 1<<33 - 3}
	maxLen := 5
	if vlib.Thorough() {
		maxLen = 6
	}
	total := 0
	for _, base := range bases {
		for n := 1; n <= 3; n++ {
			alpha := n + 3
			var seq []int
			var rec2 func(depth int) bool
			rec2 = func(depth int) bool {
				idx++
				if rec.Mine(idx) {
					total++
					c := c08CoreCase{Base: base, N: n, Seq: append([]int(nil), seq...)}
					if !vlib.Each(t, rec, c, c08CoreRun) {
						return false
					}
				}
				if depth == maxLen {
					return true
				}
				for k := 0; k < alpha; k++ {
					if base == 1 && k == n+1 {
						continue // no frame 0 below base 1 (frame numbers start at 1)
					}
					seq = append(seq, k)
					ok := rec2(depth + 1)
					seq = seq[:len(seq)-1]
					if !ok {
						return false
					}
				}
				return true
			}
			if !rec2(0) {
				return
			}
		}
	}
	rec.SetExhaustive(true)
	rec.Extra("enumerated", fmt.Sprintf("all arrival sequences of length<=%d over {frames 1..n, FIN, stale frame, frame beyond window}, n=1..3, %d window bases incl. the 2^32 wrap", maxLen, len(bases)))
}
