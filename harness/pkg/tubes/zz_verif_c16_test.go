//go:build go1.25

package tubes

// C16 — tube and muxer shutdown always terminates and is clean.

import (
	"bytes"
	"errors"
	"fmt"
	"io"
	"os"
	"runtime"
	"sort"
	"strings"
	"sync"
	"sync/atomic"
	"testing"
	"time"

	"pgregory.net/rapid"
	"hop.computer/hop/pkg/verifhook"
	"verif.local/vlib"
	"verif.local/vlib/memconn"
)

type c16Tube struct {
	Rel bool `json:"rel"`
	ByA bool `json:"byA"`
	// Late: the tube is not established before the program starts. It is opened OpenMs after the program began, on
	// the network as the case left it (lossy, dead, failing), so that the program's Close / Stop calls - and the
	// forced close behind Stop - meet a tube whose initiation is still under way on one or both ends (or never
	// completes). The accepting end exists once the peer's muxer hands it out; operations on an end that does not
	// exist (yet) wait up to 2 virtual seconds for it and are skipped otherwise.
	Late   bool `json:"late,omitempty"`
	OpenMs int  `json:"openMs,omitempty"`
}

type c16Op struct {
	Side    int `json:"side"` // 0 = A, 1 = B
	Tube    int `json:"tube"`
	Kind    int `json:"kind"` // 0 write 1 read 2 close 3 waitforclose 4 setdeadline 5 stop-muxer 6 close-then-wait
	N       int `json:"n"` // write: number of bytes; 0: a zero-length write (empty slice), -1: a zero-length write (nil slice)
	DelayMs int `json:"delay"`
	Via     int `json:"via,omitempty"` // write on an unreliable tube: 0 Write, 1 WriteMsgUDP
}

type c16Yield struct {
	Point int `json:"p"`
	Hit   int `json:"hit"` // the delay applies once, to the Hit-th time the point is reached
	Us    int `json:"us"`
}

type c16Case struct {
	Tubes     []c16Tube  `json:"tubes"`
	Procs     [][]c16Op  `json:"procs"`
	LossPct   int        `json:"loss"`
	Seed      uint64     `json:"seed"`
	DeadAtMs  int        `json:"deadAt"`  // network loses everything from this time on (-1: never)
	HealMs    int        `json:"heal"`    // lossy until then (ignored when dead)
	FailSide  int        `json:"failSide"` // -1 none; 0/1: that side's connection starts failing
	FailAtMs  int        `json:"failAt"`
	FailClose bool       `json:"failClose"` // true: the connection is closed underneath; false: writes return an error
	TimeoutMs int        `json:"timeout"` // muxer data timeout (0 = none)
	Yields    []c16Yield `json:"yields"`
	Graceful  bool       `json:"graceful"` // network delivers (after healing), no Stop in the program, every end gets closed
	// Preload: data written (on the still faithful network, before the program starts) that the peer leaves
	// unread, so that the program's lifecycle operations meet tubes with buffered, not yet read data.
	Preload []c16Pre `json:"preload,omitempty"`
	// Replays: late / duplicated copies of initiation datagrams (REQ, RESP) that really crossed the case's network
	// (recorded from the moment the muxers exist), delivered once more to the side they were addressed to - at a drawn
	// time of the program or when a Muxer.Stop reaches a drawn phase (a datagram network may duplicate and delay).
	Replays []c16Replay `json:"replays,omitempty"`
	// SlowReapUs > 0: every reaper visit (the goroutine that removes a closed tube from its muxer's table) is
	// delayed by that much, so that closed tubes stay listed for a while, as they do behind a slow scheduler.
	SlowReapUs int `json:"slowReapUs,omitempty"`
}

type c16Replay struct {
	To    int `json:"to"`    // the RECEIVING side (0 = A, 1 = B)
	Kind  int `json:"kind"`  // 0: a recorded REQ datagram, 1: a recorded RESP datagram
	Which int `json:"which"` // which of the recorded ones (modulo their number at the moment of delivery)
	// Point < 0: delivered AtMs after the program began. Otherwise: delivered when yield point c16ReplayPoints[Point]
	// is reached for the Hit-th time; the goroutine that reached the point then pauses ThenUs (all these points are
	// lock-free), which gives the receiving muxer time to look at the datagram within that phase.
	Point  int `json:"point"`
	Hit    int `json:"hit"`
	AtMs   int `json:"atMs"`
	ThenUs int `json:"thenUs"`
}

// phases of Muxer.Stop at which a replayed datagram may be delivered (all outside any lock)
var c16ReplayPoints = []string{
	"tubes.Muxer.Stop.enter", "tubes.Muxer.Stop.stopping", "tubes.Muxer.Stop.tubesClosed", "tubes.Muxer.Stop.queuesClosed",
	"tubes.Muxer.Stop.forceTimer",
}

type c16Pre struct {
	Tube  int `json:"tube"`
	Side  int `json:"side"`  // the WRITING side
	Count int `json:"count"` // number of writes (messages on an unreliable tube)
	N     int `json:"n"`     // bytes per write
}

var c16Points = []string{
	"tubes.Muxer.Stop.enter", "tubes.Muxer.Stop.stopping", "tubes.Muxer.Stop.tubesClosed", "tubes.Muxer.Stop.queuesClosed",
	"tubes.Muxer.Stop.forceTimer", "tubes.Muxer.receiver.dispatch", "tubes.Muxer.reap.closed",
	"tubes.Reliable.Close.enter", "tubes.Reliable.enterClosed.window", "tubes.Reliable.receive.enter", "tubes.Reliable.send.loop",
	"tubes.Reliable.initiate.sent",
	"tubes.Unreliable.Close.enter", "tubes.Unreliable.Close.swapped", "tubes.Unreliable.Close.initDone", "tubes.Unreliable.receive.enter",
	"tubes.Unreliable.WriteMsgUDP.enter", "tubes.Unreliable.sender.loop",
	// appended (stored cases address points by index): the gap in Reliable.initiate between "initiation frame seen"
	// and taking the lifecycle lock to start the sender
	"tubes.Reliable.initiate.beforeStart",
}

// points that lie on the initiation / forced-close path: cases with late tubes draw half of their yields from these
var c16InitPoints = []string{
	"tubes.Reliable.initiate.sent", "tubes.Reliable.initiate.beforeStart", "tubes.Muxer.Stop.forceTimer",
	"tubes.Muxer.receiver.dispatch", "tubes.Muxer.Stop.stopping",
}

func c16PointIndex(name string) int {
	for i, p := range c16Points {
		if p == name {
			return i
		}
	}
	panic("unknown yield point " + name)
}

// Unreliable.Close holds lifecycleMu while it waits for the sender goroutine to finish.
var c16GoschedOnly = map[string]bool{"tubes.Unreliable.sender.loop": true}

var c16OpNames = []string{"Write", "Read", "Close", "WaitForClose", "SetDeadline", "Stop", "Close+WaitForClose"}

type c16T struct {
	t        [2]Tube // the two ends; t[side] may only be read after ready[side] is closed
	ready    [2]chan struct{} // closed once the end exists (established tubes: from the start)
	wsem     [2]chan struct{} // serialises writers per end (a channel, so that waiting is a durable block)
	woff     [2]int // bytes / messages written so far per side
	roff     [2]int
	closedAt [2]time.Duration // when a local Close call returned (0 = not yet)
	closeErr [2][]error
	eofSeen  [2]bool // a Read that started after the local close had returned has reported end-of-stream
}

type c16Run struct {
	c       c16Case
	v       *vlib.Verdict
	mu      sync.Mutex
	p       *vPair
	tubes   []*c16T
	start   time.Time
	stopped [2]time.Duration
	pending map[string]time.Duration // running ops -> start
	delivers bool
}

func (r *c16Run) now() time.Duration { return time.Since(r.start) }

func (r *c16Run) fail(sig, f string, a ...any) {
	r.mu.Lock()
	defer r.mu.Unlock()
	if r.v.OK() {
		r.v.Failf(sig, f, a...)
	}
}

func c16Seed(tube, side int) uint64 { return uint64(1000 + tube*2 + side) }

// unreliable message: 8-byte header (tube, side, index, length) + keyed bytes
func c16Msg(tube, side, idx, n int) []byte {
	if n < 8 {
		n = 8
	}
	b := make([]byte, n)
	b[0], b[1] = byte(tube), byte(side)
	b[2], b[3] = byte(idx>>8), byte(idx)
	b[4], b[5] = byte(n>>8), byte(n)
	b[6], b[7] = 0x5A, 0xA5
	copy(b[8:], vlib.Fill(uint64(tube*7919+side*31+idx), n-8))
	return b
}

func c16MsgOK(b []byte, tube, fromSide int) bool {
	if len(b) < 8 || int(b[0]) != tube || int(b[1]) != fromSide || b[6] != 0x5A || b[7] != 0xA5 {
		return false
	}
	idx := int(b[2])<<8 | int(b[3])
	n := int(b[4])<<8 | int(b[5])
	return n == len(b) && bytes.Equal(b, c16Msg(tube, fromSide, idx, n))
}

// end returns the tube end of a side, nil when it does not exist (a late tube that was not opened / not accepted).
func (tb *c16T) end(side int) Tube {
	select {
	case <-tb.ready[side]:
		return tb.t[side]
	default:
		return nil
	}
}

func (r *c16Run) doOp(op c16Op, tag string) {
	if op.DelayMs > 0 {
		time.Sleep(time.Duration(op.DelayMs) * time.Millisecond)
	}
	tb := r.tubes[op.Tube%len(r.tubes)]
	ti := op.Tube % len(r.tubes)
	if op.Kind != 5 && tb.end(op.Side) == nil {
		// an end of a late tube: wait (bounded) until it has been opened / handed out by Accept
		select {
		case <-tb.ready[op.Side]:
		case <-time.After(2 * time.Second):
			r.mu.Lock()
			r.v.Label("op-skipped:tube-end-does-not-exist")
			r.mu.Unlock()
			return
		}
	}
	tube := tb.end(op.Side)
	name := c16OpNames[op.Kind]
	key := fmt.Sprintf("%s:%s(side %d, tube %d)", tag, name, op.Side, ti)
	r.mu.Lock()
	r.pending[key] = r.now()
	closedBefore := tb.closedAt[op.Side] > 0
	// the local end is shut for good (a Close call or a Stop of this side's muxer has returned) / a Read that began
	// after that has already reported end-of-stream
	shutBefore := closedBefore || r.stopped[op.Side] > 0
	eofBefore := tb.eofSeen[op.Side]
	r.mu.Unlock()
	defer func() {
		r.mu.Lock()
		delete(r.pending, key)
		r.mu.Unlock()
	}()
	switch op.Kind {
	case 0: // write
		tb.wsem[op.Side] <- struct{}{}
		defer func() { <-tb.wsem[op.Side] }()
		var data []byte
		switch {
		case op.N < 0: // zero-length write, nil slice
		case op.N == 0: // zero-length write, empty slice
			data = []byte{}
		case tube.IsReliable():
			data = vlib.Fill(c16Seed(ti, op.Side), tb.woff[op.Side]+op.N)[tb.woff[op.Side]:]
		default:
			data = c16Msg(ti, op.Side, tb.woff[op.Side], op.N)
		}
		var n int
		var err error
		if ut, ok := tube.(*Unreliable); ok && op.Via == 1 {
			n, _, err = ut.WriteMsgUDP(data, nil, nil) // the other entry point of an unreliable tube
		} else {
			n, err = tube.Write(data)
		}
		if closedBefore && err == nil {
			// "after a tube is closed locally, writes fail" - whatever their length
			r.fail("C16:write-succeeds-after-local-close", "%s: a write of %d bytes returned (%d, nil) although Close had already returned on this end", key, len(data), n)
			return
		}
		if err == nil {
			if tube.IsReliable() {
				tb.woff[op.Side] += n
			} else {
				tb.woff[op.Side]++
			}
		}
	case 1: // read
		buf := make([]byte, 70000)
		n, err := tube.Read(buf)
		if n > 0 {
			if tube.IsReliable() {
				r.mu.Lock()
				off := tb.roff[op.Side]
				tb.roff[op.Side] += n
				r.mu.Unlock()
				// concurrent readers of one tube may interleave; only check containment of a keyed window when single reader
				want := vlib.Fill(c16Seed(ti, 1-op.Side), off+n)[off:]
				if !bytes.Equal(buf[:n], want) && !r.multiReader(ti, op.Side) {
					r.fail("C16:read-returns-foreign-bytes", "%s: %d bytes at offset %d are not what the peer wrote", key, n, off)
				}
			} else if !c16MsgOK(buf[:n], ti, 1-op.Side) {
				r.fail("C16:read-returns-foreign-message", "%s: a %d-byte message that the peer never wrote on this tube", key, n)
			}
		}
		// Unreliable tube whose local end is shut: nothing is admitted to its receive queue any more (white box:
		// Unreliable.receive rejects under the lifecycle lock), so "buffered data, then end-of-stream" can be judged
		// in the middle of a program, whatever else runs concurrently: end-of-stream must not be reported while
		// messages are still queued, and once it has been reported no later Read may produce a message.
		if ut, ok := tube.(*Unreliable); ok && shutBefore {
			if n == 0 && err == io.EOF {
				if left := len(ut.recv.C); left > 0 {
					r.fail("C16:end-of-stream-before-buffered-data:unreliable", "%s: Read reported end-of-stream after the local end was shut although %d received messages were still buffered unread", key, left)
				}
				r.mu.Lock()
				tb.eofSeen[op.Side] = true
				r.mu.Unlock()
			} else if n > 0 && eofBefore {
				r.fail("C16:data-after-end-of-stream:unreliable", "%s: Read returned a %d-byte message although an earlier Read on this locally shut end had already reported end-of-stream", key, n)
			}
		}
	case 2, 6: // close
		err := tube.Close()
		r.mu.Lock()
		if tb.closedAt[op.Side] == 0 {
			tb.closedAt[op.Side] = r.now()
		}
		tb.closeErr[op.Side] = append(tb.closeErr[op.Side], err)
		r.mu.Unlock()
		if op.Kind == 6 {
			tube.WaitForClose()
		}
	case 3:
		tube.WaitForClose()
	case 4:
		d := time.Duration(op.N) * time.Millisecond
		tube.SetDeadline(time.Now().Add(d - 50*time.Millisecond))
	case 5:
		m := r.p.MA
		if op.Side == 1 {
			m = r.p.MB
		}
		m.Stop()
		r.mu.Lock()
		if r.stopped[op.Side] == 0 {
			r.stopped[op.Side] = r.now()
		}
		r.mu.Unlock()
	}
}

// emptyWriter: the program has a zero-length write of that side on that tube (on an unreliable tube it is a message
// of length 0, which the peer may then legitimately read).
func (r *c16Run) emptyWriter(tube, side int) bool {
	for _, pr := range r.c.Procs {
		for _, op := range pr {
			if op.Kind == 0 && op.N <= 0 && op.Side == side && op.Tube%len(r.tubes) == tube {
				return true
			}
		}
	}
	return false
}

func (r *c16Run) multiReader(tube, side int) bool {
	n := 0
	for _, pr := range r.c.Procs {
		has := false
		for _, op := range pr {
			if op.Kind == 1 && op.Side == side && op.Tube%len(r.tubes) == tube {
				has = true
			}
		}
		if has {
			n++
		}
	}
	return n > 1
}

func c16StateName(s state) string {
	return []string{"created", "initiated", "closeWait", "lastAck", "finWait1", "finWait2", "closing", "closed"}[s]
}

func c16TubeState(t Tube) string {
	switch x := t.(type) {
	case *Reliable:
		x.l.Lock()
		defer x.l.Unlock()
		return "rel-" + c16StateName(x.tubeState)
	case *Unreliable:
		return "unrel-" + c16StateName(x.state.Load().(state))
	}
	return "?"
}

func c16Scenario(c c16Case, v *vlib.Verdict) {
	r := &c16Run{c: c, v: v, pending: map[string]time.Duration{}}
	armed := false
	var netMu sync.Mutex
	lossy := memconn.Params{Seed: c.Seed, LossPct: c.LossPct, HealMs: -1}
	r.p = vNewPair(memconn.Params{}, memconn.Params{}, time.Duration(c.TimeoutMs)*time.Millisecond)
	r.start = time.Now()
	var armedAt time.Duration
	r.p.Net.Decide = func(dir, idx int, pkt []byte, now time.Duration) (memconn.Decision, bool) {
		netMu.Lock()
		defer netMu.Unlock()
		if !armed {
			return memconn.Decision{Delays: []time.Duration{0}}, true
		}
		rel := now - armedAt
		if c.DeadAtMs >= 0 && rel >= time.Duration(c.DeadAtMs)*time.Millisecond {
			return memconn.Decision{Drop: true}, true
		}
		if rel >= time.Duration(c.HealMs)*time.Millisecond || lossy.LossPct == 0 {
			return memconn.Decision{Delays: []time.Duration{0}}, true
		}
		if lossy.LossPct >= 100 {
			return memconn.Decision{Drop: true}, true
		}
		return memconn.Decision{}, false
	}
	r.p.Net.P[0], r.p.Net.P[1] = lossy, lossy
	// ---- initiation datagrams (REQ / RESP) that cross the network are recorded per direction, from the start, whatever
	// their fate: a copy of one of them may arrive once more later (c.Replays)
	var recMu sync.Mutex
	var rec [2][2][][]byte // [direction][0 REQ, 1 RESP]
	replayLabels := map[string]bool{}
	if len(c.Replays) > 0 {
		r.p.Net.OnSend = func(dir int, pkt []byte, sent time.Duration, dlv []time.Duration) {
			if len(pkt) < 2 {
				return
			}
			k := -1
			if pkt[1]&(1<<REQIdx) != 0 {
				k = 0
			} else if pkt[1]&(1<<RESPIdx) != 0 {
				k = 1
			}
			if k < 0 {
				return
			}
			recMu.Lock()
			if len(rec[dir][k]) < 64 {
				rec[dir][k] = append(rec[dir][k], pkt)
			}
			recMu.Unlock()
		}
	}
	replay := func(rp c16Replay, where string) {
		to := rp.To & 1
		recMu.Lock()
		var pkt []byte
		if list := rec[1-to][rp.Kind&1]; len(list) > 0 {
			pkt = list[rp.Which%len(list)]
		}
		recMu.Unlock()
		if pkt == nil {
			return
		}
		e, m := r.p.Net.A, r.p.MA
		if to == 1 {
			e, m = r.p.Net.B, r.p.MB
		}
		// classification only (white box): what does the copy meet?
		lab := "replayed-" + []string{"REQ", "RESP"}[rp.Kind&1] + ":" + where
		if !e.Closed() {
			switch m.state.Load() {
			case muxerStopping:
				lab += ":muxer-stopping"
			case muxerStopped:
				lab += ":muxer-queues-closed-receiver-running"
			}
			if _, listed := m.getTube(pkt[1]&(1<<RELIdx) != 0, pkt[0]); listed {
				lab += ":tube-listed"
			}
		} else {
			lab += ":connection-closed"
		}
		recMu.Lock()
		replayLabels[lab] = true // (handed to the verdict by the scenario goroutine at the end)
		recMu.Unlock()
		e.Inject(pkt)
	}
	// ---- establish the tubes on a faithful network
	for i, tc := range c.Tubes {
		cr, ac := r.p.MA, r.p.MB
		if !tc.ByA {
			cr, ac = r.p.MB, r.p.MA
		}
		if tc.Late {
			tt := &c16T{}
			tt.wsem[0], tt.wsem[1] = make(chan struct{}, 1), make(chan struct{}, 1)
			tt.ready[0], tt.ready[1] = make(chan struct{}), make(chan struct{})
			r.tubes = append(r.tubes, tt)
			continue
		}
		var t1 Tube
		var err error
		if tc.Rel {
			t1, err = cr.CreateReliableTube(TubeType(20 + i))
		} else {
			t1, err = cr.CreateUnreliableTube(TubeType(20 + i))
		}
		if err != nil {
			v.Discard = true
			return
		}
		t2, err := ac.Accept()
		if err != nil {
			v.Discard = true
			return
		}
		tt := &c16T{}
		tt.wsem[0], tt.wsem[1] = make(chan struct{}, 1), make(chan struct{}, 1)
		tt.ready[0], tt.ready[1] = make(chan struct{}), make(chan struct{})
		close(tt.ready[0])
		close(tt.ready[1])
		if tc.ByA {
			tt.t = [2]Tube{t1, t2}
		} else {
			tt.t = [2]Tube{t2, t1}
		}
		r.tubes = append(r.tubes, tt)
		// make sure initiation completed on both ends before the program starts
		if rr, ok := t1.(*Reliable); ok {
			rr.WaitForInit()
			t2.(*Reliable).WaitForInit()
		} else {
			<-t1.(*Unreliable).initiated
			<-t2.(*Unreliable).initiated
		}
	}
	// ---- preload: data the peer leaves unread (faithful network, delivered before the program starts)
	for _, pl := range c.Preload {
		ti := pl.Tube % len(r.tubes)
		tb := r.tubes[ti]
		side := pl.Side & 1
		if tb.end(0) == nil || tb.end(1) == nil {
			continue // late tube: nothing to preload
		}
		for k := 0; k < pl.Count; k++ {
			var data []byte
			if tb.t[side].IsReliable() {
				data = vlib.Fill(c16Seed(ti, side), tb.woff[side]+pl.N)[tb.woff[side]:]
			} else {
				data = c16Msg(ti, side, tb.woff[side], pl.N)
			}
			n, err := tb.t[side].Write(data)
			if err != nil {
				v.Discard = true
				return
			}
			if tb.t[side].IsReliable() {
				tb.woff[side] += n
			} else {
				tb.woff[side]++
			}
		}
	}
	time.Sleep(10 * time.Millisecond)
	// ---- arm faults and yield schedule
	netMu.Lock()
	armed = true
	armedAt = time.Since(r.start)
	netMu.Unlock()
	r.start = time.Now()
	hits := map[string]int{}
	var hmu sync.Mutex
	// Each yield entry delays ONE specific visit of a point (so the total injected delay is bounded by the
	// case: <= 6 x 1.2 s, well below the oracle's bounds). Points where another goroutine may hold a mutex
	// while waiting for the yielding goroutine only get runtime.Gosched (a virtual sleep there would freeze
	// the bubble clock).
	sched := map[string]map[int]int{}
	for _, y := range c.Yields {
		pt := c16Points[y.Point%len(c16Points)]
		if sched[pt] == nil {
			sched[pt] = map[int]int{}
		}
		sched[pt][y.Hit] = y.Us
	}
	replayAt := map[string][]c16Replay{}
	for _, rp := range c.Replays {
		if rp.Point >= 0 {
			pt := c16ReplayPoints[rp.Point%len(c16ReplayPoints)]
			replayAt[pt] = append(replayAt[pt], rp)
		}
	}
	verifhook.Set(func(point string) {
		m := sched[point]
		rps := replayAt[point]
		slowReap := c.SlowReapUs > 0 && point == "tubes.Muxer.reap.closed"
		if m == nil && rps == nil && !slowReap {
			return
		}
		hmu.Lock()
		k := hits[point]
		hits[point]++
		hmu.Unlock()
		for _, rp := range rps {
			if rp.Hit == k {
				replay(rp, strings.TrimPrefix(point, "tubes.Muxer."))
				if rp.ThenUs > 0 {
					time.Sleep(time.Duration(rp.ThenUs) * time.Microsecond)
				}
			}
		}
		if slowReap {
			time.Sleep(time.Duration(c.SlowReapUs) * time.Microsecond)
		}
		d, ok := m[k]
		if !ok {
			return
		}
		if c16GoschedOnly[point] {
			for i := 0; i < 1+d%7; i++ {
				runtime.Gosched()
			}
			return
		}
		if d > 0 {
			time.Sleep(time.Duration(d) * time.Microsecond)
		}
	})
	defer verifhook.Set(nil)
	if c.FailSide >= 0 {
		time.AfterFunc(time.Duration(c.FailAtMs)*time.Millisecond, func() {
			e := r.p.Net.A
			if c.FailSide == 1 {
				e = r.p.Net.B
			}
			if c.FailClose {
				e.Close()
			} else {
				e.FailWrites(errors.New("simulated write failure"))
			}
		})
	}
	// ---- late tubes: each muxer's application keeps accepting (as a session loop does) and every late tube is
	// opened OpenMs after the program began. The accept loops end when their muxer is stopped.
	anyLate := false
	for _, tc := range c.Tubes {
		anyLate = anyLate || tc.Late
	}
	if anyLate {
		v.Label("with-late-tubes")
	}
	if len(c.Replays) > 0 {
		v.Label("with-replayed-initiation-datagrams")
		for _, rp := range c.Replays {
			if rp.Point < 0 {
				rp := rp
				time.AfterFunc(time.Duration(rp.AtMs)*time.Millisecond, func() { replay(rp, "at-drawn-time") })
			}
		}
	}
	// (a copy of a request whose tube is gone meanwhile opens a further incarnation on the accepting side: the
	// applications keep accepting in these cases too, as a session loop does)
	if anyLate || len(c.Replays) > 0 {
		for side, m := range []*Muxer{r.p.MA, r.p.MB} {
			go func(side int, m *Muxer) {
				for {
					tb, err := m.Accept()
					if err != nil {
						return
					}
					i := int(tb.Type()) - 20
					if i >= 0 && i < len(r.tubes) && c.Tubes[i].Late && c.Tubes[i].ByA == (side == 1) && c.Tubes[i].Rel == tb.IsReliable() && r.tubes[i].end(side) == nil {
						r.tubes[i].t[side] = tb
						close(r.tubes[i].ready[side])
						continue
					}
					// a second incarnation (the peer's request was answered, the answer lost, the first tube gone
					// meanwhile): the application has no use for it
					go tb.Close()
				}
			}(side, m)
		}
		for i, tc := range c.Tubes {
			if !tc.Late {
				continue
			}
			go func(i int, tc c16Tube) {
				if tc.OpenMs > 0 {
					time.Sleep(time.Duration(tc.OpenMs) * time.Millisecond)
				}
				m, side := r.p.MA, 0
				if !tc.ByA {
					m, side = r.p.MB, 1
				}
				// What CreateReliableTube / CreateUnreliableTube do, except that the identifier is chosen by the
				// harness instead of pickTubeID: one that no other tube of the case ever has. The muxer would hand
				// out the identifier of a tube that was closed a moment ago; what a reused identifier can do to the
				// successor (frames carry no incarnation) is C09's subject and is listed there, not a shutdown matter.
				id := byte(40+2*i) + m.idParity
				var tb Tube
				var err error
				m.m.Lock()
				if tc.Rel {
					var x *Reliable
					if x, err = m.makeReliableTubeWithID(TubeType(20+i), id, true); err == nil {
						tb = x
					}
				} else {
					var x *Unreliable
					if x, err = m.makeUnreliableTubeWithID(TubeType(20+i), id, true); err == nil {
						tb = x
					}
				}
				m.m.Unlock()
				if err != nil {
					return // the muxer is already stopping: the tube never exists
				}
				r.tubes[i].t[side] = tb
				close(r.tubes[i].ready[side])
			}(i, tc)
		}
	}
	// ---- run the program
	var wg sync.WaitGroup
	for pi, pr := range c.Procs {
		wg.Add(1)
		go func(pi int, pr []c16Op) {
			defer wg.Done()
			for oi, op := range pr {
				r.doOp(op, fmt.Sprintf("g%d.%d", pi, oi))
			}
		}(pi, pr)
	}
	procsDone := make(chan struct{})
	go func() { wg.Wait(); close(procsDone) }()
	select {
	case <-procsDone:
	case <-time.After(60 * time.Second):
	}
	// ---- (a) both ends closed and the network delivers => WaitForClose completes within 30 s without any Stop
	delivers := c.DeadAtMs < 0 && c.FailSide < 0 && c.TimeoutMs == 0
	r.mu.Lock()
	anyStop := r.stopped[0] > 0 || r.stopped[1] > 0
	r.mu.Unlock()
	for _, pr := range c.Procs {
		for _, op := range pr {
			if op.Kind == 5 {
				anyStop = true
			}
		}
	}
	if delivers && !anyStop {
		// wait for healing, then give every both-closed tube 30 s
		if w := time.Duration(c.HealMs)*time.Millisecond - r.now(); w > 0 && c.LossPct > 0 {
			time.Sleep(w)
		}
		for ti, tb := range r.tubes {
			r.mu.Lock()
			both := tb.closedAt[0] > 0 && tb.closedAt[1] > 0
			for side := 0; side < 2 && both; side++ {
				// a Close that refused (tube in a bad state) has not started anything WaitForClose could wait for
				if e := tb.closeErr[side][0]; e != nil && e != io.EOF {
					both = false
				}
			}
			r.mu.Unlock()
			if !both {
				continue
			}
			v.Label("both-ends-closed-on-delivering-network")
			if c.Tubes[ti].Late {
				v.Label("both-ends-closed-on-delivering-network:late-tube")
			}
			ends := [2]Tube{tb.end(0), tb.end(1)}
			for side := 0; side < 2; side++ {
				done := make(chan struct{})
				go func(t Tube) { t.WaitForClose(); close(done) }(ends[side])
				select {
				case <-done:
				case <-time.After(30 * time.Second):
					sig := "C16:waitforclose-stuck-after-both-closed:" + c16TubeState(ends[side]) + ":peer-" + c16TubeState(ends[1-side])
					if ps := c16TubeState(ends[1-side]); ps == "rel-closed" {
						sig = "C16:waitforclose-stuck-after-both-closed:" + c16TubeState(ends[side]) + ":peer-already-closed"
					}
					r.fail(sig,
						"tube %d: both ends called Close (at %v and %v) and the network delivers, but WaitForClose on side %d has not returned 30 s later; states: this end %s, peer %s",
						ti, tb.closedAt[0], tb.closedAt[1], side, c16TubeState(ends[side]), c16TubeState(ends[1-side]))
				}
			}
		}
	}
	// ---- final Stop on both muxers: bounded, idempotent, equal results for concurrent callers
	type res struct{ s, r error }
	for side, m := range []*Muxer{r.p.MA, r.p.MB} {
		out := make(chan res, 3)
		for k := 0; k < 3; k++ {
			go func() { s, rr := m.Stop(); out <- res{s, rr} }()
		}
		var got []res
		tm := time.NewTimer(20 * time.Second)
	collect:
		for len(got) < 3 {
			select {
			case x := <-out:
				got = append(got, x)
			case <-tm.C:
				break collect
			}
		}
		tm.Stop()
		if len(got) < 3 {
			r.fail("C16:stop-does-not-return", "Muxer.Stop on side %d: only %d of 3 concurrent calls returned within 20 virtual seconds; pending ops %v", side, len(got), r.pendingList())
			break
		}
		for _, g := range got[1:] {
			if fmt.Sprint(g.s) != fmt.Sprint(got[0].s) || fmt.Sprint(g.r) != fmt.Sprint(got[0].r) {
				r.fail("C16:stop-results-differ", "concurrent Stop callers got different results: (%v,%v) vs (%v,%v)", got[0].s, got[0].r, g.s, g.r)
			}
		}
	}
	// ---- every operation must have returned once both muxers are stopped
	select {
	case <-procsDone:
	case <-time.After(30 * time.Second):
		r.fail("C16:op-blocked-after-stop:"+r.pendingKinds(), "30 virtual seconds after both muxers were stopped these calls have not returned: %v", r.pendingList())
	}
	// after local close: reads drain then EOF, writes fail
	if v.OK() {
		for ti, tb := range r.tubes {
			for side := 0; side < 2; side++ {
				if tb.end(side) == nil {
					continue // late tube that was never opened / never reached this side
				}
				done := make(chan string, 1)
				if ut, ok := tb.t[side].(*Unreliable); ok {
					go func() { done <- r.afterShutdownUnreliable(ut, ti, side) }()
					select {
					case msg := <-done:
						if msg != "" {
							key := msg
							if i := strings.Index(key, ":"); i > 0 {
								key = key[:i]
							}
							r.fail("C16:after-shutdown:"+strings.ReplaceAll(key, " ", "-")+":unreliable", "tube %d side %d (unreliable) after both muxers stopped: %s", ti, side, msg)
						}
					case <-time.After(30 * time.Second):
						r.fail("C16:after-shutdown:call-blocks", "tube %d side %d: Write/Read after shutdown did not return within 30 s", ti, side)
					}
					continue
				}
				// bytes of the peer's stream that sit unread in this end's buffer (white box): they must all be
				// returned, intact, before end-of-stream
				buffered := -1
				if rt, ok := tb.t[side].(*Reliable); ok {
					rt.recvWindow.m.Lock()
					buffered = rt.recvWindow.buffer.Len()
					rt.recvWindow.m.Unlock()
				}
				multi := r.multiReader(ti, side)
				go func(t Tube, ti, side int) {
					// writes fail, whatever their length
					for _, w := range [][]byte{nil, {}, make([]byte, 16)} {
						if _, err := t.Write(w); err == nil {
							if len(w) == 0 {
								done <- "zero-length Write succeeded"
							} else {
								done <- "Write succeeded"
							}
							return
						}
					}
					buf := make([]byte, 1<<16)
					drained := 0
					for i := 0; i < 2000; i++ {
						n, err := t.Read(buf)
						if n > 0 && buffered >= 0 {
							r.mu.Lock()
							off := tb.roff[side]
							tb.roff[side] += n
							r.mu.Unlock()
							if want := vlib.Fill(c16Seed(ti, 1-side), off+n)[off:]; !multi && !bytes.Equal(buf[:n], want) {
								done <- "Read returns bytes the peer did not write at that offset"
								return
							}
							drained += n
						}
						if err == io.EOF {
							if buffered > 0 && drained < buffered {
								done <- fmt.Sprintf("buffered data lost: %d bytes were buffered unread but only %d were returned before end-of-stream", buffered, drained)
								return
							}
							if buffered > 0 {
								r.mu.Lock()
								r.v.Label("buffered-data-drained-after-shutdown")
								r.mu.Unlock()
							}
							// end-of-stream is final
							for k := 0; k < 3; k++ {
								if n, _ := t.Read(buf); n > 0 {
									done <- fmt.Sprintf("data after end-of-stream: a Read returned %d bytes after an earlier Read had reported end-of-stream", n)
									return
								}
							}
							done <- ""
							return
						}
						if err != nil && !errors.Is(err, os.ErrDeadlineExceeded) {
							done <- ""
							return
						}
						if errors.Is(err, os.ErrDeadlineExceeded) {
							done <- "" // a pending deadline set by the program takes precedence; not judged
							return
						}
					}
					done <- "Read never reports end-of-stream"
				}(tb.t[side], ti, side)
				select {
				case msg := <-done:
					if msg != "" {
						key := msg
						if i := strings.Index(key, ":"); i > 0 {
							key = key[:i]
						}
						r.fail("C16:after-shutdown:"+strings.ReplaceAll(key, " ", "-"), "tube %d side %d after both muxers stopped: %s", ti, side, msg)
					}
				case <-time.After(30 * time.Second):
					r.fail("C16:after-shutdown:call-blocks", "tube %d side %d: Write/Read after shutdown did not return within 30 s", ti, side)
				}
			}
		}
	}
	if !c16Realtime.Load() {
		time.Sleep(3 * time.Minute)
	}
	// ---- classification
	lifecycle := 0
	procsWithLifecycle := 0
	for _, pr := range c.Procs {
		has := false
		for _, op := range pr {
			if op.Kind == 2 || op.Kind == 5 || op.Kind == 6 {
				lifecycle++
				has = true
			}
		}
		if has {
			procsWithLifecycle++
		}
	}
	v.NonTrivial = procsWithLifecycle >= 2 || (lifecycle >= 1 && (c.LossPct >= 50 || c.DeadAtMs >= 0))
	if procsWithLifecycle >= 2 {
		v.Label("racing-lifecycle-ops")
	}
	if c.DeadAtMs >= 0 {
		v.Label("dead-network")
	}
	if c.LossPct >= 50 {
		v.Label("loss>=50%")
	}
	if c.FailSide >= 0 {
		v.Label("connection-failure")
	}
	if c.TimeoutMs > 0 {
		v.Label("muxer-timeout-configured")
	}
	if len(c.Yields) > 0 {
		v.Label("with-yield-schedule")
	}
	recMu.Lock()
	for _, lab := range slicesSortedKeys(replayLabels) {
		v.Label(lab)
	}
	recMu.Unlock()
}

// afterShutdownUnreliable judges "after a tube is closed locally, writes fail and reads return buffered data and then
// end-of-stream" on one end of an unreliable tube once both muxers are stopped and every program operation has
// returned (nothing else touches the tube any more). White box: the messages that were received but not yet read sit
// in the tube's receive queue; they are copied out (and put back in the same order) and then exactly those messages,
// in that order, are demanded from Read before end-of-stream, and nothing after it. "" = fine.
func (r *c16Run) afterShutdownUnreliable(ut *Unreliable, ti, side int) string {
	// writes fail, whatever their length and whichever entry point is used
	for _, w := range [][]byte{nil, {}, c16Msg(0, 0, 0, 16)} {
		what := "Write succeeded"
		if len(w) == 0 {
			what = "zero-length Write succeeded"
		}
		if _, err := ut.Write(w); err == nil {
			return what
		}
		if _, _, err := ut.WriteMsgUDP(w, nil, nil); err == nil {
			return what
		}
	}
	var snap [][]byte
snapshot:
	for {
		select {
		case m := <-ut.recv.C:
			snap = append(snap, m)
		default:
			break snapshot
		}
	}
	for _, m := range snap {
		ut.recv.C <- m // capacity: they all came out of this queue
	}
	if len(snap) > 0 {
		r.mu.Lock()
		r.v.Label("unreliable-messages-buffered-at-shutdown")
		r.mu.Unlock()
	}
	buf := make([]byte, 1<<16)
	got := 0
	for i := 0; i < len(snap)+2000; i++ {
		n, err := ut.Read(buf)
		if err == nil {
			if got >= len(snap) {
				return fmt.Sprintf("Read returns a message that was not buffered: %d messages were buffered unread, a further Read returned %d bytes", len(snap), n)
			}
			if !bytes.Equal(buf[:n], snap[got]) {
				return fmt.Sprintf("buffered messages altered or out of order: Read %d returned %d bytes, the %d-byte message buffered at that position was expected", got, n, len(snap[got]))
			}
			if !c16MsgOK(buf[:n], ti, 1-side) && !(n == 0 && r.emptyWriter(ti, 1-side)) {
				return fmt.Sprintf("Read returns a foreign message: %d bytes that the peer never wrote on this tube", n)
			}
			got++
			continue
		}
		if errors.Is(err, os.ErrDeadlineExceeded) {
			return "" // a pending deadline set by the program takes precedence; not judged
		}
		if err != io.EOF {
			return ""
		}
		if n > 0 {
			return fmt.Sprintf("Read returns data together with end-of-stream: %d bytes", n)
		}
		if got < len(snap) {
			return fmt.Sprintf("buffered data lost: %d messages were buffered unread but only %d were returned before end-of-stream", len(snap), got)
		}
		// end-of-stream is final
		for k := 0; k < 4; k++ {
			if n, _ := ut.Read(buf); n > 0 {
				return fmt.Sprintf("data after end-of-stream: a Read returned a %d-byte message after an earlier Read had reported end-of-stream", n)
			}
		}
		if len(snap) > 0 {
			r.mu.Lock()
			r.v.Label("unreliable-buffered-messages-drained-after-shutdown")
			r.mu.Unlock()
		}
		return ""
	}
	return "Read never reports end-of-stream"
}

func (r *c16Run) pendingList() []string {
	r.mu.Lock()
	defer r.mu.Unlock()
	var out []string
	for k := range r.pending {
		out = append(out, k)
	}
	sort.Strings(out)
	return out
}

func (r *c16Run) pendingKinds() string {
	r.mu.Lock()
	defer r.mu.Unlock()
	seen := map[string]bool{}
	for k := range r.pending {
		i := strings.Index(k, ":")
		j := strings.Index(k, "(")
		if i >= 0 && j > i {
			seen[k[i+1:j]] = true
		}
	}
	var out []string
	for k := range seen {
		out = append(out, k)
	}
	sort.Strings(out)
	return strings.Join(out, "+")
}

func c16RunFn(t *testing.T) func(c c16Case, v *vlib.Verdict) {
	return func(c c16Case, v *vlib.Verdict) {
		res := vlib.Bubble(t, 25*time.Second, func() { c16Scenario(c, v) })
		verifhook.Set(nil)
		if res.Hung {
			// The bubble froze: some goroutine waits for a mutex (not a durable block), so the virtual clock
			// cannot advance. Either an artifact (the holder is parked on the virtual clock) or a genuine lock
			// cycle. Decide by re-running the same case with real timers, outside any bubble.
			v2 := &vlib.Verdict{}
			done := make(chan struct{})
			c16Realtime.Store(true)
			go func() { defer close(done); c16Scenario(c, v2) }()
			select {
			case <-done:
			case <-time.After(300 * time.Second):
				v2.Failf("C16:deadlock", "scenario does not finish in real time either")
			}
			c16Realtime.Store(false)
			verifhook.Set(nil)
			*v = vlib.Verdict{Labels: []string{"bubble-froze:re-run-in-real-time"}}
			if !v2.OK() {
				frames := c16MutexWaiters(res.Stacks)
				v.Failf(v2.Violations[0].Sig+":confirmed-in-real-time", "%s [bubble froze; goroutines waiting for a mutex: %v]", v2.Violations[0].Detail, frames)
			} else {
				v.Inconclusive = "bubble froze (mutex held across a virtual-clock wait) but the case completes in real time"
			}
			return
		}
		if res.Panic != "" && !res.Leak() && !res.Deadlock() {
			v.Failf(vlib.PanicSig(res.Panic, res.Stacks), "panic in scenario: %s", res.Panic)
			return
		}
		if v.OK() && res.Leak() {
			v.Failf("C16:goroutine-leak:"+strings.Join(vlib.BlockedHopFrames(res.Stacks), ","), "after both muxers were stopped and 3 virtual minutes passed goroutines remain: %v", vlib.BlockedHopFrames(res.Stacks))
		}
		if v.OK() && res.Deadlock() {
			v.Failf("C16:deadlock:"+strings.Join(vlib.BlockedHopFrames(res.Stacks), ","), "all goroutines blocked with no timer pending: %v", vlib.BlockedHopFrames(res.Stacks))
		}
	}
}

var c16Realtime atomic.Bool

// c16MutexWaiters lists the hop frames of bubble goroutines blocked in sync.Mutex.Lock.
func c16MutexWaiters(stacks string) []string {
	var out []string
	for _, g := range strings.Split(stacks, "\n\n") {
		if !strings.Contains(g, "bubble") || !strings.Contains(strings.SplitN(g, "\n", 2)[0], "Mutex") {
			continue
		}
		for _, l := range strings.Split(g, "\n") {
			if strings.HasPrefix(l, "hop.computer/hop/") {
				if k := strings.Index(l, "(0x"); k > 0 {
					l = l[:k]
				}
				out = append(out, strings.TrimPrefix(l, "hop.computer/hop/"))
				break
			}
		}
	}
	sort.Strings(out)
	return out
}

func c16Gen(t *rapid.T) c16Case {
	var c c16Case
	c.Tubes = rapid.SliceOfN(rapid.Custom(func(t *rapid.T) c16Tube {
		return c16Tube{Rel: rapid.IntRange(0, 3).Draw(t, "rel") > 0, ByA: rapid.Bool().Draw(t, "byA")}
	}), 1, 3).Draw(t, "tubes")
	// one case in three has late tubes: not established beforehand but opened while the program runs, on the network
	// with its faults armed (tubes that are still being initiated - or never get initiated - when Close / Stop / the
	// forced close behind Stop happen)
	anyLate := false
	if rapid.IntRange(0, 2).Draw(t, "lateTubes") == 0 {
		for i := range c.Tubes {
			if rapid.Bool().Draw(t, "late") || (i == len(c.Tubes)-1 && !anyLate) {
				c.Tubes[i].Late = true
				c.Tubes[i].OpenMs = rapid.SampledFrom([]int{0, 0, 0, 1, 20, 400, 1500}).Draw(t, "openMs")
				anyLate = true
			}
		}
	}
	opGen := rapid.Custom(func(t *rapid.T) c16Op {
		op := c16Op{Side: rapid.IntRange(0, 1).Draw(t, "side"), Tube: rapid.IntRange(0, len(c.Tubes)-1).Draw(t, "tube")}
		op.Kind = rapid.SampledFrom([]int{0, 0, 1, 1, 2, 2, 2, 3, 4, 5, 6, 6}).Draw(t, "kind")
		switch op.Kind {
		case 0:
			// (0 and -1: zero-length writes, empty and nil slice)
			op.N = rapid.SampledFrom([]int{1, 100, 32768, 32769, 200000, 0, -1}).Draw(t, "n")
			if !c.Tubes[op.Tube].Rel && op.N > 32768 {
				op.N = 32768
			}
			if !c.Tubes[op.Tube].Rel && rapid.IntRange(0, 3).Draw(t, "via") == 0 {
				op.Via = 1
			}
		case 4:
			op.N = rapid.SampledFrom([]int{0, 100, 5000}).Draw(t, "dl")
		}
		op.DelayMs = rapid.SampledFrom([]int{0, 0, 0, 1, 20, 400, 1500}).Draw(t, "delay")
		return op
	})
	c.Procs = rapid.SliceOfN(rapid.SliceOfN(opGen, 1, 5), 2, 6).Draw(t, "procs")
	c.LossPct = rapid.SampledFrom([]int{0, 0, 10, 50, 100}).Draw(t, "loss")
	c.Seed = rapid.Uint64().Draw(t, "seed")
	c.DeadAtMs = rapid.SampledFrom([]int{-1, -1, -1, 0, 5, 300}).Draw(t, "deadAt")
	c.HealMs = rapid.SampledFrom([]int{0, 500, 3000, 20000}).Draw(t, "heal")
	c.FailSide = rapid.SampledFrom([]int{-1, -1, -1, 0, 1}).Draw(t, "failSide")
	c.FailAtMs = rapid.SampledFrom([]int{0, 1, 50, 400, 2000}).Draw(t, "failAt")
	c.FailClose = rapid.Bool().Draw(t, "failClose")
	c.TimeoutMs = rapid.SampledFrom([]int{0, 0, 2000, 30000}).Draw(t, "timeout")
	c.Yields = rapid.SliceOfN(rapid.Custom(func(t *rapid.T) c16Yield {
		if anyLate && rapid.Bool().Draw(t, "initPath") {
			// on the initiation / forced-close path, early visits, delays around the documented timers
			// (initial retransmission interval 333 ms, muxerTimeout 1 s)
			return c16Yield{Point: c16PointIndex(rapid.SampledFrom(c16InitPoints).Draw(t, "ipt")), Hit: rapid.IntRange(0, 2).Draw(t, "ihit"),
				Us: rapid.SampledFrom([]int{100, 400000, 1200000, 1200000}).Draw(t, "ius")}
		}
		return c16Yield{Point: rapid.IntRange(0, len(c16Points)-1).Draw(t, "pt"), Hit: rapid.IntRange(0, 5).Draw(t, "hit"), Us: rapid.SampledFrom([]int{0, 1, 100, 5000, 400000, 1200000}).Draw(t, "us")}
	}), 0, 6).Draw(t, "yields")
	for ti, tc := range c.Tubes {
		if tc.Late {
			continue
		}
		for side := 0; side < 2; side++ {
			cnt := rapid.SampledFrom([]int{0, 0, 0, 1, 2, 5, 20}).Draw(t, "preloadCount")
			if cnt == 0 {
				continue
			}
			n := rapid.SampledFrom([]int{1, 100, 3000}).Draw(t, "preloadN")
			if !tc.Rel && rapid.Bool().Draw(t, "preloadBig") {
				n = 32768
			}
			c.Preload = append(c.Preload, c16Pre{Tube: ti, Side: side, Count: cnt, N: n})
		}
	}
	// one case in four: late / duplicated copies of initiation datagrams, at drawn times or at drawn phases of a
	// Muxer.Stop (weight on the phase in which the queues are closed and the receiver still reads), half of them with
	// a slow reaper (closed tubes stay listed)
	if rapid.IntRange(0, 3).Draw(t, "replays") == 0 {
		c.Replays = rapid.SliceOfN(rapid.Custom(func(t *rapid.T) c16Replay {
			rp := c16Replay{To: rapid.IntRange(0, 1).Draw(t, "to"), Kind: rapid.SampledFrom([]int{0, 0, 1}).Draw(t, "rkind"),
				Which: rapid.IntRange(0, 5).Draw(t, "which")}
			rp.Point = rapid.SampledFrom([]int{3, 3, 3, 3, 2, 1, 0, 4, -1, -1, -1}).Draw(t, "rpoint")
			if rp.Point < 0 {
				rp.AtMs = rapid.SampledFrom([]int{0, 1, 20, 400, 1000, 1500, 3000}).Draw(t, "ratMs")
			} else {
				rp.Hit = rapid.IntRange(0, 2).Draw(t, "rhit")
				rp.ThenUs = rapid.SampledFrom([]int{0, 100, 5000, 400000}).Draw(t, "rthen")
			}
			return rp
		}), 1, 4).Draw(t, "replayList")
		if rapid.Bool().Draw(t, "slowReap") {
			c.SlowReapUs = rapid.SampledFrom([]int{5000, 400000, 1200000}).Draw(t, "slowReapUs")
		}
	}
	c.Graceful = rapid.IntRange(0, 2).Draw(t, "graceful") == 0
	if c.Graceful {
		c.DeadAtMs, c.FailSide, c.TimeoutMs = -1, -1, 0
		var closers []c16Op
		for pi := range c.Procs {
			for oi := range c.Procs[pi] {
				if c.Procs[pi][oi].Kind == 5 {
					c.Procs[pi][oi].Kind = 2
				}
			}
		}
		for ti := range c.Tubes {
			for side := 0; side < 2; side++ {
				closers = append(closers, c16Op{Side: side, Tube: ti, Kind: 2, DelayMs: rapid.SampledFrom([]int{0, 1, 20, 400, 1500, 5000}).Draw(t, "closeDelay")})
			}
		}
		// split the closers over two extra goroutines so the two ends race
		var p0, p1 []c16Op
		for i, op := range closers {
			if (i+int(c.Seed))%2 == 0 {
				p0 = append(p0, op)
			} else {
				p1 = append(p1, op)
			}
		}
		if len(p0) > 0 {
			c.Procs = append(c.Procs, p0)
		}
		if len(p1) > 0 {
			c.Procs = append(c.Procs, p1)
		}
	}
	return c
}

func TestVerifC16Programs(t *testing.T) {
	vQuiet()
	vlib.Drive(t, vlib.Spec[c16Case]{ID: "C16", Quick: 12000, Gen: c16Gen, Run: c16RunFn(t)})
}

func slicesSortedKeys(m map[string]bool) []string {
	var out []string
	for k := range m {
		out = append(out, k)
	}
	sort.Strings(out)
	return out
}
