//go:build go1.25

package tubes

// Shared fixtures of the tubes checks (C08, C09, C11, C16): quiet logging, a
// pair of muxers over vlib/memconn, bubble helpers.

import (
	"io"
	"sync"
	"time"

	"github.com/sirupsen/logrus"
	"verif.local/vlib/memconn"
)

var vQuietOnce sync.Once
var vQuietEntry *logrus.Entry

func vQuiet() *logrus.Entry {
	vQuietOnce.Do(func() {
		logrus.SetOutput(io.Discard)
		logrus.SetLevel(logrus.PanicLevel)
		l := logrus.New()
		l.SetOutput(io.Discard)
		l.SetLevel(logrus.PanicLevel)
		vQuietEntry = logrus.NewEntry(l)
	})
	return vQuietEntry
}

type vPair struct {
	Net    *memconn.Net
	MA, MB *Muxer // MA: client parity (odd ids), MB: server parity (even ids)
}

func vNewPair(ab, ba memconn.Params, timeout time.Duration) *vPair {
	n := memconn.New(ab, ba, 8192)
	p := &vPair{Net: n}
	p.MA = Client(n.A, &Config{Timeout: timeout, Log: vQuiet()})
	p.MB = Server(n.B, &Config{Timeout: timeout, Log: vQuiet()})
	return p
}

// vStopBoth stops both muxers concurrently and waits (virtual time) up to d.
// It returns false when a Stop call did not return in time.
func (p *vPair) vStopBoth(d time.Duration) bool {
	done := make(chan struct{}, 2)
	go func() { p.MA.Stop(); done <- struct{}{} }()
	go func() { p.MB.Stop(); done <- struct{}{} }()
	tm := time.NewTimer(d)
	defer tm.Stop()
	for i := 0; i < 2; i++ {
		select {
		case <-done:
		case <-tm.C:
			return false
		}
	}
	return true
}

func vHealOf(ps ...memconn.Params) time.Duration {
	var h int64
	for _, p := range ps {
		if p.HealMs > h {
			h = p.HealMs
		}
		for _, o := range p.Outages {
			if o[1] > h {
				h = o[1]
			}
		}
	}
	return time.Duration(h) * time.Millisecond
}
