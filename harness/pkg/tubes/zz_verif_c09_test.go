//go:build go1.25

package tubes

// C09 — tubes are isolated from each other and from earlier tubes with the same id.

import (
	"bytes"
	"encoding/binary"
	"errors"
	"fmt"
	"io"
	"os"
	"strings"
	"sync"
	"testing"
	"time"

	"pgregory.net/rapid"
	"verif.local/vlib"
	"verif.local/vlib/memconn"
)

type c09Gen struct {
	Type  int   `json:"type"`
	Body  int   `json:"body"`  // reliable: bytes written by the creator
	Reply int   `json:"reply"` // reliable: bytes written back by the acceptor
	Msgs  []int `json:"msgs"`  // unreliable: message sizes (>= header size unless 0)
	Seed  uint64 `json:"seed"`
	GapMs int   `json:"gap"` // pause before this generation
}

type c09Worker struct {
	Side int      `json:"side"` // 0 = A (odd ids), 1 = B (even ids)
	Rel  bool     `json:"rel"`
	Gens []c09Gen `json:"gens"`
}

type c09Case struct {
	Workers []c09Worker    `json:"workers"`
	AB      memconn.Params `json:"ab"`
	BA      memconn.Params `json:"ba"`
	Late    bool           `json:"late"` // late-arrival regime: packets may outlive their tube (jitter up to seconds)
}

const c09Hdr = 32

func c09Header(side, worker, gen, typ int, rel bool, idx, ln, reply int, seed uint64) []byte {
	h := make([]byte, c09Hdr)
	copy(h, "C09!")
	h[4], h[5], h[6], h[7] = byte(side), byte(worker), byte(gen), byte(typ)
	if rel {
		h[8] = 1
	}
	binary.BigEndian.PutUint32(h[12:], uint32(idx))
	binary.BigEndian.PutUint32(h[16:], uint32(ln))
	binary.BigEndian.PutUint32(h[20:], uint32(reply))
	binary.BigEndian.PutUint64(h[24:], seed)
	return h
}

type c09H struct {
	side, worker, gen, typ int
	rel                    bool
	idx, ln, reply         int
	seed                   uint64
}

func c09Parse(h []byte) (c09H, bool) {
	if len(h) < c09Hdr || string(h[:4]) != "C09!" {
		return c09H{}, false
	}
	return c09H{side: int(h[4]), worker: int(h[5]), gen: int(h[6]), typ: int(h[7]), rel: h[8] == 1,
		idx: int(binary.BigEndian.Uint32(h[12:])), ln: int(binary.BigEndian.Uint32(h[16:])), reply: int(binary.BigEndian.Uint32(h[20:])),
		seed: binary.BigEndian.Uint64(h[24:])}, true
}

func c09Msg(side, worker, gen, typ, idx, n int, seed uint64) []byte {
	if n < c09Hdr {
		n = c09Hdr
	}
	m := c09Header(side, worker, gen, typ, false, idx, n, 0, seed)
	return append(m, vlib.Fill(seed^uint64(idx*7919+1), n-c09Hdr)...)
}

type c09Run struct {
	c      c09Case
	v      *vlib.Verdict
	mu     sync.Mutex
	p      *vPair
	live   [2][2]map[byte]c09Live // [side][rel] ids of locally created tubes that are not closed yet
	seen   map[string]int        // incarnation -> times offered by Accept
	opened map[string]bool       // reliable incarnations whose creator got as far as writing the header
	idOf   map[string]byte       // incarnation -> the tube id its creator was given
	bornOf map[string]time.Duration // incarnation -> when its creation began
	shut   map[byte]c09Shut         // reliable tube id -> when its last locally created incarnation finished closing, and its RTT then
	prevOf map[string]c09Shut       // incarnation -> the closing of its predecessor on the same id, as known when it was created
	early  string                   // set when a reliable identifier was handed out again well inside the reaper's quarantine
	born   map[byte][]time.Duration // tube id -> times (since the network started) at which its incarnations began to be created
	pkts   map[byte][]c09Pkt        // tube id -> every packet that carried it: when sent, when its copies are delivered
	ended  map[byte][]time.Duration // tube id -> times at which its incarnations finished closing on the creating side
	resps  [2][][]byte              // [direction] the distinct answers to open requests (RESP datagrams) that travelled in that direction
	wg     sync.WaitGroup
}

var c09Verbose = os.Getenv("VERIF_VERBOSE") != ""

type c09Shut struct {
	at  time.Duration
	rtt time.Duration
	key string
}

type c09Pkt struct {
	sent time.Duration
	dlv  []time.Duration
	dir  int  // 0: A -> B
	req  bool // REQ flag set, REL flag set (open request of a reliable tube)
}

// reqDelivered: an open request for reliable tube id that was sent by side while this incarnation held the id (from
// its creation until the id's next incarnation began to be created) reached the other side.
func (r *c09Run) reqDelivered(side int, id byte, born time.Duration) bool {
	next := time.Duration(1<<62 - 1)
	for _, b := range r.born[id] {
		if b > born && b < next {
			next = b
		}
	}
	for _, p := range r.pkts[id] {
		if p.req && p.dir == side && p.sent >= born && p.sent < next && len(p.dlv) > 0 {
			return true
		}
	}
	return false
}

// crossed: some packet carrying tube id outlived its incarnation - it was sent before an incarnation of the id began
// to be created, or before one finished closing on its creating side, and was (also) delivered after that moment (and
// before now). Frames carry no incarnation number: such a packet re-creates a tube object on the accepting side (a late
// copy of the open request), parks in the reorder heap of whatever object holds the id (a late FIN), or is taken
// for a frame of the successor - the id's state is polluted from then on, whichever incarnation shows the symptom.
func (r *c09Run) crossed(id byte) (string, bool) {
	now := r.p.Net.Elapsed()
	r.mu.Lock()
	defer r.mu.Unlock()
	marks := append(append([]time.Duration{}, r.born[id]...), r.ended[id]...)
	for _, b := range marks {
		for _, p := range r.pkts[id] {
			if p.sent >= b {
				continue
			}
			for _, d := range p.dlv {
				if d >= b && d <= now {
					return fmt.Sprintf("a packet for id %d sent at %v was delivered at %v, across the creation / the end (on the creating side) of an incarnation of that id at %v", id, p.sent, d, b), true
				}
			}
		}
	}
	return "", false
}

// source finds the incarnation whose creator (or acceptor) wrote the given bytes: by their header if they start with
// one, else by looking the first bytes up in everything any incarnation of the case writes (keyed streams).
func (r *c09Run) source(b []byte) (string, bool) {
	if h, ok := c09Parse(b); ok {
		return c09Key(h.side, h.worker, h.gen), true
	}
	if len(b) < 12 {
		return "", false
	}
	probe := b
	if len(probe) > 24 {
		probe = probe[:24]
	}
	for wi, w := range r.c.Workers {
		for gi, g := range w.Gens {
			key := c09Key(w.Side, wi, gi)
			if w.Rel {
				if bytes.Contains(vlib.Fill(g.Seed, g.Body), probe) || bytes.Contains(vlib.Fill(g.Seed+1, g.Reply), probe) {
					return key, true
				}
				continue
			}
			for mi, n := range g.Msgs {
				if bytes.Contains(c09Msg(w.Side, wi, gi, g.Type, mi, n, g.Seed), probe) {
					return key, true
				}
			}
		}
	}
	return "", false
}

// failContent reports content that does not belong on the tube with identifier id (expected: incarnation expect).
// When the content is proven to stem from ANOTHER incarnation that held the SAME identifier, the signature names that
// root cause (tube frames carry no incarnation) whatever the symptom; content of a tube with another identifier, and
// content nobody wrote, keep symptom-shaped signatures.
func (r *c09Run) failContent(sym string, rel bool, id byte, expect string, foreign []byte, whole [][]byte, f string, a ...any) {
	class := "unreliable"
	if rel {
		class = "reliable"
	}
	src, ok := r.source(foreign)
	if (!ok || src == expect) && len(whole) > 0 {
		// the foreign part may begin inside a header that happens to share its first bytes with the expected one
		src, ok = r.source(whole[0])
	}
	if ok && src != expect {
		r.mu.Lock()
		sid, known := r.idOf[src]
		r.mu.Unlock()
		if known && sid == id {
			r.fail("C09:incarnations-of-one-id-confused:"+class, "[%s; written by %s, which held id %d too] "+f, append([]any{sym, src, id}, a...)...)
			return
		}
		if known {
			r.fail("C09:content-of-a-tube-with-another-id:"+class, "[%s; written by %s on tube id %d, delivered on id %d] "+f, append([]any{sym, src, sid, id}, a...)...)
			return
		}
	}
	if why, ok := r.crossed(id); ok {
		r.fail("C09:incarnations-of-one-id-confused:"+class, "[%s; %s] "+f, append([]any{sym, why}, a...)...)
		return
	}
	if os.Getenv("VERIF_VERBOSE") != "" {
		n := len(foreign)
		if n > 64 {
			n = 64
		}
		fmt.Printf("C09-DEBUG sym=%s id=%d expect=%s src=%q ok=%v foreign[%d]=%x\n", sym, id, expect, src, ok, len(foreign), foreign[:n])
	}
	r.fail(sym, f, a...)
}

func c09Diff(got, want []byte) int {
	for i := range got {
		if i >= len(want) || got[i] != want[i] {
			return i
		}
	}
	return len(got)
}

type c09Live struct {
	key string
	tb  Tube
}

// c09Closed: WaitForClose on the tube would return at once (the muxer's reaper may then already have released the id).
func c09Closed(tb Tube) bool {
	var a, b chan struct{}
	switch t := tb.(type) {
	case *Reliable:
		a, b = t.closed, t.initDone
	case *Unreliable:
		a, b = t.closed, t.initiateDone
	}
	select {
	case <-a:
		select {
		case <-b:
			return true
		default:
		}
	default:
	}
	return false
}

func (r *c09Run) fail(sig, f string, a ...any) {
	r.mu.Lock()
	defer r.mu.Unlock()
	if r.v.OK() {
		if r.early != "" && strings.HasPrefix(sig, "C09:") {
			// whatever shows in a case where this happened is not the open protocol-level finding (which presupposes
			// that the quarantine was observed and was merely too short for the network)
			r.v.Failf(sig+":identifier-reused-within-quarantine", "["+r.early+"] "+f, a...)
			return
		}
		if r.c.Late && strings.HasPrefix(sig, "C09:") {
			// packets may outlive their tube by seconds in this regime: frames carry no incarnation, so what
			// fails here is a different (protocol-level) root cause than the same symptom in the bounded regime
			sig += ":late-arrival-regime"
		}
		r.v.Failf(sig, f, a...)
	}
}

// failRegimeFree reports a violation of a clause that holds whatever the network does (no regime qualifier, no
// attribution by history): nothing the network can do to the packets of honest muxers makes the clause fail.
func (r *c09Run) failRegimeFree(sig, f string, a ...any) {
	r.mu.Lock()
	defer r.mu.Unlock()
	if r.v.OK() {
		r.v.Failf(sig, f, a...)
	}
}

func c09Key(side, worker, gen int) string { return fmt.Sprintf("s%d.w%d.g%d", side, worker, gen) }

func (r *c09Run) creator(wi int, w c09Worker) {
	defer r.wg.Done()
	m := r.p.MA
	if w.Side == 1 {
		m = r.p.MB
	}
	relIdx := 0
	if w.Rel {
		relIdx = 1
	}
	for gi, g := range w.Gens {
		if g.GapMs > 0 {
			time.Sleep(time.Duration(g.GapMs) * time.Millisecond)
		}
		if !r.v.OK() {
			return
		}
		var tb Tube
		var err error
		bornAt := r.p.Net.Elapsed()
		if w.Rel {
			tb, err = m.CreateReliableTube(TubeType(g.Type))
		} else {
			tb, err = m.CreateUnreliableTube(TubeType(g.Type))
		}
		if err != nil {
			return
		}
		id := tb.GetID()
		key := c09Key(w.Side, wi, gi)
		r.mu.Lock()
		// (the holder's own bookkeeping below may lag behind the muxer's reaper: what counts is whether its tube is closed)
		if other, dup := r.live[w.Side][relIdx][id]; dup && !c09Closed(other.tb) {
			r.mu.Unlock()
			r.fail("C09:duplicate-local-id", "%s got tube id %d (reliable=%v) while %s still holds it (its tube is not closed)", key, id, w.Rel, other.key)
			return
		}
		r.live[w.Side][relIdx][id] = c09Live{key, tb}
		r.idOf[key] = id
		r.born[id] = append(r.born[id], bornAt)
		if c09Verbose {
			fmt.Printf("C09-BORN %s id=%d at=%v rel=%v\n", key, id, bornAt, w.Rel)
		}
		r.bornOf[key] = bornAt
		if sh, ok := r.shut[id]; ok && w.Rel {
			r.prevOf[key] = sh
		}
		if sh, ok := r.shut[id]; ok && w.Rel && r.early == "" && r.p.Net.Elapsed()-sh.at < 2*sh.rtt {
			// the muxer keeps a locally opened reliable tube's identifier for 4 x RTT after it closed (reapTube); half of
			// that is taken here so that the classification never depends on rounding
			r.early = fmt.Sprintf("id %d of %s (closed at %v, RTT %v) was handed out again for %s at %v", id, sh.key, sh.at, sh.rtt, key, r.p.Net.Elapsed())
		}
		r.mu.Unlock()
		wantParity := byte(1 - w.Side) // A is the client muxer (odd ids), B the server muxer (even ids)
		if id%2 != wantParity {
			r.fail("C09:wrong-id-parity", "%s: side %d created tube id %d", key, w.Side, id)
			return
		}
		if w.Rel {
			rt := tb.(*Reliable)
			stream := append(c09Header(w.Side, wi, gi, g.Type, true, 0, g.Body, g.Reply, g.Seed), vlib.Fill(g.Seed, g.Body)...)
			r.mu.Lock()
			r.opened[key] = true
			r.mu.Unlock()
			rt.Write(stream)
			// read the acceptor's reply: header echo + keyed bytes
			want := append(c09Header(w.Side, wi, gi, g.Type, true, 1, g.Reply, 0, g.Seed), vlib.Fill(g.Seed+1, g.Reply)...)
			got := make([]byte, len(want))
			rt.SetReadDeadline(time.Now().Add(90 * time.Second))
			n, err := io.ReadFull(rt, got)
			if n > 0 && !bytes.Equal(got[:n], want[:n]) {
				d := c09Diff(got[:n], want)
				r.failContent("C09:foreign-bytes-on-reliable-tube:creator-side", true, id, key, got[d:n], [][]byte{got[:n]}, "%s (id %d): reply bytes are not what the acceptor of this incarnation wrote (from offset %d: %s)", key, id, d, c09Whose(got[d:n]))
				return
			}
			_ = err
			rt.Close()
		} else {
			ut := tb.(*Unreliable)
			for mi, n := range g.Msgs {
				msg := c09Msg(w.Side, wi, gi, g.Type, mi, n, g.Seed)
				k, err := ut.Write(msg)
				if err == nil && k != len(msg) {
					r.fail("C09:unreliable-write-short-count", "%s: Write of %d bytes returned (%d, nil)", key, len(msg), k)
					return
				}
			}
			time.Sleep(30 * time.Millisecond)
			ut.Close()
		}
		// the id becomes reusable once the tube has finished closing
		closed := make(chan struct{})
		go func() { tb.WaitForClose(); close(closed) }()
		didClose := false
		select {
		case <-closed:
			didClose = true
		case <-time.After(60 * time.Second):
		}
		var rtt time.Duration
		if rt, ok := tb.(*Reliable); ok && didClose {
			rt.l.Lock()
			rtt = rt.sender.RTT
			rt.l.Unlock()
		}
		r.mu.Lock()
		if didClose {
			r.ended[id] = append(r.ended[id], r.p.Net.Elapsed())
		}
		if w.Rel && didClose {
			r.shut[id] = c09Shut{r.p.Net.Elapsed(), rtt, key}
		}
		if cur, ok := r.live[w.Side][relIdx][id]; ok && cur.key == key {
			delete(r.live[w.Side][relIdx], id)
		}
		r.mu.Unlock()
	}
}

func c09Whose(b []byte) string {
	if h, ok := c09Parse(b); ok {
		return fmt.Sprintf("they carry the header of %s", c09Key(h.side, h.worker, h.gen))
	}
	return "no recognisable header"
}

func (r *c09Run) acceptor(side int) {
	m := r.p.MA
	if side == 1 {
		m = r.p.MB
	}
	for {
		tb, err := m.Accept()
		if err != nil {
			return
		}
		r.wg.Add(1)
		go r.handle(side, tb)
	}
}

func (r *c09Run) handle(side int, tb Tube) {
	defer r.wg.Done()
	defer tb.Close()
	// "each REMOTELY opened tube is offered": a tube handed out by Accept on a side was opened by the other side, so it
	// carries an identifier of the OTHER side's parity (A, the client muxer, opens the odd identifiers and is offered even
	// ones). Regime-independent: a muxer only ever receives what its peer sent, open requests carry the opener's
	// parity, and loss, duplication, delay and reordering change neither.
	if tb.GetID()%2 != byte(side) {
		r.failRegimeFree("C09:accepted-tube-carries-the-acceptors-own-parity:"+c11Class(tb), "Accept on side %d handed out %s tube id %d (type %d): identifiers of that parity are opened by side %d itself, its peer never opens them", side, c11Class(tb), tb.GetID(), tb.Type(), side)
		return
	}
	if rt, ok := tb.(*Reliable); ok {
		rt.SetReadDeadline(time.Now().Add(90 * time.Second))
		hb := make([]byte, c09Hdr)
		if _, err := io.ReadFull(rt, hb); err != nil {
			return
		}
		h, ok := c09Parse(hb)
		if !ok {
			r.failContent("C09:foreign-bytes-on-reliable-tube:no-header", true, tb.GetID(), "", hb, nil, "accepted reliable tube id %d starts with bytes nobody wrote as a stream start", tb.GetID())
			return
		}
		key := c09Key(h.side, h.worker, h.gen)
		r.mu.Lock()
		r.seen[key]++
		n := r.seen[key]
		r.mu.Unlock()
		if n > 1 {
			r.fail("C09:tube-offered-twice:reliable", "incarnation %s was offered by Accept %d times", key, n)
			return
		}
		if !h.rel || int(tb.Type()) != h.typ || h.side == side {
			r.fail("C09:accepted-tube-differs-from-opened:reliable", "incarnation %s opened as (reliable, type %d) by side %d was accepted as (reliable=%v, type %d) on side %d", key, h.typ, h.side, tb.IsReliable(), tb.Type(), side)
			return
		}
		body := make([]byte, h.ln)
		k, _ := io.ReadFull(rt, body)
		if want := vlib.Fill(h.seed, h.ln); !bytes.Equal(body[:k], want[:k]) {
			d := c09Diff(body[:k], want)
			r.failContent("C09:foreign-bytes-on-reliable-tube:acceptor-side", true, tb.GetID(), key, body[d:k], nil, "incarnation %s (id %d): body bytes are not what its creator wrote (from offset %d: %s)", key, tb.GetID(), d, c09Whose(body[d:k]))
			return
		}
		if k < h.ln {
			return
		}
		rt.Write(append(c09Header(h.side, h.worker, h.gen, h.typ, true, 1, h.reply, 0, h.seed), vlib.Fill(h.seed+1, h.reply)...))
		// nothing else may arrive before end-of-stream
		extra := make([]byte, 256)
		if k, err := rt.Read(extra); k > 0 {
			r.failContent("C09:foreign-bytes-on-reliable-tube:after-body", true, tb.GetID(), key, extra[:k], nil, "incarnation %s (id %d): %d extra bytes after the complete body (%s), err %v", key, tb.GetID(), k, c09Whose(extra[:k]), err)
		}
		return
	}
	ut := tb.(*Unreliable)
	var first *c09H
	buf := make([]byte, 70000)
	for {
		ut.SetReadDeadline(time.Now().Add(3 * time.Second))
		n, err := ut.ReadMsg(buf)
		if err != nil {
			if errors.Is(err, os.ErrDeadlineExceeded) || err == io.EOF {
				return
			}
			return
		}
		if n == 0 {
			r.fail("C09:unreliable-delivers-unwritten-message:empty", "unreliable tube id %d delivered an empty message; no empty message was ever written", tb.GetID())
			return
		}
		h, ok := c09Parse(buf[:n])
		if !ok {
			r.failContent("C09:unreliable-delivers-unwritten-message:fragment-or-garbage", false, tb.GetID(), "", buf[:n], nil, "unreliable tube id %d delivered %d bytes without a message header", tb.GetID(), n)
			return
		}
		key := c09Key(h.side, h.worker, h.gen)
		if h.ln != n || !bytes.Equal(buf[:n], c09Msg(h.side, h.worker, h.gen, h.typ, h.idx, h.ln, h.seed)) {
			r.fail("C09:unreliable-delivers-unwritten-message:fragment-or-altered", "unreliable tube id %d delivered %d bytes that are not a whole message of %s (header says %d bytes)", tb.GetID(), n, key, h.ln)
			return
		}
		if first == nil {
			hh := h
			first = &hh
			r.mu.Lock()
			r.seen[key]++
			cnt := r.seen[key]
			r.mu.Unlock()
			if cnt > 1 {
				r.fail("C09:tube-offered-twice:unreliable", "incarnation %s was offered by Accept %d times", key, cnt)
				return
			}
			if h.rel || int(tb.Type()) != h.typ || h.side == side {
				r.fail("C09:accepted-tube-differs-from-opened:unreliable", "incarnation %s opened as (unreliable, type %d) was accepted as (reliable=%v, type %d)", key, h.typ, tb.IsReliable(), tb.Type())
				return
			}
		} else if h.side != first.side || h.worker != first.worker || h.gen != first.gen {
			kind := "other-tube"
			if h.side == first.side && h.worker == first.worker {
				kind = "other-incarnation-of-the-same-worker"
			}
			r.failContent("C09:unreliable-delivers-foreign-message:"+kind, false, tb.GetID(), c09Key(first.side, first.worker, first.gen), buf[:n], nil, "the unreliable tube (id %d) accepted for %s delivered a message written on %s", tb.GetID(), c09Key(first.side, first.worker, first.gen), key)
			return
		}
	}
}

func c09Scenario(c c09Case, v *vlib.Verdict) {
	r := &c09Run{c: c, v: v, seen: map[string]int{}, opened: map[string]bool{}, idOf: map[string]byte{}, bornOf: map[string]time.Duration{}, shut: map[byte]c09Shut{}, prevOf: map[string]c09Shut{}, born: map[byte][]time.Duration{}, pkts: map[byte][]c09Pkt{}, ended: map[byte][]time.Duration{}}
	for s := 0; s < 2; s++ {
		for k := 0; k < 2; k++ {
			r.live[s][k] = map[byte]c09Live{}
		}
	}
	r.p = vNewPair(c.AB, c.BA, 0)
	r.p.Net.OnSend = func(dir int, pkt []byte, sent time.Duration, dlv []time.Duration) {
		if len(pkt) == 0 || len(dlv) == 0 {
			return
		}
		r.mu.Lock()
		r.pkts[pkt[0]] = append(r.pkts[pkt[0]], c09Pkt{sent, dlv, dir, len(pkt) > 1 && pkt[1]&1 != 0 && pkt[1]&4 != 0})
		if len(pkt) > 1 && pkt[1]&(1<<RESPIdx) != 0 && pkt[1]&(1<<REQIdx) == 0 && len(r.resps[dir]) < 64 {
			known := false
			for _, o := range r.resps[dir] {
				known = known || bytes.Equal(o, pkt)
			}
			if !known {
				r.resps[dir] = append(r.resps[dir], append([]byte(nil), pkt...))
			}
		}
		r.mu.Unlock()
		if c09Verbose && len(pkt) >= 12 {
			fmt.Printf("C09-PKT id=%d dir=%d sent=%v dlv=%v meta=%06b len=%d w4_8=%x w8_12=%x\n", pkt[0], dir, sent, dlv, pkt[1], len(pkt), pkt[4:8], pkt[8:12])
		}
	}
	go r.acceptor(0)
	go r.acceptor(1)
	for wi, w := range c.Workers {
		r.wg.Add(1)
		go r.creator(wi, w)
	}
	done := make(chan struct{})
	go func() { r.wg.Wait(); close(done) }()
	cut := false
	select {
	case <-done:
	case <-time.After(10 * time.Minute):
		v.Label("scenario-cut-after-10-virtual-minutes")
		cut = true
	}
	// Last act, when every worker is done (nothing is created afterwards, so the histories judged above and their
	// attribution are not touched): the network delivers one more copy of each answer to an open request (RESP) that
	// travelled during the case - a duplicate that outlived its tube, which by now is closed and, mostly, reaped. A muxer
	// must not take such a datagram for a request: nothing may come out of Accept because of it (the clause at the top
	// of handle judges whatever does).
	if v.OK() && !cut {
		r.mu.Lock()
		resps := r.resps
		r.mu.Unlock()
		if len(resps[0])+len(resps[1]) > 0 {
			time.Sleep(2 * time.Second) // identifiers of the last tubes leave their quarantine (4 x RTT)
			for _, pkt := range resps[0] {
				r.p.Net.B.Inject(pkt)
			}
			for _, pkt := range resps[1] {
				r.p.Net.A.Inject(pkt)
			}
			time.Sleep(time.Second)
			v.Label("stale-duplicates-of-handshake-answers-delivered")
		}
	}
	// (a datagram that arrives truncated is a lost datagram to a correct receiver: the frame is shorter than its own
	// length field says, or than a header, and is dropped; the network log lists whole deliveries only)
	faithful := c.AB.LossPct == 0 && c.BA.LossPct == 0 && len(c.AB.Outages) == 0 && len(c.BA.Outages) == 0 && c.AB.BurstLen == 0 && c.BA.BurstLen == 0 && c.AB.TruncPm == 0 && c.BA.TruncPm == 0
	// every reliable incarnation that was opened and whose open request reached the other side (network log) must
	// have been offered by Accept there - whatever the loss pattern
	r.mu.Lock()
	never := ""
	if v.OK() {
		for key := range r.opened {
			if r.seen[key] != 0 || (never != "" && key > never) {
				continue
			}
			var side int
			fmt.Sscanf(key, "s%d.", &side)
			if r.reqDelivered(side, r.idOf[key], r.bornOf[key]) {
				never = key
			}
		}
	}
	r.mu.Unlock()
	if never != "" {
		// in the late-arrival regime this is one more face of the open finding (the predecessor's tube object, kept alive
		// by frames that arrive seconds late, answers the successor's open request); in the bounded regime nothing is
		// listed: a reaper that releases identifiers too early shows exactly here
		sig := "C09:tube-never-offered"
		if !faithful {
			sig += ":lossy-network"
		}
		r.mu.Lock()
		pv, born := r.prevOf[never], r.bornOf[never]
		r.mu.Unlock()
		r.fail(sig, "reliable incarnation %s (id %d, created at %v) was opened and written, its open request reached the other side, but it was never offered by Accept there; predecessor on this id: %s, closed on the opening side at %v with RTT %v (identifier kept for 4 x RTT)", never, r.idOf[never], born, pv.key, pv.at, pv.rtt)
	}
	// classification
	reuse, concurrent := false, len(c.Workers) >= 2
	for _, w := range c.Workers {
		if len(w.Gens) >= 2 {
			reuse = true
		}
	}
	v.NonTrivial = concurrent || reuse
	if reuse {
		v.Label("identifier-reuse")
	}
	if concurrent {
		v.Label("concurrent-tubes")
	}
	if c.Late {
		v.Label("late-arrival-regime")
	} else {
		v.Label("bounded-regime")
	}
	if faithful {
		v.Label("loss-free")
	}
	if r.p.Net.Stats.Truncated[0]+r.p.Net.Stats.Truncated[1] > 0 {
		v.Label("datagrams-delivered-truncated")
	}
	r.p.vStopBoth(30 * time.Second)
	time.Sleep(3 * time.Minute)
}

func c09RunFn(t *testing.T) func(c c09Case, v *vlib.Verdict) {
	return func(c c09Case, v *vlib.Verdict) {
		res := vlib.Bubble(t, 60*time.Second, func() { c09Scenario(c, v) })
		if res.Hung {
			v.Inconclusive = "bubble hung in real time (C09)"
			return
		}
		if res.Panic != "" && !res.Leak() && !res.Deadlock() {
			v.Failf(vlib.PanicSig(res.Panic, res.Stacks), "panic in scenario: %s", res.Panic)
		}
	}
}

func c09GenCase(t *rapid.T) c09Case {
	var c c09Case
	c.Late = rapid.IntRange(0, 3).Draw(t, "late") == 0
	mk := func(label string) memconn.Params {
		p := memconn.Params{Seed: rapid.Uint64().Draw(t, label+"seed"), HealMs: -1}
		p.LossPct = rapid.SampledFrom([]int{0, 0, 5, 20}).Draw(t, label+"loss")
		p.DupPct = rapid.SampledFrom([]int{0, 0, 20}).Draw(t, label+"dup")
		p.DelayMs = rapid.SampledFrom([]int{0, 1, 5, 50}).Draw(t, label+"delay")
		if c.Late {
			p.JitterMs = rapid.SampledFrom([]int{50, 500, 3000}).Draw(t, label+"jitter")
		}
		return p
	}
	c.AB, c.BA = mk("ab"), mk("ba")
	// fault (one case in three, both regimes): now and then a datagram arrives with its last 1..4 bytes missing - rare
	// per packet (0.5-6 %, per direction). To a correct receiver that is a lost datagram; nothing foreign or altered may
	// be delivered because of it, and every clause stays as it is.
	if rapid.IntRange(0, 2).Draw(t, "truncated") == 0 {
		for _, p := range []*memconn.Params{&c.AB, &c.BA} {
			if pm := rapid.SampledFrom([]int{0, 5, 20, 60}).Draw(t, "truncpm"); pm > 0 {
				p.TruncPm, p.TruncMax = pm, 4
			}
		}
	}
	sizes := []int{c09Hdr, c09Hdr + 1, 100, 1000, int(MaxFrameDataLength) - 1, int(MaxFrameDataLength), int(MaxFrameDataLength) + 1, 65535, 65536, 65636}
	c.Workers = rapid.SliceOfN(rapid.Custom(func(t *rapid.T) c09Worker {
		w := c09Worker{Side: rapid.IntRange(0, 1).Draw(t, "side"), Rel: rapid.Bool().Draw(t, "rel")}
		w.Gens = rapid.SliceOfN(rapid.Custom(func(t *rapid.T) c09Gen {
			g := c09Gen{Type: rapid.IntRange(0, 255).Draw(t, "type"), Seed: rapid.Uint64().Draw(t, "seed")}
			g.GapMs = rapid.SampledFrom([]int{0, 0, 1, 30, 500}).Draw(t, "gap")
			if w.Rel {
				g.Body = rapid.SampledFrom([]int{0, 1, 500, 40000, 100000}).Draw(t, "body")
				g.Reply = rapid.SampledFrom([]int{0, 10, 40000}).Draw(t, "reply")
			} else {
				g.Msgs = rapid.SliceOfN(rapid.SampledFrom(sizes), 1, 5).Draw(t, "msgs")
				if vlib.KnownOpen("C09:unreliable-delivers-unwritten-message:fragment-or-garbage") {
					for i := range g.Msgs {
						if g.Msgs[i] > 65535 {
							g.Msgs[i] = 65535
						}
					}
				}
			}
			return g
		}), 1, 4).Draw(t, "gens")
		return w
	}), 1, 6).Draw(t, "workers")
	return c
}

func TestVerifC09Tubes(t *testing.T) {
	vQuiet()
	vlib.Drive(t, vlib.Spec[c09Case]{ID: "C09", Quick: 12000, Gen: c09GenCase, Run: c09RunFn(t)})
}
