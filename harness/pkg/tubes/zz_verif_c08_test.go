//go:build go1.25

package tubes

// C08 — reliable tubes deliver the written byte stream in order, intact and
// complete, under any packet-level fault schedule that eventually heals.

import (
	"bytes"
	"encoding/binary"
	"fmt"
	"io"
	"os"
	"sort"
	"sync"
	"testing"
	"time"

	"pgregory.net/rapid"
	"verif.local/vlib"
	"verif.local/vlib/memconn"
)

type c08Write struct {
	N       int `json:"n"`
	PauseMs int `json:"pause"`
}

type c08Case struct {
	AB        memconn.Params `json:"ab"`
	BA        memconn.Params `json:"ba"`
	WritesA   []c08Write     `json:"wa"`
	WritesB   []c08Write     `json:"wb"`
	SeedA     uint64         `json:"sa"`
	SeedB     uint64         `json:"sb"`
	CloserA   bool           `json:"closerA"`
	ReadChunk int            `json:"rchunk"`
	// Regime names the generator family ("" = fault schedules that heal, few writes around the frame limit;
	// "small-writes" = long-lived tube, hundreds of writes below a size cap, loss-free link that keeps duplicating).
	// It only labels the case: the scenario and the oracle are the same for every regime.
	Regime  string `json:"regime,omitempty"`
	SizeCap int    `json:"sizecap,omitempty"`
}

const c08Bound = 10 * time.Minute

type c08Side struct {
	name     string
	tube     *Reliable
	expect   []byte // what this side must READ (the peer's stream)
	stream   []byte // what this side WRITES
	writes   []c08Write
	got      int
	eof      bool
	readErr  error
	writeErr error
	wrote    int
	bad      string
}

func c08Total(ws []c08Write) int {
	n := 0
	for _, w := range ws {
		n += w.N
	}
	return n
}

func c08Run(t *testing.T) func(c c08Case, v *vlib.Verdict) {
	return func(c c08Case, v *vlib.Verdict) {
		res := vlib.Bubble(t, 60*time.Second, func() { c08Scenario(c, v) })
		if res.Hung {
			v.Inconclusive = "bubble hung in real time (C08)"
			v.Note = firstLines(res.Stacks, 60)
			return
		}
		if res.Panic != "" && !res.Leak() && !res.Deadlock() {
			v.Failf(vlib.PanicSig(res.Panic, res.Stacks), "panic in scenario: %s", res.Panic)
			return
		}
		if res.Leak() && v.OK() {
			v.Label("leak-after-scenario(not judged here, see C16)")
		}
		if res.Deadlock() && v.OK() {
			v.Failf("C08:stall:all-goroutines-blocked", "every goroutine of the scenario is blocked with no timer pending: %v", vlib.BlockedHopFrames(res.Stacks))
		}
	}
}

func firstLines(s string, n int) string {
	k := 0
	for i := range s {
		if s[i] == '\n' {
			k++
			if k >= n {
				return s[:i]
			}
		}
	}
	return s
}

func c08Scenario(c c08Case, v *vlib.Verdict) {
	p := vNewPair(c.AB, c.BA, 0)
	// network log of every acknowledgement-bearing frame (ACK flag, not an open request / response), per direction:
	// used only to ATTRIBUTE a violation to its root cause by the history that preceded it (see c08MaxDupAckRun)
	var ackMu sync.Mutex
	var ackLog [2][]c08Ack
	verbose := os.Getenv("VERIF_VERBOSE") != ""
	p.Net.OnSend = func(dir int, pkt []byte, sent time.Duration, dlv []time.Duration) {
		if len(pkt) < 12 {
			return
		}
		if verbose {
			fmt.Printf("C08-PKT dir=%d sent=%v dlv=%v flags=%06b len=%d ack=%d frame=%d\n", dir, sent, dlv, pkt[1], len(pkt)-12, binary.BigEndian.Uint32(pkt[4:8]), binary.BigEndian.Uint32(pkt[8:12]))
		}
		if pkt[1]&(1<<ACKIdx) == 0 || pkt[1]&(1<<REQIdx|1<<RESPIdx) != 0 {
			return
		}
		ackMu.Lock()
		for _, d := range dlv {
			ackLog[dir] = append(ackLog[dir], c08Ack{at: d, seq: len(ackLog[dir]), ack: binary.BigEndian.Uint32(pkt[4:8])})
		}
		ackMu.Unlock()
	}
	A := &c08Side{name: "A", writes: c.WritesA, stream: vlib.Fill(c.SeedA, c08Total(c.WritesA))}
	B := &c08Side{name: "B", writes: c.WritesB, stream: vlib.Fill(c.SeedB, c08Total(c.WritesB))}
	A.expect, B.expect = B.stream, A.stream
	closer, follower := B, A
	if c.CloserA {
		closer, follower = A, B
	}
	var mu sync.Mutex // protects the side structs' progress fields
	phase := "init"
	setPhase := func(s string) { mu.Lock(); phase = s; mu.Unlock() }

	allDone := make(chan struct{})
	go func() {
		defer close(allDone)
		tA, err := p.MA.CreateReliableTube(TubeType(7))
		if err != nil {
			mu.Lock()
			A.bad = "create: " + err.Error()
			mu.Unlock()
			return
		}
		tb, err := p.MB.Accept()
		if err != nil {
			mu.Lock()
			B.bad = "accept: " + err.Error()
			mu.Unlock()
			return
		}
		tB, ok := tb.(*Reliable)
		if !ok || tB.GetID() != tA.GetID() || tB.Type() != TubeType(7) {
			mu.Lock()
			B.bad = fmt.Sprintf("accepted tube mismatch: reliable=%v id=%d type=%d", ok, tb.GetID(), tb.Type())
			mu.Unlock()
			return
		}
		mu.Lock()
		A.tube, B.tube = tA, tB
		mu.Unlock()
		setPhase("data")
		var wg sync.WaitGroup
		writer := func(s *c08Side) {
			defer wg.Done()
			off := 0
			for _, w := range s.writes {
				if w.PauseMs > 0 {
					time.Sleep(time.Duration(w.PauseMs) * time.Millisecond)
				}
				n, err := s.tube.Write(s.stream[off : off+w.N])
				mu.Lock()
				s.wrote += n
				if err != nil || n != w.N {
					s.writeErr = fmt.Errorf("Write(%d bytes) = (%d, %v)", w.N, n, err)
					mu.Unlock()
					return
				}
				mu.Unlock()
				off += w.N
			}
		}
		reader := func(s *c08Side, untilEOF bool) {
			defer wg.Done()
			buf := make([]byte, c.ReadChunk)
			for {
				mu.Lock()
				got := s.got
				mu.Unlock()
				if !untilEOF && got >= len(s.expect) {
					return
				}
				n, err := s.tube.Read(buf)
				mu.Lock()
				if n > 0 {
					if s.got+n > len(s.expect) || !bytes.Equal(buf[:n], s.expect[s.got:s.got+n]) {
						s.bad = c08Diagnose(s.expect, s.got, buf[:n])
						mu.Unlock()
						return
					}
					s.got += n
				}
				if err == io.EOF {
					s.eof = true
					mu.Unlock()
					return
				}
				if err != nil {
					s.readErr = err
					mu.Unlock()
					return
				}
				mu.Unlock()
			}
		}
		// closer: write everything, read everything the follower writes, then Close.
		// follower: write everything, read until EOF, then Close.
		wg.Add(4)
		go writer(closer)
		go reader(closer, false)
		go writer(follower)
		followerRead := make(chan struct{})
		go func() { reader(follower, true); close(followerRead) }()
		closerDone := make(chan struct{})
		go func() {
			// wait for closer's writer and reader only
			for {
				mu.Lock()
				ok := (closer.wrote == len(closer.stream) || closer.writeErr != nil) && (closer.got >= len(closer.expect) || closer.bad != "" || closer.readErr != nil || closer.eof)
				mu.Unlock()
				if ok {
					break
				}
				time.Sleep(50 * time.Millisecond)
			}
			setPhase("closer-close")
			closer.tube.Close()
			close(closerDone)
		}()
		<-closerDone
		wg.Wait()
		<-followerRead
		setPhase("follower-close")
		follower.tube.Close()
		// completion of the close handshake itself is C16's subject, not judged here
		setPhase("done")
	}()

	bound := vHealOf(c.AB, c.BA) + c08Bound
	tm := time.NewTimer(bound)
	stalled := false
	select {
	case <-allDone:
		tm.Stop()
	case <-tm.C:
		stalled = true
	}
	mu.Lock()
	ph := phase
	whiteBox := " [white box at the time of judgement: " + c08TubeDiag(A) + "; " + c08TubeDiag(B) + "]"
	defer func() {
		if !v.OK() {
			v.Violations[0].Detail += whiteBox
		}
	}()
	// ---- root-cause attribution by history (never a verdict of its own): the reliable sender counts consecutive
	// acknowledgements that repeat its current acknowledgement number and, by design, gives the tube up after more than
	// 100 of them (errTooManyDuplicateACKs). When the network log shows that one side WAS delivered such a run, whatever
	// symptom follows (early end-of-stream, failing Write, stall) is that give-up and gets one signature; a tube that is
	// torn down WITHOUT such a run in the log keeps its symptom-shaped signature.
	ackMu.Lock()
	now := p.Net.Elapsed()
	runToB, runToA := c08MaxDupAckRun(ackLog[0], now), c08MaxDupAckRun(ackLog[1], now)
	ackMu.Unlock()
	maxRun := max(runToA, runToB)
	fail := func(sig, f string, a ...any) {
		if maxRun >= c08DupAckRunAttributed {
			v.Failf("C08:tube-torn-down:more-than-100-consecutive-duplicate-acks", "[%s; network log: %d consecutive acknowledgements repeating one number were delivered to A, %d to B, with no loss needed] "+f, append([]any{sig, runToA, runToB}, a...)...)
			return
		}
		v.Failf(sig, f, a...)
	}
	// ---- oracle
	for _, s := range []*c08Side{A, B} {
		if s.bad != "" {
			v.Failf("C08:stream-not-a-prefix:"+firstWord(s.bad), "side %s read bytes that are not the next bytes written by its peer: %s (offset %d of %d)", s.name, s.bad, s.got, len(s.expect))
		}
	}
	if v.OK() {
		for _, s := range []*c08Side{A, B} {
			if s.eof && s.got < len(s.expect) {
				fail("C08:eof-before-all-data", "side %s got end-of-stream after %d of %d bytes (peer wrote all of them before closing)", s.name, s.got, len(s.expect))
			}
		}
	}
	if v.OK() {
		for _, s := range []*c08Side{A, B} {
			if s.writeErr != nil {
				fail("C08:write-failed", "side %s: %v", s.name, s.writeErr)
			} else if s.readErr != nil {
				fail("C08:read-error", "side %s: Read returned %v after %d of %d bytes", s.name, s.readErr, s.got, len(s.expect))
			}
		}
	}
	if v.OK() && stalled {
		diag := c08StallDiagnosis(A, B)
		sig := "C08:stall:" + diag
		if diag == "unknown" {
			sig = "C08:stall:" + ph
		}
		fail(sig, "not complete %v (virtual) after the network healed: phase %s; A read %d/%d eof=%v, B read %d/%d eof=%v; %s",
			c08Bound, ph, A.got, len(A.expect), A.eof, B.got, len(B.expect), B.eof, diag)
	}
	if v.OK() && !stalled {
		if !follower.eof {
			fail("C08:no-eof", "follower %s finished without seeing end-of-stream", follower.name)
		} else if A.got != len(A.expect) || B.got != len(B.expect) {
			fail("C08:incomplete", "A read %d/%d, B read %d/%d", A.got, len(A.expect), B.got, len(B.expect))
		}
	}
	mu.Unlock()
	// ---- classification
	st := p.Net.Stats
	faults := st.Dropped[0] + st.Dropped[1] + st.Duplicated[0] + st.Duplicated[1]
	longOutage := false
	for _, pr := range []memconn.Params{c.AB, c.BA} {
		for _, o := range pr.Outages {
			if o[1]-o[0] > 333 {
				longOutage = true
			}
			if o[1]-o[0] > 11000 {
				v.Label("outage>11s")
			}
		}
		if pr.JitterMs > 0 {
			v.Label("reordering")
		}
		if pr.LossPct >= 30 {
			v.Label("loss>=30%")
		}
	}
	v.NonTrivial = faults > 0 || longOutage
	if faults > 0 {
		v.Label("faults-hit")
	} else {
		v.Label("no-fault-hit")
	}
	if st.Duplicated[0]+st.Duplicated[1] > 0 {
		v.Label("duplicates")
	}
	if len(A.stream)+len(B.stream) > 400000 {
		v.Label("bytes>400k")
	}
	if len(A.stream) > 0 && len(B.stream) > 0 {
		v.Label("both-directions")
	}
	if maxRun > 20 {
		v.Label("consecutive-duplicate-acks>20")
	}
	if c.Regime != "" {
		v.Label(c.Regime + "-regime")
		if len(c.WritesA)+len(c.WritesB) > 120 {
			v.Label("writes>120")
		}
		if st.Duplicated[0] > 100 || st.Duplicated[1] > 100 {
			v.Label("duplicated-packets>100-in-one-direction")
		}
		if c.SizeCap > 0 && c.SizeCap <= 1000 {
			v.Label("every-frame<=1000-bytes-on-one-side")
		}
	}
	// ---- tear down (never judged here)
	p.vStopBoth(30 * time.Second)
	time.Sleep(2 * time.Minute)
}

func firstWord(s string) string {
	for i := range s {
		if s[i] == ' ' {
			return s[:i]
		}
	}
	return s
}

// c08Diagnose says how the bytes read differ from the expected continuation.
func c08Diagnose(expect []byte, at int, got []byte) string {
	if at+len(got) > len(expect) {
		return fmt.Sprintf("extra-bytes read %d bytes beyond the %d written", at+len(got)-len(expect), len(expect))
	}
	// is it a chunk from elsewhere in the stream?
	probe := got
	if len(probe) > 32 {
		probe = probe[:32]
	}
	if i := bytes.Index(expect, probe); i >= 0 {
		if i < at {
			return fmt.Sprintf("duplicated data from earlier offset %d re-delivered at %d", i, at)
		}
		return fmt.Sprintf("reordered data from later offset %d delivered at %d (hole)", i, at)
	}
	return "corrupt bytes that occur nowhere in the written stream"
}

type c08Ack struct {
	at  time.Duration // delivery time
	seq int           // order of sending within the direction (tie-break)
	ack uint32
}

// c08DupAckRunAttributed: a run of at least this many consecutive duplicate acknowledgements in the network log
// attributes a violation to the sender's duplicate-acknowledgement limit (which is 100; the margin covers the few
// deliveries whose order the log cannot fix: equal delivery times).
const c08DupAckRunAttributed = 95

// c08MaxDupAckRun replays what one reliable sender was told, from the network log of the direction that reaches it:
// the longest run of delivered acknowledgements that repeat the highest acknowledgement number delivered so far (the
// sender only counts them once more than 20 frames were acknowledged), uninterrupted by one that advances it.
func c08MaxDupAckRun(log []c08Ack, now time.Duration) int {
	l := make([]c08Ack, 0, len(log))
	for _, a := range log {
		if a.at <= now {
			l = append(l, a)
		}
	}
	sort.SliceStable(l, func(i, j int) bool {
		if l[i].at != l[j].at {
			return l[i].at < l[j].at
		}
		return l[i].seq < l[j].seq
	})
	cur, run, best := uint32(1), 0, 0
	for _, a := range l {
		switch {
		case a.ack > cur:
			cur, run = a.ack, 0
		case a.ack == cur && a.ack > 20:
			run++
			best = max(best, run)
		}
	}
	return best
}

// c08TubeDiag describes the white-box state of a side's tube for the violation text (never part of a verdict).
func c08TubeDiag(s *c08Side) string {
	if s.tube == nil {
		return s.name + ": no tube"
	}
	t := s.tube
	if !t.l.TryLock() {
		return s.name + ": tube lock held"
	}
	defer t.l.Unlock()
	if !t.sender.m.TryLock() {
		return s.name + ": sender lock held"
	}
	defer t.sender.m.Unlock()
	return fmt.Sprintf("%s: state=%d senderClosed=%v dupAckCounter=%d sender.ackNo=%d sender.frameNo=%d unackedFrames=%d finSent=%v recvClosed=%v",
		s.name, t.tubeState, t.sender.closed.Load(), t.sender.senderWindow.duplicatedAckCounter, t.sender.ackNo, t.sender.frameNo, len(t.sender.frames), t.sender.finSent, t.recvWindow.closed.Load())
}

func c08StallDiagnosis(A, B *c08Side) string {
	if A.tube == nil || B.tube == nil {
		return "tube-never-established"
	}
	d := "unknown"
	chk := func(snd, rcv *c08Side) string {
		snd.tube.sender.m.Lock()
		nfr := len(snd.tube.sender.frames)
		var oldest uint32
		if nfr > 0 {
			oldest = snd.tube.sender.frames[0].frameNo
		}
		next := snd.tube.sender.frameNo
		snd.tube.sender.m.Unlock()
		rcv.tube.recvWindow.m.Lock()
		ws := rcv.tube.recvWindow.windowStart
		rcv.tube.recvWindow.m.Unlock()
		if nfr > 0 && uint64(oldest) > ws {
			return fmt.Sprintf("sender-dropped-unacked-frame")
		}
		if nfr == 0 && uint64(next) > ws {
			return fmt.Sprintf("sender-dropped-unacked-frame")
		}
		return ""
	}
	if s := chk(A, B); s != "" {
		return s
	}
	if s := chk(B, A); s != "" {
		return s
	}
	return d
}

func c08ParamsGen(label string) *rapid.Generator[memconn.Params] {
	return rapid.Custom(func(t *rapid.T) memconn.Params {
		p := memconn.Params{Seed: rapid.Uint64().Draw(t, label+"seed")}
		p.LossPct = rapid.SampledFrom([]int{0, 0, 1, 10, 30, 60}).Draw(t, label+"loss")
		p.DupPct = rapid.SampledFrom([]int{0, 0, 5, 30}).Draw(t, label+"dup")
		p.DelayMs = rapid.SampledFrom([]int{0, 1, 20, 150}).Draw(t, label+"delay")
		p.JitterMs = rapid.SampledFrom([]int{0, 0, 5, 80, 700}).Draw(t, label+"jitter")
		nOut := rapid.SampledFrom([]int{0, 0, 1, 2}).Draw(t, label+"nout")
		for i := 0; i < nOut; i++ {
			start := rapid.Int64Range(0, 8000).Draw(t, label+"ostart")
			dur := rapid.SampledFrom([]int64{100, 400, 1500, 4000, 9000, 12000, 30000, 120000}).Draw(t, label+"odur")
			p.Outages = append(p.Outages, [2]int64{start, start + dur})
		}
		if rapid.IntRange(0, 4).Draw(t, label+"burst") == 0 {
			p.BurstAt = rapid.IntRange(0, 60).Draw(t, label+"burstat")
			p.BurstLen = rapid.IntRange(1, 12).Draw(t, label+"burstlen")
		}
		p.HealMs = rapid.SampledFrom([]int64{0, 2000, 10000, 60000}).Draw(t, label+"heal")
		return p
	})
}

func c08WritesGen(label string) *rapid.Generator[[]c08Write] {
	sizes := []int{1, 2, 100, int(MaxFrameDataLength) - 1, int(MaxFrameDataLength), int(MaxFrameDataLength) + 1, 10 * int(MaxFrameDataLength), 100000}
	w := rapid.Custom(func(t *rapid.T) c08Write {
		n := rapid.OneOf(rapid.SampledFrom(sizes), rapid.IntRange(1, 70000)).Draw(t, label+"n")
		return c08Write{N: n, PauseMs: rapid.SampledFrom([]int{0, 0, 0, 1, 50, 400, 3000}).Draw(t, label+"pause")}
	})
	return rapid.SliceOfN(w, 0, 8)
}

// c08SmallWritesGen: the long-lived interactive tube. One side (or both) makes hundreds of writes that all stay below a
// drawn size cap (every write is one frame), with short pauses, over a link that loses nothing and never "heals": the
// direction that carries the acknowledgements duplicates packets at a high rate for the whole life of the tube, the
// data direction may do so too, both may reorder mildly. Whatever the sender accumulates per acknowledgement, per
// duplicate or per small frame over a long session shows here; the regime of c08Gen (at most 8 writes per side) ends
// long before.
func c08SmallWritesGen(t *rapid.T) c08Case {
	link := func(label string, dups []int) memconn.Params {
		return memconn.Params{
			Seed:     rapid.Uint64().Draw(t, label+"seed"),
			DupPct:   rapid.SampledFrom(dups).Draw(t, label+"dup"),
			DelayMs:  rapid.SampledFrom([]int{0, 1, 1, 20, 150}).Draw(t, label+"delay"),
			JitterMs: rapid.SampledFrom([]int{0, 0, 0, 5, 80}).Draw(t, label+"jitter"),
			HealMs:   -1, // never faithful: duplication (and jitter) go on for ever; nothing is ever lost
		}
	}
	sizeCap := rapid.SampledFrom([]int{16, 200, 1000, 1000, 1400, 4096}).Draw(t, "sizecap")
	small := func(label string, counts []int) []c08Write {
		n := rapid.SampledFrom(counts).Draw(t, label+"count")
		w := rapid.Custom(func(t *rapid.T) c08Write {
			return c08Write{
				N:       rapid.OneOf(rapid.SampledFrom([]int{1, 2, sizeCap / 2, sizeCap - 1, sizeCap}), rapid.IntRange(1, sizeCap)).Draw(t, label+"n"),
				PauseMs: rapid.SampledFrom([]int{0, 0, 0, 1, 1, 5, 40}).Draw(t, label+"pause"),
			}
		})
		return rapid.SliceOfN(w, n, n).Draw(t, label)
	}
	// primary: the side that makes the many small writes; its acknowledgements travel in the other direction
	primary := small("wp", []int{40, 150, 300, 450, 600})
	var secondary []c08Write
	switch rapid.SampledFrom([]string{"none", "small", "small", "ordinary"}).Draw(t, "secondary") {
	case "small":
		secondary = small("ws", []int{1, 30, 150, 400})
	case "ordinary":
		secondary = c08WritesGen("ws").Draw(t, "ws")
	}
	data := link("data", []int{0, 0, 30, 100})
	acks := link("acks", []int{30, 60, 100})
	c := c08Case{
		Regime:    "small-writes",
		SizeCap:   sizeCap,
		SeedA:     rapid.Uint64().Draw(t, "sa"),
		SeedB:     rapid.Uint64().Draw(t, "sb"),
		CloserA:   rapid.Bool().Draw(t, "closerA"),
		ReadChunk: rapid.SampledFrom([]int{1 << 16, 4096, 100000, 7}).Draw(t, "rchunk"),
	}
	if rapid.Bool().Draw(t, "primaryA") {
		c.WritesA, c.WritesB, c.AB, c.BA = primary, secondary, data, acks
	} else {
		c.WritesB, c.WritesA, c.BA, c.AB = primary, secondary, data, acks
	}
	return c
}

func c08Gen(t *rapid.T) c08Case {
	// one case in eight (three fair coins) is drawn from the small-writes regime
	if rapid.Bool().Draw(t, "r0") && rapid.Bool().Draw(t, "r1") && rapid.Bool().Draw(t, "r2") {
		return c08SmallWritesGen(t)
	}
	return c08Case{
		AB:        c08ParamsGen("ab").Draw(t, "ab"),
		BA:        c08ParamsGen("ba").Draw(t, "ba"),
		WritesA:   c08WritesGen("wa").Draw(t, "wa"),
		WritesB:   c08WritesGen("wb").Draw(t, "wb"),
		SeedA:     rapid.Uint64().Draw(t, "sa"),
		SeedB:     rapid.Uint64().Draw(t, "sb"),
		CloserA:   rapid.Bool().Draw(t, "closerA"),
		ReadChunk: rapid.SampledFrom([]int{1 << 16, 4096, 100000, 7}).Draw(t, "rchunk"),
	}
}

func TestVerifC08Streams(t *testing.T) {
	vQuiet()
	vlib.Drive(t, vlib.Spec[c08Case]{ID: "C08", Quick: 24000, Gen: c08Gen, Run: c08Run(t)})
}
