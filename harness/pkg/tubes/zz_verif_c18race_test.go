//go:build race

package tubes

// c18Race: the binary is built with the race detector (it reports conflicting accesses without needing an actual
// collision, so the concurrent frame test runs fewer cases there).
const c18Race = true
