//go:build !race

package tubes

const c18Race = false
