//go:build go1.25

package tubes

// C09, second scenario family: a burst of opens against a slow acceptor.
//
// The first family (zz_verif_c09_test.go) has at most six workers, so at most six tubes are ever waiting to be
// accepted. Here one side or both open up to ~280 tubes of both kinds at once (a side owns 128 reliable and 128
// unreliable identifiers), spread over concurrent creators, while the other side's application has not started to call
// Accept yet and is slow when it does. The network is faithful (fixed delay, nothing lost, duplicated or reordered; its
// one fault, in one case in three: now and then a datagram arrives 1-4 bytes short - see c09bCase.TruncPm) and
// NO identifier is ever reused: no tube is closed before the verdict. The family therefore never meets the open
// protocol-level findings of the first family (they all need identifier reuse), uses signatures of its own
// (...:burst-of-opens...) and leaves the attribution scheme of the first family alone.
//
// Oracle (property statement): concurrently created tubes get distinct identifiers of the side's parity; each remotely
// opened tube is offered by Accept exactly once - never twice, never a tube nobody opened, and at least once when its
// open request reached the accepting side (network log) - with the type and reliability its opener chose; what is read
// on an accepted tube is what its opener wrote on that tube.

import (
	"bytes"
	"encoding/binary"
	"fmt"
	"io"
	"sync"
	"sync/atomic"
	"testing"
	"time"

	"pgregory.net/rapid"
	"verif.local/vlib"
	"verif.local/vlib/memconn"
)

type c09bWave struct {
	AtMs  int `json:"at"`    // start of the wave, ms since the start of the case
	Rel   int `json:"rel"`   // reliable tubes opened in this wave
	Unrel int `json:"unrel"` // unreliable tubes opened in this wave
}

type c09bSide struct {
	Waves       []c09bWave `json:"waves"`    // what this side OPENS
	Creators    int        `json:"creators"` // goroutines a wave is spread over (concurrent Create calls)
	PauseMs     int        `json:"pause"`    // this side's application starts to call Accept after this long ...
	AcceptGapMs int        `json:"gap"`      // ... and waits this long between two Accept calls
}

type c09bCase struct {
	Sides   [2]c09bSide `json:"sides"` // 0 = A (client muxer, odd ids), 1 = B (server muxer, even ids)
	DelayMs [2]int      `json:"delay"` // one-way delay A->B, B->A; >= 1 ms
	Seed    uint64      `json:"seed"`  // keys tube types, payload sizes and payload bytes
	// After the verdict on the burst, when nothing will be created any more (so still no identifier is ever reused):
	// Abort[s] unreliable tubes are opened by side s and closed again at once - all of them created, then, 1 ms later
	// and before any answer can be back (every delay is >= 1 ms each way), all of them closed; an unreliable tube that
	// was closed before its handshake completed leaves the opener's muxer at once, its peer's answer arrives afterwards.
	// (A reliable tube cannot be closed before its handshake completed: Close waits for it.)
	Abort [2]int `json:"abort,omitempty"`
	// CloseAll: then every tube of the case is closed on both ends, the identifiers leave their quarantine, and the
	// network delivers one more copy of every answer to an open request (RESP datagram) it carried: duplicates that
	// outlived their tubes.
	CloseAll bool `json:"closeall,omitempty"`
	// TruncPm[d] > 0: the one fault of this family's network. In direction d (0: A -> B) a datagram arrives, with this
	// probability in per mille, with its last 1..4 bytes missing. To a correct receiver that is a lost datagram (shorter
	// than its own length field says, or than a header): open requests and data are retransmitted, an unreliable
	// message may be lost, no identifier is reused because of it - every clause of the family stays as it is (the
	// network log counts whole deliveries only).
	TruncPm [2]int `json:"truncpm,omitempty"`
}

const c09bAcceptQueue = 128 // capacity of the muxer's accept queue: more pending tubes than this make the receiver wait

func (s c09bSide) total() int {
	n := 0
	for _, w := range s.Waves {
		n += w.Rel + w.Unrel
	}
	return n
}

// c09bSafe: a side may open tubes later than t=0 only if its peer opens at most 128 tubes in the whole case. The
// unchanged muxer's receiver WAITS (holding the muxer lock) while the accept queue is full; a Create call on that side
// then waits for the lock, and a goroutine waiting for a sync.Mutex stops the bubble's virtual clock - the paused
// acceptor would never wake up (an artifact of the virtual clock, see DESIGN.md 2.3). With every Create of such a side
// at t=0 and a delay >= 1 ms, all of them are done before the first packet arrives.
func c09bSafe(c c09bCase) bool {
	for s := 0; s < 2; s++ {
		if c.DelayMs[s] < 1 || c.Sides[s].Creators < 1 {
			return false
		}
		for _, w := range c.Sides[s].Waves {
			if w.AtMs < 0 || w.Rel < 0 || w.Unrel < 0 {
				return false
			}
			if w.AtMs > 0 && c.Sides[1-s].total() > c09bAcceptQueue {
				return false
			}
		}
	}
	return true
}

type c09bKey struct {
	opener int // side that opened the tube
	rel    bool
	id     byte
}

func (k c09bKey) String() string {
	cl := "unreliable"
	if k.rel {
		cl = "reliable"
	}
	return fmt.Sprintf("%s tube %d opened by side %d", cl, k.id, k.opener)
}

func c09bClass(rel bool) string {
	if rel {
		return "reliable"
	}
	return "unreliable"
}

type c09bTube struct {
	key     c09bKey
	typ     byte
	seq     int // index among everything its side opens in the case
	data    []byte
	at      time.Duration
	tb      Tube
	aborted bool // opened and closed again at once (aftermath): not judged by "never offered", carries no data
}

type c09bOffer struct {
	typ byte
	at  time.Duration
}

const c09bHdr = 32

// c09bPayload: what the opener writes on its seq-th tube (reliable: one stream; unreliable: one message). The header
// names the tube, the rest is keyed to it, so bytes of any other tube are recognisable.
func c09bPayload(seed uint64, k c09bKey, typ byte, seq int) []byte {
	x := seed ^ uint64(k.opener+1)<<56 ^ uint64(seq)*0x9E3779B97F4A7C15
	n := []int{0, 1, 100, 1000}[int(vlib.Fill(x, 1)[0])%4]
	h := make([]byte, c09bHdr)
	copy(h, "C09B")
	h[4], h[6], h[7] = byte(k.opener), k.id, typ
	if k.rel {
		h[5] = 1
	}
	binary.BigEndian.PutUint32(h[8:], uint32(seq))
	binary.BigEndian.PutUint32(h[12:], uint32(n))
	binary.BigEndian.PutUint64(h[16:], seed)
	return append(h, vlib.Fill(x+1, n)...)
}

func c09bType(seed uint64, side, seq int) byte {
	return vlib.Fill(seed^uint64(side+7)<<48^uint64(seq)*0xD1B54A32D192ED03, 1)[0]
}

func c09bWhose(b []byte) string {
	if len(b) >= c09bHdr && string(b[:4]) == "C09B" {
		return fmt.Sprintf("they start with the header written on %v", c09bKey{int(b[4]), b[5] == 1, b[6]})
	}
	return "no recognisable header"
}

type c09bRun struct {
	c       c09bCase
	v       *vlib.Verdict
	p       *vPair
	mu      sync.Mutex
	opened  map[c09bKey]*c09bTube
	offers  map[c09bKey][]c09bOffer
	handed  [2][]Tube  // every tube Accept handed out, per accepting side
	resps   [2][][]byte // [direction] the answers to open requests (RESP datagrams) the network carried
	reqSeen map[c09bKey]bool // the open request of this tube reached the accepting side (network log)
	refused [2]int           // Create calls that returned an error (out of identifiers)
	fast    atomic.Bool
	created sync.WaitGroup
}

func (r *c09bRun) fail(sig, f string, a ...any) {
	r.mu.Lock()
	defer r.mu.Unlock()
	r.failLocked(sig, f, a...)
}

func (r *c09bRun) failLocked(sig, f string, a ...any) {
	if r.v.OK() {
		r.v.Failf(sig, f, a...)
	}
}

func (r *c09bRun) mux(side int) *Muxer {
	if side == 1 {
		return r.p.MB
	}
	return r.p.MA
}

// create opens the seq-th tube of a side and starts its writer.
func (r *c09bRun) create(side int, rel bool, seq int) {
	typ := c09bType(r.c.Seed, side, seq)
	var tb Tube
	var err error
	if rel {
		tb, err = r.mux(side).CreateReliableTube(TubeType(typ))
	} else {
		tb, err = r.mux(side).CreateUnreliableTube(TubeType(typ))
	}
	if err != nil {
		// a side owns 128 identifiers per class; running out of them is a documented answer
		r.mu.Lock()
		r.refused[side]++
		r.mu.Unlock()
		return
	}
	k := c09bKey{side, rel, tb.GetID()}
	t := &c09bTube{key: k, typ: typ, seq: seq, at: r.p.Net.Elapsed(), tb: tb}
	t.data = c09bPayload(r.c.Seed, k, typ, seq)
	r.mu.Lock()
	if other, dup := r.opened[k]; dup {
		r.failLocked("C09:duplicate-local-id:burst-of-opens", "side %d was given %s tube id %d twice (for its tubes #%d and #%d) although no tube was ever closed", side, c09bClass(rel), k.id, other.seq, seq)
		r.mu.Unlock()
		return
	}
	r.opened[k] = t
	r.mu.Unlock()
	if k.id%2 != byte(1-side) || tb.IsReliable() != rel || byte(tb.Type()) != typ {
		r.fail("C09:wrong-id-parity-or-class:burst-of-opens", "side %d asked for a %s tube of type %d and got id %d reliable=%v type %d (A owns the odd, B the even identifiers)", side, c09bClass(rel), typ, k.id, tb.IsReliable(), tb.Type())
		return
	}
	// the writer waits for the open handshake inside Write; it ends at the latest when the muxers are stopped
	go func() { tb.Write(t.data) }()
}

func (r *c09bRun) wave(side int, w c09bWave, firstSeq int) {
	defer r.created.Done()
	if w.AtMs > 0 {
		time.Sleep(time.Duration(w.AtMs) * time.Millisecond)
	}
	// the wave's tubes in an order keyed to the case: classes interleaved
	n := w.Rel + w.Unrel
	kinds := make([]bool, 0, n)
	rel, unrel := w.Rel, w.Unrel
	for i := 0; len(kinds) < n; i++ {
		pickRel := unrel == 0 || (rel > 0 && vlib.Fill(r.c.Seed^uint64(side+3)<<40^uint64(firstSeq+i), 1)[0]%2 == 0)
		if pickRel {
			rel--
		} else {
			unrel--
		}
		kinds = append(kinds, pickRel)
	}
	var wg sync.WaitGroup
	g := r.c.Sides[side].Creators
	for j := 0; j < g; j++ {
		wg.Add(1)
		go func(j int) {
			defer wg.Done()
			for i := j; i < n; i += g {
				r.create(side, kinds[i], firstSeq+i)
			}
		}(j)
	}
	wg.Wait()
}

// acceptor is the application of a side: it starts late and is slow.
func (r *c09bRun) acceptor(side int) {
	sd := r.c.Sides[side]
	if sd.PauseMs > 0 {
		time.Sleep(time.Duration(sd.PauseMs) * time.Millisecond)
	}
	for {
		tb, err := r.mux(side).Accept()
		if err != nil {
			return
		}
		k := c09bKey{1 - side, tb.IsReliable(), tb.GetID()}
		r.mu.Lock()
		r.offers[k] = append(r.offers[k], c09bOffer{byte(tb.Type()), r.p.Net.Elapsed()})
		r.handed[side] = append(r.handed[side], tb)
		n := len(r.offers[k])
		t := r.opened[k]
		openedByPeer := 0
		for ok := range r.opened {
			if ok.opener == 1-side {
				openedByPeer++
			}
		}
		switch {
		case k.id%2 != byte(side):
			// "each REMOTELY opened tube is offered": what Accept hands out on a side was opened by the other side and
			// carries an identifier of the other side's parity (A opens odd identifiers and is offered even ones)
			r.failLocked("C09:accepted-tube-carries-the-acceptors-own-parity:burst-of-opens:"+c09bClass(k.rel), "Accept on side %d handed out %s tube id %d (type %d): identifiers of that parity are opened by side %d itself, its peer never opens them", side, c09bClass(k.rel), k.id, tb.Type(), side)
		case len(r.handed[side]) > openedByPeer:
			// (faithful network, no identifier reused, no open request duplicated): never more tubes than the peer opened
			r.failLocked("C09:more-tubes-accepted-than-opened:burst-of-opens", "Accept on side %d has handed out %d tubes, side %d has opened %d so far", side, len(r.handed[side]), 1-side, openedByPeer)
		case t == nil:
			r.failLocked("C09:accepted-tube-nobody-opened:burst-of-opens", "side %d was offered a %s tube with id %d and type %d; side %d never opened such a tube", side, c09bClass(k.rel), k.id, tb.Type(), 1-side)
		case n > 1:
			r.failLocked("C09:tube-offered-twice:burst-of-opens:"+c09bClass(k.rel), "%v (its tube #%d) was offered by Accept %d times, at %v and at %v", k, t.seq, n, r.offers[k][0].at, r.offers[k][n-1].at)
		case byte(tb.Type()) != t.typ:
			r.failLocked("C09:accepted-tube-differs-from-opened:burst-of-opens:"+c09bClass(k.rel), "%v was opened with type %d and offered with type %d", k, t.typ, tb.Type())
		}
		r.mu.Unlock()
		if t != nil && n == 1 {
			go r.handle(tb, t)
		}
		if sd.AcceptGapMs > 0 && !r.fast.Load() {
			time.Sleep(time.Duration(sd.AcceptGapMs) * time.Millisecond)
		}
	}
}

// handle reads what arrives on an accepted tube: it must be what the opener wrote on THAT tube (a prefix of it, for a
// reliable tube; the one whole message, for an unreliable one). Nothing arriving is not judged here (C08 / by design).
func (r *c09bRun) handle(tb Tube, t *c09bTube) {
	if t.aborted {
		// nothing was written on it: whatever arrives is foreign
		buf := make([]byte, 4096)
		tb.SetReadDeadline(time.Now().Add(10 * time.Second))
		if n, _ := tb.Read(buf); n > 0 {
			r.fail("C09:content-not-written-on-this-tube:burst-of-opens:"+c09bClass(t.key.rel), "%v was closed by its opener before anything was written on it, yet the accepting side read %d bytes: %s", t.key, n, c09bWhose(buf[:n]))
		}
		return
	}
	if rt, ok := tb.(*Reliable); ok {
		rt.SetReadDeadline(time.Now().Add(20 * time.Second))
		got := make([]byte, len(t.data)+64)
		n, _ := io.ReadAtLeast(rt, got, len(t.data))
		if n > len(t.data) || !bytes.Equal(got[:n], t.data[:min(n, len(t.data))]) {
			r.fail("C09:content-not-written-on-this-tube:burst-of-opens:reliable", "%v: the accepting side read %d bytes that are not (a prefix of) the %d bytes its opener wrote on it: %s", t.key, n, len(t.data), c09bWhose(got[:n]))
		}
		return
	}
	ut := tb.(*Unreliable)
	buf := make([]byte, 4096)
	for {
		ut.SetReadDeadline(time.Now().Add(10 * time.Second))
		n, err := ut.ReadMsg(buf)
		if err != nil {
			return
		}
		if !bytes.Equal(buf[:n], t.data) {
			r.fail("C09:content-not-written-on-this-tube:burst-of-opens:unreliable", "%v: the accepting side read a message of %d bytes that is not the one message (%d bytes) its opener wrote on it: %s", t.key, n, len(t.data), c09bWhose(buf[:n]))
			return
		}
	}
}

// pendingLocked: a tube whose open request reached the accepting side and that was not offered there yet.
func (r *c09bRun) pendingLocked() *c09bTube {
	var first *c09bTube
	for k, t := range r.opened {
		if !t.aborted && r.reqSeen[k] && len(r.offers[k]) == 0 && (first == nil || t.seq < first.seq || (t.seq == first.seq && k.opener < first.key.opener)) {
			first = t
		}
	}
	return first
}

// aftermath runs after the verdict on the burst; nothing is created after it (see c09bCase.Abort / CloseAll). What it
// provokes is judged by the clauses of acceptor: no tube nobody opened, none twice, none of the acceptor's own parity,
// never more than the peer opened.
func (r *c09bRun) aftermath() {
	c := r.c
	if c.Abort[0]+c.Abort[1] > 0 {
		var mine [2][]*c09bTube
		for s := 0; s < 2; s++ {
			seq := c.Sides[s].total()
			for i := 0; i < c.Abort[s]; i++ {
				typ := c09bType(c.Seed, s, seq+i)
				tb, err := r.mux(s).CreateUnreliableTube(TubeType(typ))
				if err != nil {
					r.mu.Lock()
					r.refused[s]++
					r.mu.Unlock()
					break
				}
				k := c09bKey{s, false, tb.GetID()}
				t := &c09bTube{key: k, typ: typ, seq: seq + i, at: r.p.Net.Elapsed(), tb: tb, aborted: true}
				r.mu.Lock()
				if other, dup := r.opened[k]; dup {
					r.failLocked("C09:duplicate-local-id:burst-of-opens", "side %d was given unreliable tube id %d twice (for its tubes #%d and #%d) although no tube was ever closed", s, k.id, other.seq, t.seq)
					r.mu.Unlock()
					return
				}
				r.opened[k] = t
				r.mu.Unlock()
				mine[s] = append(mine[s], t)
			}
		}
		time.Sleep(time.Millisecond) // the open requests are on the network, no answer can be back yet
		for s := 0; s < 2; s++ {
			for _, t := range mine[s] {
				t.tb.Close()
			}
		}
		// the requests arrive, are answered, the answers meet muxers that have forgotten the tubes
		time.Sleep(time.Duration(c.DelayMs[0]+c.DelayMs[1])*time.Millisecond + time.Duration(10*(c.Abort[0]+c.Abort[1])+1000)*time.Millisecond)
	}
	if c.CloseAll && r.v.OK() {
		r.fast.Store(true)
		r.mu.Lock()
		var all []Tube
		for _, t := range r.opened {
			all = append(all, t.tb)
		}
		all = append(append(all, r.handed[0]...), r.handed[1]...)
		r.mu.Unlock()
		for _, tb := range all {
			go tb.Close()
		}
		// close handshakes complete, the openers' quarantine (4 x RTT, RTT at most a few hundred ms here) passes
		time.Sleep(8 * time.Second)
		r.mu.Lock()
		resps := r.resps
		r.mu.Unlock()
		for i := 0; i < max(len(resps[0]), len(resps[1])); i++ {
			if i < len(resps[0]) {
				r.p.Net.B.Inject(resps[0][i])
			}
			if i < len(resps[1]) {
				r.p.Net.A.Inject(resps[1][i])
			}
			if i%64 == 63 {
				time.Sleep(time.Millisecond)
			}
		}
		time.Sleep(2 * time.Second)
	}
}

func c09bScenario(c c09bCase, v *vlib.Verdict) {
	if !c09bSafe(c) {
		v.Discard = true
		return
	}
	r := &c09bRun{c: c, v: v, opened: map[c09bKey]*c09bTube{}, offers: map[c09bKey][]c09bOffer{}, reqSeen: map[c09bKey]bool{}}
	// faithful network (but for truncated datagrams, c09bCase.TruncPm) with a receive queue that is never the bottleneck (open requests are retransmitted every
	// 333 ms for as long as the accepting side's receiver waits for its application)
	n := memconn.New(memconn.Params{DelayMs: c.DelayMs[0], Seed: c.Seed, HealMs: -1, TruncPm: c.TruncPm[0], TruncMax: 4}, memconn.Params{DelayMs: c.DelayMs[1], Seed: c.Seed, HealMs: -1, TruncPm: c.TruncPm[1], TruncMax: 4}, 1<<17)
	n.LogCap = 0
	r.p = &vPair{Net: n}
	n.OnSend = func(dir int, pkt []byte, sent time.Duration, dlv []time.Duration) {
		if len(pkt) >= 2 && len(dlv) > 0 && pkt[1]&(1<<RESPIdx) != 0 && pkt[1]&(1<<REQIdx) == 0 {
			r.mu.Lock()
			if len(r.resps[dir]) < 600 {
				r.resps[dir] = append(r.resps[dir], append([]byte(nil), pkt...))
			}
			r.mu.Unlock()
		}
		if len(pkt) < 2 || len(dlv) == 0 || pkt[1]&(1<<REQIdx) == 0 {
			return
		}
		k := c09bKey{dir, pkt[1]&(1<<RELIdx) != 0, pkt[0]} // direction 0 carries what A sends
		r.mu.Lock()
		r.reqSeen[k] = true
		r.mu.Unlock()
	}
	r.p.MA = Client(n.A, &Config{Log: vQuiet()})
	r.p.MB = Server(n.B, &Config{Log: vQuiet()})
	go r.acceptor(0)
	go r.acceptor(1)
	lastWave := 0
	for s := 0; s < 2; s++ {
		seq := 0
		for _, w := range c.Sides[s].Waves {
			r.created.Add(1)
			go r.wave(s, w, seq)
			seq += w.Rel + w.Unrel
			lastWave = max(lastWave, w.AtMs)
		}
	}
	// every tube must have been offered once the applications had the time to accept all of them: the later start of
	// accepting + one gap per tube + a margin of 30 s (the open request is retransmitted every 333 ms)
	bound := 30 * time.Second
	for s := 0; s < 2; s++ {
		sd := c.Sides[s]
		bound = max(bound, time.Duration(lastWave+sd.PauseMs+sd.AcceptGapMs*(c.Sides[1-s].total()+1))*time.Millisecond+30*time.Second)
	}
	createdDone := make(chan struct{})
	go func() { r.created.Wait(); close(createdDone) }()
	<-createdDone // Create never waits for the peer (and never for this side's receiver, see c09bSafe)
	for r.p.Net.Elapsed() < bound {
		r.mu.Lock()
		done := r.pendingLocked() == nil && len(r.reqSeen) >= len(r.opened)
		r.mu.Unlock()
		if done || !v.OK() {
			break
		}
		time.Sleep(100 * time.Millisecond)
	}
	r.mu.Lock()
	overflow := n.Stats.Overflow[0] + n.Stats.Overflow[1]
	if t := r.pendingLocked(); t != nil && overflow == 0 {
		miss := 0
		for k := range r.opened {
			if r.reqSeen[k] && len(r.offers[k]) == 0 {
				miss++
			}
		}
		r.failLocked("C09:tube-never-offered:burst-of-opens:"+c09bClass(t.key.rel), "%v (its tube #%d, type %d, created at %v) was never offered by Accept on side %d within %v although its open request reached that side whole and no identifier was ever reused; %d of %d opened tubes are missing this way", t.key, t.seq, t.typ, t.at, 1-t.key.opener, bound, miss, len(r.opened))
	}
	r.mu.Unlock()
	if v.OK() && overflow == 0 {
		r.aftermath()
	}
	r.mu.Lock()
	total := len(r.opened)
	var openedBy [2]int
	for k := range r.opened {
		openedBy[k.opener]++
	}
	r.mu.Unlock()
	// classification
	v.NonTrivial = total >= 2
	v.Label("burst-of-opens")
	for s := 0; s < 2; s++ {
		if openedBy[1-s] > c09bAcceptQueue && c.Sides[1-s].Waves[0].Rel+c.Sides[1-s].Waves[0].Unrel > c09bAcceptQueue && c.Sides[s].PauseMs >= c.DelayMs[1-s] {
			v.Label("more-than-128-tubes-pending-at-a-paused-acceptor")
			break
		}
	}
	if c.Sides[0].total() > 0 && c.Sides[1].total() > 0 {
		v.Label("both-sides-open")
	}
	if len(c.Sides[0].Waves) > 1 || len(c.Sides[1].Waves) > 1 {
		v.Label("second-wave")
	}
	if r.refused[0]+r.refused[1] > 0 {
		v.Label("out-of-identifiers")
	}
	if overflow > 0 {
		v.Label("receive-queue-overflow(never-offered-not-judged)")
	}
	if total > 128 {
		v.Label("tubes>128")
	}
	if n.Stats.Truncated[0]+n.Stats.Truncated[1] > 0 {
		v.Label("datagrams-delivered-truncated")
	}
	if v.OK() && overflow == 0 {
		if c.Abort[0]+c.Abort[1] > 0 {
			v.Label("aftermath:tubes-opened-and-closed-at-once")
		}
		if c.CloseAll {
			v.Label("aftermath:all-closed-then-stale-duplicates-of-handshake-answers")
		}
	}
	// tear down (not judged here): accept whatever is left without pauses, then stop both muxers
	r.fast.Store(true)
	r.p.vStopBoth(30 * time.Second)
	time.Sleep(3 * time.Minute)
}

func c09bRunFn(t *testing.T) func(c c09bCase, v *vlib.Verdict) {
	return func(c c09bCase, v *vlib.Verdict) {
		res := vlib.Bubble(t, 60*time.Second, func() { c09bScenario(c, v) })
		if res.Hung {
			v.Inconclusive = "bubble hung in real time (C09 burst)"
			return
		}
		if res.Panic != "" && !res.Leak() && !res.Deadlock() {
			v.Failf(vlib.PanicSig(res.Panic, res.Stacks), "panic in scenario: %s", res.Panic)
		}
	}
}

func c09bGen(t *rapid.T) c09bCase {
	var c c09bCase
	c.Seed = rapid.Uint64().Draw(t, "seed")
	counts := []int{0, 1, 20, 60, 100, 128, 140}
	for s := 0; s < 2; s++ {
		l := fmt.Sprintf("s%d", s)
		c.DelayMs[s] = rapid.SampledFrom([]int{1, 5, 50}).Draw(t, l+"delay")
		sd := &c.Sides[s]
		sd.Creators = rapid.SampledFrom([]int{1, 2, 4, 8}).Draw(t, l+"creators")
		sd.PauseMs = rapid.SampledFrom([]int{0, 100, 400, 1000, 3000}).Draw(t, l+"pause")
		sd.AcceptGapMs = rapid.SampledFrom([]int{0, 0, 1, 10}).Draw(t, l+"gap")
		w := c09bWave{Rel: rapid.SampledFrom(counts).Draw(t, l+"rel"), Unrel: rapid.SampledFrom(counts).Draw(t, l+"unrel")}
		if s == 1 && rapid.Bool().Draw(t, "oneSided") {
			w = c09bWave{}
		}
		sd.Waves = []c09bWave{w}
	}
	// a second, later wave (the accept queue was full, then drained) - only where it is safe, see c09bSafe: drawn for
	// both sides first, then kept for a side only if its peer opens at most 128 tubes in the whole case
	var second [2]*c09bWave
	for s := 0; s < 2; s++ {
		l := fmt.Sprintf("s%dw2", s)
		if rapid.Bool().Draw(t, l) {
			small := []int{0, 1, 20, 60}
			second[s] = &c09bWave{
				AtMs:  rapid.SampledFrom([]int{200, 1000, 4000}).Draw(t, l+"at"),
				Rel:   rapid.SampledFrom(small).Draw(t, l+"rel"),
				Unrel: rapid.SampledFrom(small).Draw(t, l+"unrel"),
			}
		}
	}
	var all [2]int
	for s := 0; s < 2; s++ {
		all[s] = c.Sides[s].total()
		if second[s] != nil {
			all[s] += second[s].Rel + second[s].Unrel
		}
	}
	for s := 0; s < 2; s++ {
		if second[s] != nil && all[1-s] <= c09bAcceptQueue {
			c.Sides[s].Waves = append(c.Sides[s].Waves, *second[s])
		}
	}
	// aftermath (two cases in three): tubes opened and closed again at once; everything closed, then stale duplicates
	// of the handshake answers
	if rapid.IntRange(0, 2).Draw(t, "aftermath") > 0 {
		for s := 0; s < 2; s++ {
			c.Abort[s] = rapid.SampledFrom([]int{0, 1, 3, 20}).Draw(t, fmt.Sprintf("s%dabort", s))
		}
		c.CloseAll = rapid.Bool().Draw(t, "closeall")
	}
	// one case in three: datagrams arrive truncated now and then (see c09bCase.TruncPm)
	if rapid.IntRange(0, 2).Draw(t, "truncated") == 0 {
		for s := 0; s < 2; s++ {
			c.TruncPm[s] = rapid.SampledFrom([]int{0, 2, 10, 30}).Draw(t, fmt.Sprintf("s%dtruncpm", s))
		}
	}
	return c
}

func TestVerifC09Burst(t *testing.T) {
	vQuiet()
	// self-test of the payload scheme (machinery, never a violation): payloads of different tubes differ
	a := c09bPayload(1, c09bKey{0, true, 1}, 7, 0)
	b := c09bPayload(1, c09bKey{0, true, 3}, 7, 1)
	if bytes.Equal(a, b) || len(a) < c09bHdr {
		t.Fatalf("VERIF-MACHINERY C09 burst payload scheme: two tubes got the same payload")
	}
	vlib.Drive(t, vlib.Spec[c09bCase]{ID: "C09", Quick: 480, Gen: c09bGen, Run: c09bRunFn(t)})
}
