package cyclist

// C13 — the Cyclist duplex matches its specification (independent reference
// anchored to the published XKCP transcript and to SHA-3) and stays in sync.
//
// A program is pure data (c13Case). It is resolved into a plan (effective
// operation kinds, operand bytes), the plan is executed on the real object(s)
// (c13Real) and on the reference (c13Want), and the two traces are compared
// (c13Compare). Keeping the three steps apart lets the concurrent test run
// nothing but real duplex calls between its start barrier and its end.

import (
	"bytes"
	"fmt"
	"runtime"
	"sync"
	"sync/atomic"
	"testing"

	"pgregory.net/rapid"
	"verif.local/vlib"
	"verif.local/vlib/ref"
)

type c13Op struct {
	Kind    int    `json:"k"` // 0 absorb 1 squeeze 2 encrypt 3 decrypt 4 squeezekey 5 ratchet 6 initialize again
	Len     int    `json:"n"`
	Seed    uint64 `json:"s"`
	InPlace bool   `json:"ip,omitempty"`
	// kind 6 only: the object is re-initialised in the middle of the program.
	// KeyLen 0 => hash mode (InitializeEmpty, or Initialize with an empty key if UseInit).
	KeyLen  int  `json:"kl,omitempty"`
	IDLen   int  `json:"il,omitempty"`
	CtrLen  int  `json:"cl,omitempty"`
	UseInit bool `json:"ui,omitempty"`
}

type c13Case struct {
	KeyLen  int     `json:"keylen"` // 0 => hash mode (InitializeEmpty or Initialize with empty key)
	IDLen   int     `json:"idlen"`
	CtrLen  int     `json:"ctrlen"`
	Seed    uint64  `json:"seed"`
	UseInit bool    `json:"useinit"` // hash mode through Initialize(nil,...) instead of InitializeEmpty
	Ops     []c13Op `json:"ops"`
	CloneAt int     `json:"cloneat"`
}

const c13Init = 6

var c13Names = []string{"absorb", "squeeze", "encrypt", "decrypt", "squeezekey", "ratchet", "initialize"}

// c13Step is one resolved operation of a plan.
type c13Step struct {
	kind         int  // effective kind (hash mode maps the keyed-only kinds onto absorb/squeeze)
	keyed        bool // mode in which the operation runs (for kind 6: the mode it establishes)
	n            int
	in           []byte // operand of absorb / encrypt / decrypt
	inPlace      bool
	key, id, ctr []byte // kind 6
	useInit      bool   // kind 6
}

type c13Plan struct {
	init    c13Step // the initialisation (a kind-6 step)
	steps   []c13Step
	cloneAt int
}

func c13InitStep(keyLen, idLen, ctrLen int, seed uint64, useInit bool) c13Step {
	return c13Step{kind: c13Init, keyed: keyLen > 0, key: vlib.Fill(seed, keyLen), id: vlib.Fill(seed+1, idLen),
		ctr: vlib.Fill(seed+2, ctrLen), useInit: useInit}
}

func c13MakePlan(c c13Case) c13Plan {
	p := c13Plan{init: c13InitStep(c.KeyLen, c.IDLen, c.CtrLen, c.Seed, c.UseInit), cloneAt: c.CloneAt}
	keyed := p.init.keyed
	for _, op := range c.Ops {
		if op.Kind == c13Init {
			st := c13InitStep(op.KeyLen, op.IDLen, op.CtrLen, op.Seed, op.UseInit)
			keyed = st.keyed
			p.steps = append(p.steps, st)
			continue
		}
		k := op.Kind
		if !keyed && k >= 2 {
			k %= 2
		}
		st := c13Step{kind: k, keyed: keyed, n: op.Len, inPlace: op.InPlace}
		if k == 0 || k == 2 || k == 3 {
			st.in = vlib.Fill(op.Seed, op.Len)
		}
		p.steps = append(p.steps, st)
	}
	return p
}

// c13Out is what one operation produced: out on the object itself, peer on its
// clone (squeeze kinds: the clone's own output; encrypt: the clone's decryption
// of the ciphertext; decrypt: the clone's re-encryption of the plaintext).
type c13Out struct{ out, peer []byte }

type c13Trace struct {
	outs       []c13Out
	tagA, tagB []byte
}

func (st *c13Step) initReal(x *Cyclist) {
	if st.keyed || st.useInit {
		x.Initialize(st.key, st.id, st.ctr)
	} else {
		x.InitializeEmpty()
	}
}

// c13Real executes the plan on a fresh real object (and on its clone from cloneAt on).
func c13Real(p *c13Plan) c13Trace {
	var a, b Cyclist
	p.init.initReal(&a)
	cloned := false
	tr := c13Trace{outs: make([]c13Out, len(p.steps))}
	for i := range p.steps {
		st := &p.steps[i]
		if i == p.cloneAt {
			b = a // plain struct copy: same state
			cloned = true
		}
		o := &tr.outs[i]
		switch st.kind {
		case 0:
			a.Absorb(st.in)
			if cloned {
				b.Absorb(st.in)
			}
		case 1, 4:
			o.out = make([]byte, st.n)
			if cloned {
				o.peer = make([]byte, st.n)
			}
			if st.kind == 1 {
				a.Squeeze(o.out)
				if cloned {
					b.Squeeze(o.peer)
				}
			} else {
				a.SqueezeKey(o.out)
				if cloned {
					b.SqueezeKey(o.peer)
				}
			}
		case 2, 3:
			if st.inPlace {
				o.out = append([]byte(nil), st.in...)
			} else {
				o.out = make([]byte, st.n)
			}
			src := st.in
			if st.inPlace {
				src = o.out
			}
			if st.kind == 2 {
				a.Encrypt(o.out, src)
				if cloned { // the peer decrypts what A produced
					o.peer = make([]byte, st.n)
					b.Decrypt(o.peer, o.out)
				}
			} else {
				a.Decrypt(o.out, src)
				if cloned { // the peer encrypts the plaintext A obtained: must reproduce the ciphertext
					o.peer = make([]byte, st.n)
					b.Encrypt(o.peer, o.out)
				}
			}
		case 5:
			a.Ratchet()
			if cloned {
				b.Ratchet()
			}
		case c13Init:
			st.initReal(&a)
			if cloned {
				st.initReal(&b)
			}
		}
	}
	tr.tagA = make([]byte, 32)
	a.Squeeze(tr.tagA)
	if cloned {
		tr.tagB = make([]byte, 32)
		b.Squeeze(tr.tagB)
	}
	return tr
}

func (st *c13Step) initRef() *ref.RefCyclist {
	if st.keyed {
		return ref.NewRef(st.key, st.id, st.ctr)
	}
	return ref.NewRef(nil, nil, nil)
}

// c13Want computes the specified outputs. Initialising again is, by the
// documentation of Initialize / InitializeEmpty ("resets a Cyclist object to
// an initial state" / "to the empty state"), the same as starting over: the
// reference simply creates a fresh instance.
func c13Want(p *c13Plan) c13Trace {
	r := p.init.initRef()
	tr := c13Trace{outs: make([]c13Out, len(p.steps))}
	for i := range p.steps {
		st := &p.steps[i]
		o := &tr.outs[i]
		switch st.kind {
		case 0:
			r.Absorb(st.in)
		case 1:
			o.out = r.Squeeze(st.n)
			o.peer = o.out
		case 2:
			o.out = r.Encrypt(st.in)
			o.peer = st.in
		case 3:
			o.out = r.Decrypt(st.in)
			o.peer = st.in
		case 4:
			o.out = r.SqueezeKey(st.n)
			o.peer = o.out
		case 5:
			r.Ratchet()
		case c13Init:
			r = st.initRef()
		}
	}
	tr.tagA = r.Squeeze(32)
	tr.tagB = tr.tagA
	return tr
}

// c13Diff is the first oracle clause a real trace fails ("" = none).
type c13Diff struct{ what, op, detail string }

func (d c13Diff) sig() string { return "C13:" + d.what + ":" + d.op }

func c13Compare(p *c13Plan, got, want *c13Trace) c13Diff {
	for i := range p.steps {
		st := &p.steps[i]
		g, w := &got.outs[i], &want.outs[i]
		cloned := i >= p.cloneAt
		name := c13Names[st.kind]
		mk := func(what string, a, b []byte) c13Diff {
			return c13Diff{what, name, fmt.Sprintf("op %d %s len %d (keyed=%v): got %x want %x", i, name, st.n, st.keyed, trunc(a), trunc(b))}
		}
		if cloned && st.kind == 2 && !bytes.Equal(g.peer, st.in) {
			return mk("sync-decrypt-mismatch", g.peer, st.in)
		}
		if cloned && st.kind == 3 && !bytes.Equal(g.peer, st.in) {
			return mk("sync-encrypt-mismatch", g.peer, st.in)
		}
		if !bytes.Equal(g.out, w.out) {
			return mk("output-differs-from-spec", g.out, w.out)
		}
		if cloned && (st.kind == 1 || st.kind == 4) && !bytes.Equal(g.peer, g.out) {
			return mk("peers-out-of-sync", g.out, g.peer)
		}
	}
	if !bytes.Equal(got.tagA, want.tagA) {
		return c13Diff{"output-differs-from-spec", "final-squeeze", fmt.Sprintf("final tag %x, reference %x", got.tagA, want.tagA)}
	}
	if got.tagB != nil && !bytes.Equal(got.tagA, got.tagB) {
		return c13Diff{"peers-out-of-sync", "final-squeeze", fmt.Sprintf("final tag A %x, B %x", got.tagA, got.tagB)}
	}
	return c13Diff{}
}

// c13Classify: labels and the non-trivial rule of one program.
func c13Classify(c c13Case, p *c13Plan, v *vlib.Verdict) (nonTrivial bool) {
	kinds := map[int]bool{}
	boundary, everKeyed, everHash, reinitDown := false, p.init.keyed, !p.init.keyed, false
	for i := range p.steps {
		st := &p.steps[i]
		kinds[st.kind] = true
		if st.kind != 5 && st.kind != c13Init && (st.n == 0 || st.n >= 136) {
			boundary = true
		}
		if st.kind == c13Init {
			if st.keyed {
				everKeyed = true
			} else {
				everHash = true
			}
			if i > 0 {
				switch p.steps[i-1].kind { // operations that leave the object in the down phase
				case 0, 2, 3, 5:
					reinitDown = true
				}
			}
		}
	}
	if v != nil {
		if everKeyed {
			v.Label("keyed")
		}
		if everHash {
			v.Label("hash")
		}
		if boundary {
			v.Label("empty-or-multiblock-operand")
		}
		if p.cloneAt < len(p.steps) {
			v.Label("with-peer-clone")
		}
		if c.CtrLen > 0 {
			v.Label("counter")
		}
		if reinitDown {
			v.Label("initialize-again-after-absorbing-op")
		}
		for k := range c13Names {
			if kinds[k] {
				v.Label("op:" + c13Names[k])
			}
		}
	}
	return boundary || (len(p.steps) >= 3 && len(kinds) >= 2)
}

func c13Run(c c13Case, v *vlib.Verdict) {
	p := c13MakePlan(c)
	want := c13Want(&p)
	got := c13Real(&p)
	if d := c13Compare(&p, &got, &want); d.what != "" {
		v.Failf(d.sig(), "%s", d.detail)
		return
	}
	v.NonTrivial = c13Classify(c, &p, v)
}

func trunc(b []byte) []byte {
	if len(b) > 24 {
		return b[:24]
	}
	return b
}

var c13Lens = []int{0, 1, 2, 31, 32, 33, 134, 135, 136, 137, 138, 271, 272, 273, 407, 408, 409, 1000}

// c13InitGen draws an initialisation: (key, id, counter lengths, useInit).
func c13InitGen(t *rapid.T) (keyLen, idLen, ctrLen int, useInit bool) {
	if rapid.IntRange(0, 3).Draw(t, "keyed") > 0 {
		keyLen = rapid.OneOf(rapid.IntRange(1, 135), rapid.SampledFrom([]int{1, 16, 32, 134, 135})).Draw(t, "keylen")
		idLen = rapid.OneOf(rapid.IntRange(0, 135-keyLen), rapid.SampledFrom([]int{0, 135 - keyLen})).Draw(t, "idlen")
		ctrLen = rapid.OneOf(rapid.Just(0), rapid.IntRange(0, 12), rapid.SampledFrom([]int{135, 136, 137, 300})).Draw(t, "ctrlen")
	} else {
		useInit = rapid.Bool().Draw(t, "useinit")
	}
	return
}

// kinds 0..5 twice, "initialize again" once: one operation in thirteen re-initialises the object
var c13Kinds = []int{0, 1, 2, 3, 4, 5, 0, 1, 2, 3, 4, 5, c13Init}

func c13Gen(t *rapid.T) c13Case {
	var c c13Case
	c.Seed = rapid.Uint64().Draw(t, "seed")
	c.KeyLen, c.IDLen, c.CtrLen, c.UseInit = c13InitGen(t)
	opGen := rapid.Custom(func(t *rapid.T) c13Op {
		var o c13Op
		o.Kind = rapid.SampledFrom(c13Kinds).Draw(t, "kind")
		o.Seed = rapid.Uint64().Draw(t, "oseed")
		if o.Kind == c13Init {
			o.KeyLen, o.IDLen, o.CtrLen, o.UseInit = c13InitGen(t)
			return o
		}
		if rapid.Bool().Draw(t, "edge") {
			o.Len = rapid.SampledFrom(c13Lens).Draw(t, "elen")
		} else {
			o.Len = rapid.IntRange(0, 600).Draw(t, "len")
		}
		// InPlace stays false: aliasing dst and src is neither claimed by C13 nor
		// done by any caller in the repository (see DESIGN.md, C13).
		return o
	})
	c.Ops = rapid.SliceOfN(opGen, 1, 40).Draw(t, "ops")
	c.CloneAt = rapid.IntRange(0, len(c.Ops)).Draw(t, "cloneat") // == len: never
	return c
}

func c13SelfTest(t *testing.T) {
	if err := ref.SelfTestCyclist(vlib.GetEnv().Repo); err != nil {
		t.Fatalf("VERIF-MACHINERY reference self-test failed: %v", err)
	}
}

func TestVerifC13Programs(t *testing.T) {
	c13SelfTest(t)
	vlib.Drive(t, vlib.Spec[c13Case]{ID: "C13", Quick: 20000, Gen: c13Gen, Run: func(c c13Case, v *vlib.Verdict) {
		vlib.Guard(v, func() { c13Run(c, v) })
	}})
}

// TestVerifC13Boundaries enumerates single-operation programs for every operand
// length 0..410 in both modes (every position relative to the 136-byte rate),
// and every (mode, last operation, way of initialising again) combination.
func TestVerifC13Boundaries(t *testing.T) {
	c13SelfTest(t)
	run := func(c c13Case, v *vlib.Verdict) { vlib.Guard(v, func() { c13Run(c, v) }) }
	if vlib.ReplayEnumerated(t, "C13", run) {
		return
	}
	rec := vlib.Open(t, "C13")
	idx := 0
	for keyLen := 0; keyLen <= 32; keyLen += 32 {
		for kind := 0; kind <= 4; kind++ {
			if keyLen == 0 && kind >= 2 {
				continue
			}
			for n := 0; n <= 410; n++ {
				idx++
				if !rec.Mine(idx) {
					continue
				}
				c := c13Case{KeyLen: keyLen, Seed: uint64(n), Ops: []c13Op{{Kind: 0, Len: 5, Seed: 9}, {Kind: kind, Len: n, Seed: uint64(n) + 77}, {Kind: 1, Len: 16}}, CloneAt: 1}
				if !vlib.Each(t, rec, c, run) {
					return
				}
			}
		}
	}
	single := idx
	// initialise again after every kind of last operation (so in either phase), from either mode, in every way
	reinits := []c13Op{{Kind: c13Init}, {Kind: c13Init, UseInit: true}, {Kind: c13Init, KeyLen: 16}, {Kind: c13Init, KeyLen: 32, IDLen: 7},
		{Kind: c13Init, KeyLen: 32, IDLen: 7, CtrLen: 3}, {Kind: c13Init, KeyLen: 100, IDLen: 35, CtrLen: 137}}
	for keyLen := 0; keyLen <= 32; keyLen += 32 {
		for kind := -1; kind <= 5; kind++ { // -1: initialise again straight after the initialisation
			if keyLen == 0 && kind >= 2 {
				continue
			}
			for _, n := range []int{0, 5, 136, 137} {
				if (kind == 5 || kind == -1) && n != 0 {
					continue
				}
				for ri, re := range reinits {
					idx++
					if !rec.Mine(idx) {
						continue
					}
					re.Seed = uint64(1000 + ri)
					c := c13Case{KeyLen: keyLen, IDLen: keyLen / 8, Seed: uint64(n) + 5}
					if kind >= 0 {
						c.Ops = append(c.Ops, c13Op{Kind: kind, Len: n, Seed: uint64(n) + 31})
					}
					// afterwards: keyed-only kinds fall back to absorb/squeeze if the new mode is hash
					c.Ops = append(c.Ops, re, c13Op{Kind: 2, Len: 20, Seed: 4}, c13Op{Kind: 0, Len: 3, Seed: 5}, c13Op{Kind: 4, Len: 16})
					c.CloneAt = len(c.Ops) - 3
					if !vlib.Each(t, rec, c, run) {
						return
					}
				}
			}
		}
	}
	rec.SetExhaustive(true)
	rec.Extra("enumerated", fmt.Sprintf("every operand length 0..410 for each operation kind, hash and keyed mode (%d programs); "+
		"every (mode, last operation, operand length in {0,5,136,137}, way of initialising again) combination (%d programs)", single, idx-single))
}

// ---------------------------------------------------------------------------
// Concurrent dimension: independent objects must not influence each other.
//
// A Cyclist value has no documented sharing between instances (the handshake
// code keeps one duplex per handshake and a server runs many handshakes at the
// same time), so several goroutines that each work on objects of their OWN
// must each obtain exactly the specified outputs. Each goroutine runs its own
// generated program Reps times (always on fresh objects) after a common start
// barrier; every repetition is compared with the reference trace computed
// beforehand. A repetition that deviates is run once more with nothing else
// running: if it deviates again the defect is sequential and is reported under
// the sequential signature, otherwise under independent-objects-interfere.

type c13ConcCase struct {
	Progs []c13Case `json:"progs"` // one program per goroutine
	Reps  int       `json:"reps"`
}

func c13ConcRun(c c13ConcCase, v *vlib.Verdict) {
	g := len(c.Progs)
	plans := make([]c13Plan, g)
	wants := make([]c13Trace, g)
	for i := range c.Progs {
		plans[i] = c13MakePlan(c.Progs[i])
		wants[i] = c13Want(&plans[i])
	}
	reps := c.Reps
	if reps < 1 {
		reps = 1
	}
	traces := make([][]c13Trace, g)
	verdicts := make([]vlib.Verdict, g)
	var arrived atomic.Int32
	var wg sync.WaitGroup
	for i := 0; i < g; i++ {
		traces[i] = make([]c13Trace, 0, reps)
		wg.Add(1)
		go func(i int) {
			defer wg.Done()
			vlib.Guard(&verdicts[i], func() {
				arrived.Add(1)
				for int(arrived.Load()) < g { // start barrier
					runtime.Gosched()
				}
				for r := 0; r < reps; r++ {
					traces[i] = append(traces[i], c13Real(&plans[i]))
				}
			})
		}(i)
	}
	wg.Wait()
	for i := 0; i < g; i++ {
		if !verdicts[i].OK() { // a panic in goroutine i
			v.Violations = append(v.Violations, verdicts[i].Violations...)
			return
		}
		for r := range traces[i] {
			d := c13Compare(&plans[i], &traces[i][r], &wants[i])
			if d.what == "" {
				continue
			}
			solo := c13Real(&plans[i])
			if sd := c13Compare(&plans[i], &solo, &wants[i]); sd.what != "" {
				v.Failf(sd.sig(), "program %d also fails when run alone: %s", i, sd.detail)
				return
			}
			v.Failf("C13:independent-objects-interfere:"+d.op, "program %d of %d (repetition %d) deviates only while the other goroutines work on objects of their own (%s): %s", i, g, r, d.what, d.detail)
			return
		}
	}
	nt := 0
	crypting := 0
	for i := range c.Progs {
		if c13Classify(c.Progs[i], &plans[i], nil) {
			nt++
		}
		for _, st := range plans[i].steps {
			if st.kind == 2 || st.kind == 3 {
				crypting++
				break
			}
		}
	}
	v.NonTrivial = g >= 2 && nt >= 2
	v.Labelf("goroutines:%d", g)
	if crypting >= 2 {
		v.Label("concurrent-encrypt-or-decrypt")
	}
}

func TestVerifC13Concurrent(t *testing.T) {
	c13SelfTest(t)
	vlib.Drive(t, vlib.Spec[c13ConcCase]{ID: "C13", Quick: 4000, Run: c13ConcRun, Gen: func(t *rapid.T) c13ConcCase {
		return c13ConcCase{
			Progs: rapid.SliceOfN(rapid.Custom(c13Gen), 2, 4).Draw(t, "progs"),
			Reps:  rapid.IntRange(1, 6).Draw(t, "reps"),
		}
	}})
}
