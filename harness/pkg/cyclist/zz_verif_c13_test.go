package cyclist

// C13 — the Cyclist duplex matches its specification (independent reference
// anchored to the published XKCP transcript and to SHA-3) and stays in sync.

import (
	"bytes"
	"fmt"
	"testing"

	"pgregory.net/rapid"
	"verif.local/vlib"
	"verif.local/vlib/ref"
)

type c13Op struct {
	Kind    int    `json:"k"` // 0 absorb 1 squeeze 2 encrypt 3 decrypt 4 squeezekey 5 ratchet
	Len     int    `json:"n"`
	Seed    uint64 `json:"s"`
	InPlace bool   `json:"ip,omitempty"`
}

type c13Case struct {
	KeyLen  int     `json:"keylen"` // 0 => hash mode (InitializeEmpty or Initialize with empty key)
	IDLen   int     `json:"idlen"`
	CtrLen  int     `json:"ctrlen"`
	Seed    uint64  `json:"seed"`
	UseInit bool    `json:"useinit"` // hash mode through Initialize(nil,...) instead of InitializeEmpty
	Ops     []c13Op `json:"ops"`
	CloneAt int     `json:"cloneat"`
}

var c13Names = []string{"absorb", "squeeze", "encrypt", "decrypt", "squeezekey", "ratchet"}

func c13Run(c c13Case, v *vlib.Verdict) {
	key := vlib.Fill(c.Seed, c.KeyLen)
	id := vlib.Fill(c.Seed+1, c.IDLen)
	ctr := vlib.Fill(c.Seed+2, c.CtrLen)
	keyed := c.KeyLen > 0
	var a Cyclist
	if keyed || c.UseInit {
		a.Initialize(key, id, ctr)
	} else {
		a.InitializeEmpty()
	}
	var r *ref.RefCyclist
	if keyed {
		r = ref.NewRef(key, id, ctr)
	} else {
		r = ref.NewRef(nil, nil, nil)
	}
	var b Cyclist
	cloned := false
	kinds := map[int]bool{}
	boundary := false
	for i, op := range c.Ops {
		if i == c.CloneAt {
			b = a // plain struct copy: same state
			cloned = true
		}
		if !keyed && op.Kind >= 2 {
			op.Kind %= 2
		}
		kinds[op.Kind] = true
		if op.Kind != 5 && (op.Len == 0 || op.Len >= 136) {
			boundary = true
		}
		in := vlib.Fill(op.Seed, op.Len)
		var got, want, gotB []byte
		fail := func(what string) {
			v.Failf("C13:"+what+":"+c13Names[op.Kind], "op %d %s len %d (keyed=%v): got %x want %x", i, c13Names[op.Kind], op.Len, keyed, trunc(got), trunc(want))
		}
		switch op.Kind {
		case 0:
			a.Absorb(in)
			r.Absorb(in)
			if cloned {
				b.Absorb(in)
			}
		case 1:
			got = make([]byte, op.Len)
			a.Squeeze(got)
			want = r.Squeeze(op.Len)
			if cloned {
				gotB = make([]byte, op.Len)
				b.Squeeze(gotB)
			}
		case 2:
			want = r.Encrypt(in)
			if op.InPlace {
				got = append([]byte(nil), in...)
				a.Encrypt(got, got)
			} else {
				got = make([]byte, op.Len)
				a.Encrypt(got, in)
			}
			if cloned {
				// the peer decrypts what A produced
				p := make([]byte, op.Len)
				b.Decrypt(p, got)
				if !bytes.Equal(p, in) {
					got, want = p, in
					fail("sync-decrypt-mismatch")
					return
				}
			}
		case 3:
			want = r.Decrypt(in)
			if op.InPlace {
				got = append([]byte(nil), in...)
				a.Decrypt(got, got)
			} else {
				got = make([]byte, op.Len)
				a.Decrypt(got, in)
			}
			if cloned {
				// the peer encrypts the plaintext A obtained: must reproduce the ciphertext
				ct := make([]byte, op.Len)
				b.Encrypt(ct, got)
				if !bytes.Equal(ct, in) {
					got, want = ct, in
					fail("sync-encrypt-mismatch")
					return
				}
			}
		case 4:
			got = make([]byte, op.Len)
			a.SqueezeKey(got)
			want = r.SqueezeKey(op.Len)
			if cloned {
				gotB = make([]byte, op.Len)
				b.SqueezeKey(gotB)
			}
		case 5:
			a.Ratchet()
			r.Ratchet()
			if cloned {
				b.Ratchet()
			}
		}
		if !bytes.Equal(got, want) {
			fail("output-differs-from-spec")
			return
		}
		if gotB != nil && !bytes.Equal(gotB, got) {
			want = gotB
			fail("peers-out-of-sync")
			return
		}
	}
	// final tags of A, the reference and the clone must agree
	ta := make([]byte, 32)
	a.Squeeze(ta)
	if w := r.Squeeze(32); !bytes.Equal(ta, w) {
		v.Failf("C13:output-differs-from-spec:final-squeeze", "final tag %x, reference %x", ta, w)
		return
	}
	if cloned {
		tb := make([]byte, 32)
		b.Squeeze(tb)
		if !bytes.Equal(ta, tb) {
			v.Failf("C13:peers-out-of-sync:final-squeeze", "final tag A %x, B %x", ta, tb)
			return
		}
	}
	v.NonTrivial = boundary || (len(c.Ops) >= 3 && len(kinds) >= 2)
	if keyed {
		v.Label("keyed")
	} else {
		v.Label("hash")
	}
	if boundary {
		v.Label("empty-or-multiblock-operand")
	}
	if cloned {
		v.Label("with-peer-clone")
	}
	if c.CtrLen > 0 {
		v.Label("counter")
	}
	for k := range c13Names {
		if kinds[k] {
			v.Label("op:" + c13Names[k])
		}
	}
}

func trunc(b []byte) []byte {
	if len(b) > 24 {
		return b[:24]
	}
	return b
}

var c13Lens = []int{0, 1, 2, 31, 32, 33, 134, 135, 136, 137, 138, 271, 272, 273, 407, 408, 409, 1000}

func c13Gen(t *rapid.T) c13Case {
	var c c13Case
	c.Seed = rapid.Uint64().Draw(t, "seed")
	if rapid.IntRange(0, 3).Draw(t, "keyed") > 0 {
		c.KeyLen = rapid.OneOf(rapid.IntRange(1, 135), rapid.SampledFrom([]int{1, 16, 32, 134, 135})).Draw(t, "keylen")
		c.IDLen = rapid.OneOf(rapid.IntRange(0, 135-c.KeyLen), rapid.SampledFrom([]int{0, 135 - c.KeyLen})).Draw(t, "idlen")
		c.CtrLen = rapid.OneOf(rapid.Just(0), rapid.IntRange(0, 12), rapid.SampledFrom([]int{135, 136, 137, 300})).Draw(t, "ctrlen")
	} else {
		c.UseInit = rapid.Bool().Draw(t, "useinit")
	}
	opGen := rapid.Custom(func(t *rapid.T) c13Op {
		var o c13Op
		o.Kind = rapid.IntRange(0, 5).Draw(t, "kind")
		if rapid.Bool().Draw(t, "edge") {
			o.Len = rapid.SampledFrom(c13Lens).Draw(t, "elen")
		} else {
			o.Len = rapid.IntRange(0, 600).Draw(t, "len")
		}
		o.Seed = rapid.Uint64().Draw(t, "oseed")
		// InPlace stays false: aliasing dst and src is neither claimed by C13 nor
		// done by any caller in the repository (see DESIGN.md, C13).
		return o
	})
	c.Ops = rapid.SliceOfN(opGen, 1, 40).Draw(t, "ops")
	c.CloneAt = rapid.IntRange(0, len(c.Ops)).Draw(t, "cloneat") // == len: never
	return c
}

func c13SelfTest(t *testing.T) {
	if err := ref.SelfTestCyclist(vlib.GetEnv().Repo); err != nil {
		t.Fatalf("VERIF-MACHINERY reference self-test failed: %v", err)
	}
}

func TestVerifC13Programs(t *testing.T) {
	c13SelfTest(t)
	vlib.Drive(t, vlib.Spec[c13Case]{ID: "C13", Quick: 20000, Gen: c13Gen, Run: func(c c13Case, v *vlib.Verdict) {
		vlib.Guard(v, func() { c13Run(c, v) })
	}})
}

// TestVerifC13Boundaries enumerates single-operation programs for every operand
// length 0..410 in both modes (every position relative to the 136-byte rate).
func TestVerifC13Boundaries(t *testing.T) {
	c13SelfTest(t)
	run := func(c c13Case, v *vlib.Verdict) { vlib.Guard(v, func() { c13Run(c, v) }) }
	if vlib.ReplayEnumerated(t, "C13", run) {
		return
	}
	rec := vlib.Open(t, "C13")
	idx := 0
	for keyLen := 0; keyLen <= 32; keyLen += 32 {
		for kind := 0; kind <= 4; kind++ {
			if keyLen == 0 && kind >= 2 {
				continue
			}
			for n := 0; n <= 410; n++ {
				idx++
				if !rec.Mine(idx) {
					continue
				}
				c := c13Case{KeyLen: keyLen, Seed: uint64(n), Ops: []c13Op{{Kind: 0, Len: 5, Seed: 9}, {Kind: kind, Len: n, Seed: uint64(n) + 77}, {Kind: 1, Len: 16}}, CloneAt: 1}
				if !vlib.Each(t, rec, c, run) {
					return
				}
			}
		}
	}
	rec.SetExhaustive(true)
	rec.Extra("enumerated", fmt.Sprintf("every operand length 0..410 for each operation kind, hash and keyed mode (%d programs)", idx))
}
