//go:build !race

package hopserver

const verifRace = false
