//go:build go1.25

package hopserver

// C07 / C05 layer 2 — the REAL hopSession (newSession -> checkAuthorization ->
// start -> tube dispatch) over a real transport handshake on vlib/simnet and
// real tube muxers, inside a synctest bubble. The client side is played by the
// harness: it logs in as a user with a delegate key, then asks for actions
// (exec with command text, exec with the shell flag, local / remote port
// forwarding, grant issuing, port-forward DATA tubes without asking) and
// observes what the server answers - and, for forwarding, what it DOES: the
// forwarding target is a socket of the harness whose connections are counted
// after every request. Time passes between requests and also between opening
// the tubes of a request and sending its body; the model judges a request at
// the moment its body is sent.

import (
	"bytes"
	"crypto/rand"
	"encoding/binary"
	"fmt"
	"io"
	"net"
	"os"
	"os/exec"
	"path/filepath"
	"sync"
	"sync/atomic"
	"testing"
	"time"

	"github.com/sirupsen/logrus"
	"pgregory.net/rapid"

	"hop.computer/hop/authgrants"
	"hop.computer/hop/authkeys"
	"hop.computer/hop/certs"
	"hop.computer/hop/common"
	"hop.computer/hop/keys"
	"hop.computer/hop/pkg/thunks"
	"hop.computer/hop/transport"
	"hop.computer/hop/tubes"
	"hop.computer/hop/userauth"
	"verif.local/vlib"
	"verif.local/vlib/simnet"
)

type c07eGrant struct {
	User  int `json:"user"`  // index into c07eUsers: 0 alice, 1 bob, 2 Alice, 3 Bob (user^2 = the name that differs by case only)
	Key   int `json:"key"`   // 0..3
	Type  int `json:"type"`  // 0 shell, 1 command, 2 local PF, 3 remote PF
	Cmd   int `json:"cmd"`   // command text index
	Start int `json:"start"` // seconds relative to the session clock
	Exp   int `json:"exp"`
	Len   int `json:"len,omitempty"` // command grants: index into c07Lens (0 short text, 1 = 254, 2 = 255 bytes: what an intent can carry on the wire)
}

type c07eReq struct {
	Kind  int `json:"kind"` // 0 exec command, 1 exec with shell flag, 2 local port forward, 3 issue a shell grant for itself, 4 remote port forward, 5 open a port-forward DATA tube and write to it, 6 port-forward control request with the drawn direction and network-type bytes
	Cmd   int `json:"cmd"`
	Var   int `json:"var"`            // text variant: 0 exact, 1 prefix, 2 suffix, 3 other case, 4 extra blank; kind 5: odd = unreliable tube
	WaitS int `json:"wait"`           // seconds to let pass before the request
	HoldS int `json:"hold,omitempty"` // kinds 0,1,2,4,6: seconds to let pass AFTER the tubes of the request were opened and BEFORE its body is sent
	Dir   int `json:"dir,omitempty"`  // kind 6: direction byte of the control message (the protocol defines 4 = local, 5 = remote)
	Net   int `json:"net,omitempty"`  // kind 6: network-type byte (the protocol defines 1 tcp, 2 udp, 3 unix); the address is always a unix path
	Len   int `json:"len,omitempty"`  // kinds 0, 1: index into c07Lens - the base command extended to 254 / 255 / 256 / 300 bytes before the variant is applied
	// kinds 2 and 6 (local direction): the address to forward to is not the harness's listening socket but one the server
	// cannot connect to - 1: a unix path in a directory that does not exist, 2: a path that does not exist in the harness's
	// directory, 3: a socket file nobody listens on (connection refused). The dial fails at once; nothing blocks.
	Bad int `json:"bad,omitempty"`
}

type c07eCase struct {
	Grants  []c07eGrant `json:"grants"`
	User    int         `json:"user"`
	Key     int         `json:"key"`
	InFile  bool        `json:"inFile"` // the key is also listed in the user's authorized_keys (then the session is NOT grant-admitted)
	Enabled bool        `json:"enabled"`
	Reqs    []c07eReq   `json:"reqs"`
}

var c07eCmds = []string{"ls", "cat /etc/motd", "true", "uname -a"}
var c07eUsers = []string{"alice", "bob", "Alice", "Bob"} // distinct accounts; index^2 differs by case only

func c07eText(cmd, variant, ln int) string {
	base := c07eCmds[cmd%len(c07eCmds)]
	if n := c07Lens[ln%len(c07Lens)]; n > 0 {
		base = c07Pad(base, n)
	}
	switch variant % 5 {
	case 1:
		return base[:len(base)-1]
	case 2:
		return base + " -l"
	case 3:
		return string(bytes.ToUpper([]byte(base)))
	case 4:
		return base + " "
	}
	return base
}

// ---- process-wide fixtures (outside any bubble)
var (
	c07eOnce    sync.Once
	c07eDir     string // directory of the per-case port-forward target sockets
	c07eStale   string // a socket file in c07eDir that nobody listens on
	c07eSrvKey  *keys.X25519KeyPair
	c07eSrvKEM  *keys.KEMKeyPair
	c07eSrvLeaf *certs.Certificate
	c07eLog     *logrus.Entry
)

func c07eSetup() {
	c07eOnce.Do(func() {
		logrus.SetOutput(io.Discard)
		logrus.SetLevel(logrus.PanicLevel)
		l := logrus.New()
		l.SetOutput(io.Discard)
		l.SetLevel(logrus.PanicLevel)
		c07eLog = logrus.NewEntry(l)
		dir, err := os.MkdirTemp("", "verif-c07-")
		if err != nil {
			panic(err)
		}
		c07eDir = dir
		// a socket file left behind by a listener that is gone: connecting to it is refused at once
		c07eStale = filepath.Join(dir, "stale.sock")
		if ln, err := net.ListenUnix("unix", &net.UnixAddr{Name: c07eStale, Net: "unix"}); err == nil {
			ln.SetUnlinkOnClose(false)
			ln.Close()
		}
		c07eSrvKey = keys.GenerateNewX25519KeyPair()
		c07eSrvKEM, err = keys.GenerateKEMKeyPair(rand.Reader)
		if err != nil {
			panic(err)
		}
		c07eSrvLeaf, err = certs.SelfSignLeaf(&certs.Identity{PublicKey: c07eSrvKey.Public, Names: []certs.Name{certs.RawStringName("target.example")}})
		if err != nil {
			panic(err)
		}
	})
}

// c07eTarget is the service a local port forwarding points at: a unix socket of the
// harness, one per case, created and served OUTSIDE the bubble (a goroutine blocked in a
// real accept must not live in a bubble). It counts the connections it receives and
// closes each at once. Count is a synchronous snapshot that may be taken inside the
// bubble: it connects from a recognisable (abstract) local address and the accept loop
// answers that connection with the number of OTHER connections accepted before it - the
// listen queue is first-in first-out, so every connect() that returned before the probe
// was made is included.
type c07eTarget struct {
	path string
	ln   *net.UnixListener
}

const c07eProbePrefix = "@verif-c07-probe-"

var c07eTargetSeq atomic.Int64

func c07eNewTarget() (*c07eTarget, error) {
	c07eSetup()
	path := filepath.Join(c07eDir, fmt.Sprintf("pf-%d.sock", c07eTargetSeq.Add(1)))
	ln, err := net.ListenUnix("unix", &net.UnixAddr{Name: path, Net: "unix"})
	if err != nil {
		return nil, err
	}
	go func() {
		n := uint32(0)
		for {
			c, err := ln.AcceptUnix()
			if err != nil {
				return
			}
			if ra, ok := c.RemoteAddr().(*net.UnixAddr); ok && ra != nil && len(ra.Name) > len(c07eProbePrefix) && ra.Name[:len(c07eProbePrefix)] == c07eProbePrefix {
				c.Write(binary.BigEndian.AppendUint32(nil, n))
				c.Close()
				continue
			}
			n++
			c.Close()
		}
	}()
	return &c07eTarget{path: path, ln: ln}, nil
}

func (tg *c07eTarget) Close() {
	tg.ln.Close()
	os.Remove(tg.path)
}

// Count returns the number of connections the target has received so far.
func (tg *c07eTarget) Count() (int, error) {
	laddr := &net.UnixAddr{Name: fmt.Sprintf("%s%d-%d", c07eProbePrefix, os.Getpid(), c07eTargetSeq.Add(1)), Net: "unix"}
	c, err := net.DialUnix("unix", laddr, &net.UnixAddr{Name: tg.path, Net: "unix"})
	if err != nil {
		return 0, err
	}
	defer c.Close()
	var b [4]byte
	if _, err := io.ReadFull(c, b[:]); err != nil {
		return 0, err
	}
	return int(binary.BigEndian.Uint32(b[:])), nil
}

type c07eModelGrant struct {
	g     c07eGrant
	used  bool
	maybe bool // a forwarding this grant authorized failed because the address could not be reached: the server may or may not have spent it
}

func c07eScenario(c c07eCase, tg *c07eTarget, v *vlib.Verdict) {
	c07eSetup()
	bubbleStart := time.Now()
	now := func() time.Time { return verifAuthzT0.Add(time.Since(bubbleStart)) }
	restore := verifAuthzInstallThunks(now)
	defer restore()
	var started []string
	var smu sync.Mutex
	var fakePid atomic.Int32
	fakePid.Store(4000000)
	thunks.StartCmd = func(cmd *exec.Cmd) error {
		smu.Lock()
		started = append(started, fmt.Sprint(cmd.Args))
		smu.Unlock()
		p, err := os.FindProcess(int(fakePid.Add(1)))
		if err != nil {
			return err
		}
		cmd.Process = p
		return nil
	}
	srvAddr, cliAddr := simnet.Addr("10.1.0.1", 7777), simnet.Addr("10.1.0.2", 5555)
	nw := simnet.New()
	ks := authkeys.NewSyncAuthKeySet()
	tcfg := transport.ServerConfig{
		KeyPair: c07eSrvKey, KEMKeyPair: c07eSrvKEM, Certificate: c07eSrvLeaf, HandshakeTimeout: 5 * time.Second,
		ClientVerify: &transport.VerifyConfig{AuthKeys: ks, AuthKeysAllowed: true},
	}
	tr, err := transport.NewServer(nw.Listen(srvAddr), tcfg)
	if err != nil {
		v.Failf("C07:sanity:fixture", "NewServer: %v", err)
		return
	}
	serveDone := make(chan struct{})
	go func() { tr.Serve(); close(serveDone) }()
	defer func() { tr.Close(); <-serveDone }()
	z := verifAuthzNewServerExt(tr, ks, c.Enabled)
	user := c07eUsers[c.User%len(c07eUsers)]
	// ---- grants (stored the way a target stores them) and the model
	var model []*c07eModelGrant
	for _, g := range c.Grants {
		gt := []authgrants.GrantType{authgrants.Shell, authgrants.Command, authgrants.LocalPF, authgrants.RemotePF}[g.Type%4]
		in := verifAuthzIntent(c07eUsers[g.User%len(c07eUsers)], g.Key%verifAuthzNKeys, gt, c07eText(g.Cmd, 0, g.Len), verifAuthzAt(g.Start), verifAuthzAt(g.Exp))
		if err := z.S.AddAuthGrant(in); err == nil {
			model = append(model, &c07eModelGrant{g: g})
		}
	}
	if c.InFile {
		pk := verifAuthzKey(c.Key % verifAuthzNKeys)
		z.WriteKeys(user, []byte(pk.String()+"\n"))
		ks.AddKey(verifAuthzKey(c.Key % verifAuthzNKeys))
	}
	// which stored grants belong to (user, key)?
	var mine []*c07eModelGrant
	for _, m := range model {
		if c07eUsers[m.g.User%len(c07eUsers)] == user && m.g.Key%verifAuthzNKeys == c.Key%verifAuthzNKeys {
			mine = append(mine, m)
		}
	}
	expectGrantAdmission := !c.InFile && c.Enabled && len(mine) > 0
	// ---- client: transport handshake
	kp := verifAuthzKeyPair(c.Key % verifAuthzNKeys)
	leaf, err := certs.SelfSignLeaf(&certs.Identity{PublicKey: kp.Public})
	if err != nil {
		v.Failf("C07:sanity:fixture", "SelfSignLeaf: %v", err)
		return
	}
	cli := transport.NewClient(nw.Dial(cliAddr, srvAddr), srvAddr, transport.ClientConfig{
		Exchanger: kp, Leaf: leaf, HSTimeout: 2 * time.Second, Verify: transport.VerifyConfig{InsecureSkipVerify: true},
	})
	defer cli.Close()
	hsErr := cli.Handshake()
	inKeySet := c.InFile
	for _, m := range model {
		if m.g.Key%verifAuthzNKeys == c.Key%verifAuthzNKeys && c.Enabled {
			inKeySet = true
		}
	}
	if hsErr != nil {
		if inKeySet {
			v.Label("transport-refused-although-key-in-set")
		}
		v.Label("transport-refused")
		v.NonTrivial = len(c.Grants) > 0
		if expectGrantAdmission {
			v.Failf("C07:e2e:stored-grant-does-not-admit", "a grant for (%s, K%d) is stored and authgrants are enabled, but the transport handshake failed: %v", user, c.Key%verifAuthzNKeys, hsErr)
		}
		return
	}
	h, err := tr.AcceptTimeout(2 * time.Second)
	if err != nil {
		v.Label("transport-refused(key-not-in-set;client-unaware)")
		return
	}
	sessDone := make(chan struct{})
	go func() { z.S.newSession(h); close(sessDone) }()
	mux := tubes.Client(cli, &tubes.Config{Timeout: 0, Log: c07eLog})
	defer func() {
		done := make(chan struct{})
		go func() { mux.Stop(); close(done) }()
		select {
		case <-done:
		case <-time.After(20 * time.Second):
		}
		h.Close()
		select {
		case <-sessDone:
		case <-time.After(20 * time.Second):
		}
	}()
	// ---- user authentication
	ua, err := mux.CreateReliableTube(common.UserAuthTube)
	if err != nil {
		v.Discard = true
		return
	}
	authed := make(chan bool, 1)
	go func() { authed <- userauth.RequestAuthorization(ua, user) }()
	var granted bool
	select {
	case granted = <-authed:
	case <-time.After(20 * time.Second):
		v.Label("userauth-no-answer")
		ua.Close()
		return
	}
	ua.Close()
	switch {
	case granted && !c.InFile && !expectGrantAdmission:
		v.Failf(c07eID()+":e2e:login-granted-without-entry-or-grant", "user %s, key K%d: login confirmed although the key is not in the user's authorized_keys and no unconsumed grant for exactly that pair exists (enabled=%v, grants=%+v)", user, c.Key%verifAuthzNKeys, c.Enabled, c.Grants)
		return
	case !granted && (c.InFile || expectGrantAdmission):
		v.Failf("C07:e2e:login-refused-despite-entry-or-grant", "user %s, key K%d: login refused (inFile=%v, grant admission expected=%v)", user, c.Key%verifAuthzNKeys, c.InFile, expectGrantAdmission)
		return
	}
	if !granted {
		v.Label("login-refused")
		v.NonTrivial = len(c.Grants) > 0
		return
	}
	if c.InFile {
		v.Label("admitted-by-authorized-keys(not-the-subject)")
		return
	}
	v.Label("admitted-by-grant")
	// after login the grants for (user,key) are gone from the server map and the key from the key set
	if _, err := z.S.AuthorizeKeyAuthGrant(user, kp.Public); err == nil {
		v.Failf("C07:e2e:grant-reusable-after-login", "after a grant login a second admission for (%s, K%d) still succeeds", user, c.Key%verifAuthzNKeys)
		return
	}
	// ---- requests
	elapsed := func() int { return int(time.Since(bubbleStart) / time.Second) }
	mustRefuse := 0
	// The harness's target socket is observed after every request. The server may connect to it only on behalf
	// of a local forwarding that was authorized (model: a local port-forward request that matched an effective,
	// unused grant was confirmed). The forwarding is the action the grant pays for; data tubes opened afterwards
	// are carried by it and are not judged against the grant's window again.
	fwdAuthorized := false
	fwdUnknown := false // a local port-forward request within a second of a grant boundary was confirmed: connections are not judged any more
	lastControl := "no-control-request"
	seen, err := tg.Count()
	if err != nil {
		v.Inconclusive = "port-forward target probe failed: " + err.Error()
		return
	}
	for ri, rq := range c.Reqs {
		if rq.WaitS > 0 {
			time.Sleep(time.Duration(rq.WaitS) * time.Second)
		}
		var t int
		var match *c07eModelGrant
		edge, judged := false, false
		text := c07eText(rq.Cmd, rq.Var, rq.Len)
		// the address a local forwarding is asked for: the harness's listening socket, or one the server cannot reach
		fwdAddr, unreachable := tg.path, false
		if rq.Kind == 2 || rq.Kind == 6 && byte(rq.Dir) == 4 {
			switch rq.Bad % 4 {
			case 1:
				fwdAddr, unreachable = "/nonexistent-verif-c07/local.sock", true
			case 2:
				fwdAddr, unreachable = filepath.Join(c07eDir, "no-such.sock"), true
			case 3:
				fwdAddr, unreachable = c07eStale, true
			}
		}
		// judge consults the model at the moment the request proper is SENT: an action is requested (and, if
		// allowed, started) when its request message arrives, not when the tubes that carry it were opened.
		judge := func() {
			judged = true
			t = elapsed()
			valid := func(m *c07eModelGrant) bool { return !m.used && m.g.Start <= t && t < m.g.Exp }
			for _, m := range mine {
				if !valid(m) {
					continue
				}
				switch rq.Kind {
				case 0:
					if m.g.Type%4 == 1 && c07eText(m.g.Cmd, 0, m.g.Len) == text {
						match = m
					}
				case 1:
					if m.g.Type%4 == 0 {
						match = m
					}
				case 2:
					if m.g.Type%4 == 2 {
						match = m
					}
				case 4:
					if m.g.Type%4 == 3 {
						match = m
					}
				case 6:
					// a forwarding is local (direction 4) or remote (direction 5) and needs a grant of exactly that
					// type; any other direction byte names no action a grant type exists for
					if byte(rq.Dir) == 4 && m.g.Type%4 == 2 || byte(rq.Dir) == 5 && m.g.Type%4 == 3 {
						match = m
					}
				}
				if match != nil {
					break
				}
			}
			// time edge: a request issued within a second of a grant boundary is not judged
			for _, m := range mine {
				if rq.Kind != 5 && (t == m.g.Start || t == m.g.Exp || t+1 == m.g.Start || t+1 == m.g.Exp) {
					edge = true
				}
			}
		}
		// hold runs between opening the tubes of a request and sending its body
		hold := func() {
			if rq.HoldS > 0 {
				time.Sleep(time.Duration(rq.HoldS) * time.Second)
			}
			judge()
		}
		var allowed, answered bool
		what := ""
		switch rq.Kind {
		case 0, 1:
			what = fmt.Sprintf("exec %q shell=%v", text, rq.Kind == 1)
			allowed, answered = c07eExec(mux, text, rq.Kind == 1, hold)
		case 2:
			what = "local port forward"
			if unreachable {
				what = "local port forward to an address that cannot be reached"
			}
			allowed, answered = c07ePF(mux, 4, fwdAddr, hold)
		case 4:
			// the address to listen on is a unix socket in a directory that does not exist: the server answers the
			// request (that answer is the authorization decision), then fails to listen and gives up, so nothing blocks
			what = "remote port forward"
			allowed, answered = c07ePF(mux, 5, tg.path, hold)
		case 6:
			what = fmt.Sprintf("port-forward control request with direction byte %d, network-type byte %d", byte(rq.Dir), byte(rq.Net))
			if unreachable {
				what += " to an address that cannot be reached"
			}
			allowed, answered = c07ePFRaw(mux, c07ePFBytesNet(byte(rq.Net), byte(rq.Dir), fwdAddr), hold)
		case 3:
			what = "issue a shell grant for itself"
			judge()
			allowed, answered = c07eIssue(mux, user, c.Key%verifAuthzNKeys, now())
		case 5:
			// no control exchange: the delegate simply opens a port-forward DATA tube and writes to it. There is no
			// answer to read; what the server did is observed at the target socket below.
			what = "port-forward data tube"
			if rq.Var%2 == 1 {
				what = "port-forward data tube (unreliable)"
			}
			judge()
			answered = c07ePFData(mux, rq.Var%2 == 1)
		}
		if rq.HoldS > 0 && judged && rq.Kind != 3 && rq.Kind != 5 {
			v.Label("body-held-back-after-opening-the-tubes")
		}
		n, err := tg.Count()
		if err != nil {
			v.Inconclusive = "port-forward target probe failed: " + err.Error()
			return
		}
		reached := n - seen
		seen = n
		kind := []string{"exec-command", "exec-shell", "port-forward", "grant-issuing", "remote-port-forward", "port-forward-data-tube", "port-forward-undefined-direction"}[rq.Kind]
		localFwd := rq.Kind == 2 // a control request for a LOCAL forwarding towards the harness's target socket
		if rq.Kind == 6 {
			switch byte(rq.Dir) {
			case 4:
				kind, localFwd = "port-forward", true
			case 5:
				kind = "remote-port-forward"
			}
			if n := byte(rq.Net); n < 1 || n > 3 {
				kind += ":undefined-network-type"
			} else if n != 3 {
				kind += ":address-not-of-the-network-type"
			}
			v.Labelf("pf-control-bytes:dir=%d,net=%d", byte(rq.Dir), byte(rq.Net))
		}
		if unreachable {
			kind += ":unreachable-address"
		}
		if (rq.Kind == 0 || rq.Kind == 1) && rq.Len%len(c07Lens) != 0 {
			v.Labelf("exec-text-of-%d-bytes", len(text))
			for _, m := range mine {
				if g := c07eText(m.g.Cmd, 0, m.g.Len); m.g.Type%4 == 1 && len(g) >= 200 && g != text && len(text) > len(g) && text[:len(g)] == g {
					v.Labelf("exec-text-is-a-granted-text-of-%d-bytes-plus-a-suffix", len(g))
				}
			}
		}
		if rq.Kind == 5 {
			allowed = reached > 0
		}
		if answered && judged && !edge && rq.Kind != 5 && allowed && match == nil {
			v.Failf("C07:e2e:action-allowed-without-matching-grant:"+kind, "request %d (%s) at t=%ds in a session admitted through grants %+v was ALLOWED although no effective, unused, matching grant exists", ri, what, t, c.Grants)
			return
		}
		if localFwd && answered && allowed {
			if edge {
				fwdUnknown = true
			} else {
				fwdAuthorized = true
			}
		}
		if reached > 0 && !fwdAuthorized && !fwdUnknown {
			v.Failf("C07:e2e:target-reached-without-authorized-forwarding:"+kind+":"+lastControl, "request %d (%s, %s) at t=%ds in a session admitted through grants %+v: the server connected %d time(s) to the forwarding target although no local forwarding was authorized in this session", ri, what, lastControl, elapsed(), c.Grants, reached)
			return
		}
		if !answered || !judged {
			v.Labelf("request-unanswered:%d", rq.Kind)
			if rq.Kind == 3 {
				v.Note = c07eLastIssueErr
			}
			break
		}
		if rq.Kind == 5 {
			if !fwdAuthorized && !fwdUnknown {
				mustRefuse++
			}
			if reached > 0 {
				v.Label("pf-data-tube:reached-target:" + lastControl)
			} else {
				v.Label("pf-data-tube:target-not-reached:" + lastControl)
			}
			continue
		}
		if localFwd {
			switch {
			case allowed:
				lastControl = "after-granted-control-request"
			case unreachable && match != nil && !edge:
				lastControl = "after-authorized-forwarding-whose-dial-failed"
			default:
				lastControl = "after-refused-control-request"
			}
		}
		if match == nil {
			mustRefuse++
		}
		if edge {
			v.Label("request-at-grant-time-edge(not-judged)")
			if allowed && match != nil {
				match.used = true
			}
			continue
		}
		if !allowed && match != nil && (unreachable || match.maybe) {
			// A forwarding the model authorizes fails because the server cannot connect to the address (or: a request
			// is refused whose only matching grant authorized such a failed forwarding earlier). Whether the failed
			// attempt spent the grant is the server's choice - the statement is an only-if. The model keeps the grant
			// as unused, which is the more permissive reading, and goes on judging: whatever the server allows from
			// now on still needs a matching, effective, unused grant.
			if unreachable {
				match.maybe = true
				v.Label("authorized-forwarding-failed:address-unreachable(grant-kept-in-the-model)")
			} else {
				v.Label("refused:" + kind + ":only-grant-possibly-spent-by-a-failed-forwarding")
			}
			continue
		}
		if !allowed && match != nil {
			// the statement is an only-if; a refusal of a granted action is not a violation (and for shell requests
			// it depends on whether a pty and a login shell can be started in this environment). The grant may or
			// may not have been consumed by the attempt: stop judging this session.
			v.Label("granted-action-refused(not-judged):" + kind)
			break
		}
		if allowed {
			match.used = true
			v.Label("allowed:" + kind)
		} else {
			v.Label("refused:" + kind)
		}
	}
	v.NonTrivial = mustRefuse > 0
}

func c07eReadByte(t *tubes.Reliable) (byte, bool) {
	b := make([]byte, 1)
	t.SetReadDeadline(time.Now().Add(10 * time.Second))
	if _, err := io.ReadFull(t, b); err != nil {
		return 0, false
	}
	return b[0], true
}

// c07eExec opens the two exec tubes, sends the execution request and reads the status byte.
func c07eExec(mux *tubes.Muxer, cmd string, shell bool, hold func()) (allowed, answered bool) {
	stdin, err := mux.CreateReliableTube(common.ExecTube)
	if err != nil {
		return false, false
	}
	stdout, err := mux.CreateReliableTube(common.ExecTube)
	if err != nil {
		stdin.Close()
		return false, false
	}
	defer stdin.Close()
	defer stdout.Close()
	var msg []byte
	flags := byte(0)
	if shell {
		flags = 1 // usePty
	}
	msg = append(msg, flags)
	msg = binary.BigEndian.AppendUint32(msg, uint32(len(cmd)))
	msg = append(msg, cmd...)
	msg = binary.BigEndian.AppendUint32(msg, 0)
	hold() // both tubes are open; now (perhaps later) the request itself
	stdin.Write(msg)
	b, ok := c07eReadByte(stdout)
	if !ok {
		return false, false
	}
	return b == 1, true // execConf = 1, execFail = 2
}

func c07ePF(mux *tubes.Muxer, fwdType byte, target string, hold func()) (allowed, answered bool) {
	return c07ePFRaw(mux, c07ePFBytes(fwdType, target), hold)
}

// c07ePFRaw opens a port-forward control tube, sends the control message msg and reads the answer byte.
func c07ePFRaw(mux *tubes.Muxer, msg []byte, hold func()) (allowed, answered bool) {
	ctl, err := mux.CreateReliableTube(common.PFControlTube)
	if err != nil {
		return false, false
	}
	defer ctl.Close()
	hold() // the control tube is open; now (perhaps later) the request itself
	ctl.Write(msg)
	b, ok := c07eReadByte(ctl)
	if !ok {
		return false, false
	}
	return b == c07ePFSuccess, true
}

// c07ePFData opens a port-forward data tube, writes to it and waits until the server
// closes it (it refused, or the forwarded service hung up) or nothing has happened for 5 s.
func c07ePFData(mux *tubes.Muxer, unreliable bool) (sent bool) {
	payload := []byte("verif-c07: bytes for the forwarded service")
	if unreliable {
		u, err := mux.CreateUnreliableTube(common.PFTube)
		if err != nil {
			return false
		}
		u.Write(payload)
		time.Sleep(2 * time.Second)
		u.Close()
		return true
	}
	t, err := mux.CreateReliableTube(common.PFTube)
	if err != nil {
		return false
	}
	t.Write(payload)
	t.SetReadDeadline(time.Now().Add(5 * time.Second))
	io.Copy(io.Discard, t)
	t.Close()
	return true
}

func c07eIssue(mux *tubes.Muxer, user string, key int, now time.Time) (allowed, answered bool) {
	t, err := mux.CreateReliableTube(common.AuthGrantTube)
	if err != nil {
		return false, false
	}
	defer t.Close()
	in := verifAuthzIntent(user, key, authgrants.Shell, "", now.Add(-time.Minute), now.Add(24*time.Hour))
	// on the wire the delegate certificate must be a complete, signed certificate
	if leaf, err := certs.SelfSignLeaf(&certs.Identity{PublicKey: verifAuthzKey(key)}); err == nil {
		in.DelegateCert = *leaf
	}
	in.StartTime = time.Unix(in.StartTime.Unix(), 0)
	in.ExpTime = time.Unix(in.ExpTime.Unix(), 0)
	if err := authgrants.WriteIntentCommunication(t, *in); err != nil {
		c07eLastIssueErr = "write: " + err.Error()
		return false, false
	}
	t.SetReadDeadline(time.Now().Add(10 * time.Second))
	m, err := authgrants.ReadConfOrDenial(t)
	if err != nil {
		c07eLastIssueErr = "read: " + err.Error()
		return false, false
	}
	return m.MsgType == authgrants.IntentConfirmation, true
}

func c07eRun(t *testing.T) func(c c07eCase, v *vlib.Verdict) {
	return func(c c07eCase, v *vlib.Verdict) {
		tg, err := c07eNewTarget() // outside the bubble
		if err != nil {
			v.Inconclusive = "cannot create the port-forward target socket: " + err.Error()
			return
		}
		defer tg.Close()
		res := vlib.Bubble(t, 90*time.Second, func() { c07eScenario(c, tg, v) })
		if res.Hung {
			v.Inconclusive = "bubble hung in real time (C07 e2e)"
			return
		}
		if res.Panic != "" && v.OK() && !res.Leak() && !res.Deadlock() {
			v.Failf(vlib.PanicSig(res.Panic, res.Stacks), "panic: %s", res.Panic)
		}
		if res.Leak() {
			v.Label("goroutines-left(not-judged-here)")
		}
	}
}

func c07eGen(t *rapid.T) c07eCase {
	c := c07eCase{User: rapid.SampledFrom([]int{0, 0, 1, 1, 2, 3}).Draw(t, "user"), Key: rapid.IntRange(0, 1).Draw(t, "key")}
	c.Enabled = rapid.SampledFrom([]bool{true, true, true, false}).Draw(t, "enabled")
	c.InFile = rapid.SampledFrom([]bool{false, false, false, false, true}).Draw(t, "inFile")
	c.Grants = rapid.SliceOfN(rapid.Custom(func(t *rapid.T) c07eGrant {
		g := c07eGrant{Type: rapid.SampledFrom([]int{0, 1, 1, 1, 2, 2, 3}).Draw(t, "type"), Cmd: rapid.IntRange(0, 2).Draw(t, "cmd")}
		if g.Type == 1 {
			// a third of the command grants carry a text at the length limit of an intent's strings (254 / 255 bytes)
			g.Len = rapid.SampledFrom([]int{0, 0, 0, 0, 1, 2, 2}).Draw(t, "len")
		}
		// mostly for the connecting pair
		g.User = c.User
		g.Key = c.Key
		if rapid.IntRange(0, 5).Draw(t, "other") == 0 {
			g.User = rapid.IntRange(0, len(c07eUsers)-1).Draw(t, "guser")
			g.Key = rapid.IntRange(0, 2).Draw(t, "gkey")
			if rapid.IntRange(0, 1).Draw(t, "near") == 0 {
				g.User, g.Key = c.User^2, c.Key // the connecting key, for the account whose name differs by case only
			}
		}
		g.Start = rapid.SampledFrom([]int{-100, -100, -100, 20, 500}).Draw(t, "start")
		g.Exp = rapid.SampledFrom([]int{1000, 1000, 1000, 30, -10}).Draw(t, "exp")
		return g
	}), 0, 4).Draw(t, "grants")
	nreq := rapid.IntRange(1, 5).Draw(t, "nreq")
	for i := 0; i < nreq; i++ {
		rq := c07eReq{
			Kind:  rapid.SampledFrom([]int{0, 0, 0, 1, 2, 2, 3, 3, 4, 4, 5, 6, 6}).Draw(t, "kind"),
			Cmd:   rapid.IntRange(0, 2).Draw(t, "cmd"),
			Var:   rapid.SampledFrom([]int{0, 0, 0, 1, 2, 3, 4}).Draw(t, "var"),
			WaitS: rapid.SampledFrom([]int{0, 0, 0, 5, 40}).Draw(t, "wait"),
			HoldS: rapid.SampledFrom([]int{0, 0, 0, 0, 12, 40}).Draw(t, "hold"),
		}
		// a third of the requests ask for exactly what one of the stored grants names (so that grants get used up and
		// later requests meet a session whose grants are partly or wholly spent)
		if len(c.Grants) > 0 && rapid.IntRange(0, 2).Draw(t, "like-a-grant") == 0 {
			g := rapid.SampledFrom(c.Grants).Draw(t, "like")
			rq.Kind, rq.Cmd, rq.Var = []int{1, 0, 2, 4}[g.Type%4], g.Cmd, 0
			if g.Type%4 == 1 && g.Len != 0 {
				// a granted text at the length limit: asked for as it is, with something appended or cut (the variants), or
				// as the longer text that starts with it (256 / 300 bytes)
				rq.Len = rapid.SampledFrom([]int{g.Len, g.Len, g.Len, g.Len, 3, 4}).Draw(t, "len-like")
				rq.Var = rapid.SampledFrom([]int{0, 0, 2, 4, 1}).Draw(t, "var-like")
			}
			if g.Type%4 == 2 {
				// a granted local forwarding, often to an address the server cannot reach
				rq.Bad = rapid.SampledFrom([]int{0, 0, 1, 2, 3}).Draw(t, "bad-like")
			}
		} else {
			switch rq.Kind {
			case 0, 1:
				rq.Len = rapid.SampledFrom([]int{0, 0, 0, 0, 0, 1, 2, 3, 4}).Draw(t, "len")
			case 2:
				rq.Bad = rapid.SampledFrom([]int{0, 0, 0, 1, 2, 3}).Draw(t, "bad")
			}
		}
		if rq.Kind == 6 {
			rq.Dir = rapid.SampledFrom([]int{0, 1, 3, 6, 99, 255, 4, 5}).Draw(t, "dir")
			rq.Net = rapid.SampledFrom([]int{3, 3, 3, 3, 3, 1, 2, 0, 4, 255}).Draw(t, "net")
			if rq.Dir == 4 {
				rq.Bad = rapid.SampledFrom([]int{0, 0, 0, 1, 2, 3}).Draw(t, "bad")
			}
		}
		// a local forwarding to an unreachable address is mostly followed by further forwarding requests (to the
		// reachable target, or remote ones) in the same session
		afterBad := i > 0 && c.Reqs[i-1].Bad != 0 && (c.Reqs[i-1].Kind == 2 || c.Reqs[i-1].Kind == 6 && c.Reqs[i-1].Dir == 4)
		if afterBad && rapid.IntRange(0, 2).Draw(t, "forward-after-unreachable") != 0 {
			rq.Kind, rq.Bad, rq.Len = rapid.SampledFrom([]int{2, 2, 4, 6}).Draw(t, "kind-after-unreachable"), 0, 0
			if rq.Kind == 6 {
				rq.Dir, rq.Net = rapid.SampledFrom([]int{4, 5}).Draw(t, "dir"), 3
			}
			c.Reqs = append(c.Reqs, rq)
			continue
		}
		// a data tube most often follows a control request (granted or refused), but also comes out of the blue (above)
		if i > 0 && (c.Reqs[i-1].Kind == 2 || c.Reqs[i-1].Kind == 6) && rapid.IntRange(0, 2).Draw(t, "data-after-control") != 0 {
			rq.Kind, rq.Bad, rq.Len = 5, 0, 0
		}
		c.Reqs = append(c.Reqs, rq)
	}
	return c
}

// c07eID: the same end-to-end test serves C07 (what a grant session may do) and C05 (who may log in); the
// concurrent unit also serves C06 (a confirmed grant is a stored grant).
func c07eID() string {
	if id := vlib.GetEnv().ID; id == "C05" || id == "C06" {
		return id
	}
	return "C07"
}

func TestVerifC07EndToEnd(t *testing.T) {
	c07eSetup()
	vlib.Drive(t, vlib.Spec[c07eCase]{ID: c07eID(), Quick: 1500, Gen: c07eGen, Run: c07eRun(t)})
}

var c07eLastIssueErr string

const c07ePFSuccess = 1 // portforwarding: failure = 0, success = 1

// c07ePFBytes: control message for a LOCAL forward to the harness's unix socket
// (net type 3 = unix, forward type 4 = local, 16-bit address length, address).
func c07ePFBytes(fwdType byte, target string) []byte { return c07ePFBytesNet(3, fwdType, target) }

// c07ePFBytesNet: the same with any network-type and direction byte. Only the local direction (4) names the
// harness's socket; every other direction names a path in a directory that does not exist, so a server that
// (rightly or wrongly) goes on to listen fails at once and nothing blocks. The address is a unix path whatever
// the network-type byte says: for the tcp / udp types it is not a host:port pair and the request is malformed.
func c07ePFBytesNet(netType, fwdType byte, target string) []byte {
	addr := target
	if fwdType != 4 {
		addr = "/nonexistent-verif-c07/remote.sock"
	}
	msg := []byte{netType, fwdType}
	msg = binary.BigEndian.AppendUint16(msg, uint16(len(addr)))
	return append(msg, addr...)
}
