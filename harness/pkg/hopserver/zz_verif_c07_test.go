package hopserver

// C07 — a delegate session can do only what its grants allow, once, and in time.
//
// Layer 1: stateful model-based test, no sockets. A case is a list of operations
// on one target HopServer under a case-driven clock (thunks.TimeNow): store a
// grant (real AddAuthGrant), connect as (user, key) (transport key-set probe +
// the decision sequence of checkAuthorization with the real AuthorizeKey /
// AuthorizeKeyAuthGrant, yielding the hopSession exactly as checkAuthorization
// leaves it), request an action on an admitted session (the gate of startCodex:
// the real checkCmd), advance the clock. The oracle is a reference model of the
// statement: per (user, key) a multiset of stored grants, per session the
// multiset moved into it at login.
//
// Only exec requests (shell / command) have a gate in the code under test;
// port-forwarding and grant-issuing tubes are dispatched by hopSession.start
// without consulting the grants (DESIGN.md section 6 row 10) — that needs the
// real session over a transport and is layer 2.

import (
	"fmt"
	"hop.computer/hop/portforwarding"
	"strings"
	"testing"
	"time"

	"pgregory.net/rapid"
	"verif.local/vlib"

	"hop.computer/hop/authgrants"
	"hop.computer/hop/certs"
)

// ---------------------------------------------------------------------------
// case

type c07Op struct {
	Op    string `json:"op"` // grant | connect | request | advance
	User  int    `json:"u,omitempty"`
	Key   int    `json:"key,omitempty"`
	GType int    `json:"gt,omitempty"`    // grant: 1 shell, 2 command, 3 local PF, 4 remote PF, other = unknown
	Cmd   int    `json:"cmd,omitempty"`   // grant/request: base command
	Var   int    `json:"var,omitempty"`   // grant/request: text variant of the base command
	Len   int    `json:"len,omitempty"`   // grant/request: index into c07Lens - the base command is extended to exactly that many bytes before the variant is applied (0 = the short text)
	Start int    `json:"start,omitempty"` // grant: seconds on the case clock
	Exp   int    `json:"exp,omitempty"`
	// sub-second parts (milliseconds 0..999, added to Start / Exp / Dt): grant times and the clock have
	// millisecond resolution; the window is start <= now < expiry on the exact instants
	StartMs int `json:"startms,omitempty"`
	ExpMs   int `json:"expms,omitempty"`
	DtMs    int `json:"dtms,omitempty"`
	Sess  int    `json:"sess,omitempty"`  // request: selects among the admitted sessions
	Shell bool   `json:"shell,omitempty"` // request: pty/shell flag of the exec request
	PF    int    `json:"pf,omitempty"`    // request: 0 exec request; 1 local, 2 remote port-forward request (through the real checkPF)
	Dt    int    `json:"dt,omitempty"`    // advance: seconds
}

type c07Case struct {
	Now0   int     `json:"now0"`
	Now0Ms int     `json:"now0ms,omitempty"`
	Ops  []c07Op `json:"ops"`
}

var c07Base = []string{"ls", "cat notes.txt", "Reboot now"}

const (
	c07Equal = iota
	c07Prefix
	c07Suffix
	c07Args
	c07CaseVar
	c07TrailBlank
	c07LeadBlank
	c07InnerBlank
	c07Empty
	c07Nul
	c07NVars
)

var c07VarName = [...]string{"equal", "prefix", "suffix", "extra-args", "case-variant", "trailing-blank", "leading-blank", "inner-blank", "empty", "trailing-nul"}

// c07Lens: lengths of command texts at and around the limit of the protocol's length-prefixed strings
// (common.MaxStringLen = 255: the longest command text an intent can carry; an exec request carries a 32-bit
// length): one below, at, one above, well above. Index 0 = the short base text as it is.
var c07Lens = []int{0, 254, 255, 256, 300}

// c07LenBias: most texts stay short
var c07LenBias = []int{0, 0, 0, 0, 0, 0, 1, 2, 2, 3, 4}

// c07LongBase extends base command cmd to exactly n bytes with a filler that depends on the position only, so
// the long texts of one base command are proper prefixes of each other (254 < 255 < 256 < 300) and a variant of
// one differs from it only at or beyond its last byte. The filler avoids every character the variants add.
func c07LongBase(cmd, n int) string { return c07Pad(c07Base[cmd%len(c07Base)], n) }

func c07Pad(base string, n int) string {
	b := []byte(base + " # ")
	for i := len(b); i < n; i++ {
		b = append(b, byte('a'+i%23)) // a..w
	}
	return string(b[:n])
}

func c07Text(cmd, variant, ln int) string {
	b := c07Base[cmd%len(c07Base)]
	if n := c07Lens[ln%len(c07Lens)]; n > 0 {
		b = c07LongBase(cmd, n)
	}
	switch variant {
	case c07Prefix:
		return b[:len(b)-1]
	case c07Suffix:
		return b + "x"
	case c07Args:
		return b + "; rm -rf /"
	case c07CaseVar:
		return strings.Map(func(r rune) rune {
			switch {
			case r >= 'a' && r <= 'z':
				return r - 32
			case r >= 'A' && r <= 'Z':
				return r + 32
			}
			return r
		}, b)
	case c07TrailBlank:
		return b + " "
	case c07LeadBlank:
		return " " + b
	case c07InnerBlank:
		if i := strings.IndexByte(b, ' '); i >= 0 {
			return b[:i] + " " + b[i:]
		}
		return b + "  "
	case c07Empty:
		return ""
	case c07Nul:
		return b + "\x00"
	}
	return b
}

// ---------------------------------------------------------------------------
// model

// c07Grant is what the statement talks about: kind, text, validity interval.
// Two grants with equal fields are interchangeable, so multisets of this struct
// are compared.
type c07Grant struct {
	Type  authgrants.GrantType
	Cmd   string
	Start int64 // unix nanoseconds
	Exp   int64
	Key   int
}

func (g c07Grant) String() string {
	return fmt.Sprintf("{type=%d cmd=%q start=%s exp=%s K%d}", g.Type, g.Cmd, c07Ms((g.Start-verifAuthzT0.UnixNano())/1e6), c07Ms((g.Exp-verifAuthzT0.UnixNano())/1e6), g.Key+1)
}

// c07Ms prints a case-relative time in milliseconds as seconds ("+2s", "+2.500s", "-0.001s").
func c07Ms(ms int64) string {
	if ms%1000 == 0 {
		return fmt.Sprintf("%+ds", ms/1000)
	}
	sign, a := "+", ms
	if ms < 0 {
		sign, a = "-", -ms
	}
	return fmt.Sprintf("%s%d.%03ds", sign, a/1000, a%1000)
}

func c07FromReal(a authgrants.Authgrant) c07Grant {
	g := c07Grant{Type: a.GrantType, Start: a.StartTime.UnixNano(), Exp: a.ExpTime.UnixNano(), Key: -1}
	if a.GrantType == authgrants.Command {
		g.Cmd = a.AssociatedData.CommandGrantData.Cmd
	}
	for i := 0; i < verifAuthzNKeys; i++ {
		if a.DelegateCert.PublicKey == verifAuthzKey(i) {
			g.Key = i
		}
	}
	return g
}

func c07Multiset(gs []c07Grant) map[c07Grant]int {
	m := map[c07Grant]int{}
	for _, g := range gs {
		m[g]++
	}
	return m
}

// c07Minus returns the elements of a that are not matched by elements of b
// (multiset difference a − b).
func c07Minus(a, b []c07Grant) []c07Grant {
	mb := c07Multiset(b)
	var out []c07Grant
	for _, g := range a {
		if mb[g] > 0 {
			mb[g]--
		} else {
			out = append(out, g)
		}
	}
	return out
}

// kindMatches: does grant g name the requested action (ignoring time)? A shell
// grant covers any exec request with the shell flag; a command grant covers
// exactly the non-shell request with identical text.
// A port-forward request is written as the reserved command text c07PFLocal / c07PFRemote (never a grant's text).
const (
	c07PFLocal  = "\x00port-forward:local"
	c07PFRemote = "\x00port-forward:remote"
)

func (g c07Grant) kindMatches(text string, shell bool) bool {
	switch text {
	case c07PFLocal:
		return g.Type == authgrants.LocalPF
	case c07PFRemote:
		return g.Type == authgrants.RemotePF
	}
	if shell {
		return g.Type == authgrants.Shell
	}
	return g.Type == authgrants.Command && g.Cmd == text
}

func (g c07Grant) inTime(now int64) bool { return g.Start <= now && now < g.Exp }

type c07Session struct {
	user string
	key  int
	real *hopSession
	live []c07Grant // grants moved into the session and not yet used
	used []c07Grant // grants consumed by an allowed request
}

// c07Why explains why the model has no grant for the request (label and
// signature part). Most specific reason first.
func c07Why(s *c07Session, text string, shell bool, now int64) string {
	early, late, usedBefore, otherText, otherKind := false, false, false, false, false
	for _, g := range s.live {
		switch {
		case g.kindMatches(text, shell) && now < g.Start:
			early = true
		case g.kindMatches(text, shell) && now >= g.Exp:
			late = true
		case !shell && g.Type == authgrants.Command && text != c07PFLocal && text != c07PFRemote:
			otherText = true
		default:
			otherKind = true
		}
	}
	for _, g := range s.used {
		if g.kindMatches(text, shell) {
			usedBefore = true
		}
	}
	switch {
	case usedBefore:
		return "used"
	case early:
		return "not-yet-effective"
	case late:
		return "expired"
	case otherText:
		return "different-command"
	case otherKind:
		return "other-kind"
	}
	return "no-grant-left"
}

// ---------------------------------------------------------------------------
// run

type c07UK struct {
	u string
	k int
}

func (uk c07UK) String() string { return fmt.Sprintf("(%q,K%d)", uk.u, uk.k+1) }

func c07Run(c c07Case, v *vlib.Verdict) {
	nowMs := int64(c.Now0)*1000 + int64(c.Now0Ms) // the case clock, milliseconds
	restore := verifAuthzInstallThunks(func() time.Time { return verifAuthzAtMs(nowMs) })
	defer restore()
	z := verifAuthzNewServer(true)

	stored := map[c07UK][]c07Grant{} // model of the server's grant map
	consumed := map[c07UK]bool{}     // pair logged in and nothing stored since
	var sessions []*c07Session
	labels := map[string]bool{}
	nt := false
	defer func() {
		v.NonTrivial = nt
		for l := range labels {
			v.Label(l)
		}
		v.Labelf("ops<=%d", c05Bucket(len(c.Ops)))
		v.Labelf("sessions=%d", len(sessions))
	}()

	storedForKey := func(k int) int {
		n := 0
		for uk, gs := range stored {
			if uk.k == k {
				n += len(gs)
			}
		}
		return n
	}

	for i, op := range c.Ops {
		switch op.Op {
		case "advance":
			nowMs += int64(op.Dt)*1000 + int64(op.DtMs)
			if nowMs%1000 != 0 {
				labels["clock:sub-second"] = true
			}
		case "grant":
			user := verifAuthzUsers[op.User%len(verifAuthzUsers)]
			uk := c07UK{user, op.Key}
			gt := authgrants.GrantType(op.GType)
			text := c07Text(op.Cmd, op.Var, op.Len)
			startMs, expMs := int64(op.Start)*1000+int64(op.StartMs), int64(op.Exp)*1000+int64(op.ExpMs)
			in := verifAuthzIntent(user, op.Key, gt, text, verifAuthzAtMs(startMs), verifAuthzAtMs(expMs))
			if err := z.S.AddAuthGrant(in); err != nil {
				v.Inconclusive = fmt.Sprintf("step %d: AddAuthGrant failed with authgrants enabled: %v", i, err)
				return
			}
			g := c07Grant{Type: gt, Start: in.StartTime.UnixNano(), Exp: in.ExpTime.UnixNano(), Key: op.Key}
			if gt == authgrants.Command {
				g.Cmd = text
			}
			stored[uk] = append(stored[uk], g)
			consumed[uk] = false
			labels[fmt.Sprintf("grant:type=%d", op.GType)] = true
			if gt == authgrants.Command && op.Len%len(c07Lens) != 0 {
				labels[fmt.Sprintf("grant:command-text-of-%d-bytes", len(text))] = true
			}
			switch {
			case expMs <= startMs:
				labels["grant:empty-interval"] = true
			case startMs > nowMs:
				labels["grant:starts-in-future"] = true
			case expMs <= nowMs:
				labels["grant:already-expired"] = true
			}
			if startMs%1000 != 0 {
				labels["grant:sub-second-start"] = true
			}
			if expMs%1000 != 0 {
				labels["grant:sub-second-expiry"] = true
			}
		case "connect":
			user := verifAuthzUsers[op.User%len(verifAuthzUsers)]
			uk := c07UK{user, op.Key}
			model := stored[uk]
			if len(model) == 0 {
				for o, gs := range stored {
					if len(gs) > 0 && o.k == op.Key && verifAuthzNear(o.u, user) {
						labels["connect-as-near-collision-of-a-granted-user"] = true
						nt = true
					}
				}
			}
			inSet := z.InKeySet(op.Key)
			granted, viaGrant, actions := verifAuthzLogin(z.S, user, verifAuthzKey(op.Key))
			if granted && !viaGrant {
				// not this property's business (C05): no authorized_keys file exists in this check
				v.Inconclusive = fmt.Sprintf("step %d: AuthorizeKey succeeded without any authorized_keys file", i)
				return
			}
			if !granted {
				why := "no-grant"
				switch {
				case consumed[uk]:
					why = "consumed"
				case storedForKey(op.Key) > 0:
					why = "other-user"
				default:
					for o, gs := range stored {
						if o.u == user && len(gs) > 0 {
							why = "other-key"
						}
					}
				}
				labels["connect:refused:"+why] = true
				if why != "no-grant" {
					nt = true
				}
				if len(model) > 0 {
					v.Failf("C07:live-grant-refused", "step %d: connect (%q,K%d) refused although %d grants are stored for the pair", i, user, op.Key+1, len(model))
					return
				}
				continue
			}
			// admitted through grants
			if len(model) == 0 {
				why := "no-grant"
				switch {
				case consumed[uk]:
					why = "consumed"
				case storedForKey(op.Key) > 0:
					why = "other-user"
				default:
					for o, gs := range stored {
						if o.u == user && len(gs) > 0 {
							why = "other-key"
						}
					}
				}
				v.Failf("C07:admitted-without-grant:"+why, "step %d: connect (%q,K%d) admitted, model holds no grant for the pair (stored: %v)", i, user, op.Key+1, stored)
				return
			}
			got := make([]c07Grant, len(actions))
			for j, a := range actions {
				got[j] = c07FromReal(a)
			}
			if extra, missing := c07Minus(got, model), c07Minus(model, got); len(extra)+len(missing) > 0 {
				v.Failf("C07:session-grants-differ-from-stored", "step %d: connect (%q,K%d): session received %v beyond and lacks %v of the grants stored for the pair", i, user, op.Key+1, extra, missing)
				return
			}
			delete(stored, uk)
			consumed[uk] = true
			labels["connect:admitted"] = true
			if !inSet {
				labels["connect:admitted-key-not-in-keyset"] = true
			}
			// after login the server map holds no grant for (user, key): an immediate
			// second admission must fail (no-op when the property holds).
			if again, err := z.S.AuthorizeKeyAuthGrant(user, verifAuthzKey(op.Key)); err == nil {
				v.Failf("C07:grant-reusable-after-login", "step %d: second admission of (%q,K%d) right after login succeeded with %d grants", i, user, op.Key+1, len(again))
				return
			}
			// ... and the key is gone from the transport key set once no stored grant names it
			if storedForKey(op.Key) == 0 && z.InKeySet(op.Key) {
				v.Failf("C07:key-left-in-keyset", "step %d: K%d still admitted by the transport key set after its last grant moved into a session", i, op.Key+1)
				return
			}
			sessions = append(sessions, &c07Session{user: user, key: op.Key, live: append([]c07Grant{}, model...),
				real: verifAuthzSession(z.S, user, viaGrant, actions)})
		case "request":
			if len(sessions) == 0 {
				labels["request:no-admitted-session"] = true
				continue
			}
			s := sessions[op.Sess%len(sessions)]
			text := c07Text(op.Cmd, op.Var, op.Len)
			switch op.PF % 3 {
			case 1:
				text, op.Shell = c07PFLocal, false
			case 2:
				text, op.Shell = c07PFRemote, false
			}
			now := verifAuthzAtMs(nowMs).UnixNano()
			for _, g := range s.live {
				// the instants a whole-second (or otherwise rounded) comparison gets wrong
				const sec = int64(time.Second)
				floor := func(x int64) int64 { return x - ((x%sec)+sec)%sec }
				if g.kindMatches(text, op.Shell) {
					switch {
					case now < g.Start && now >= floor(g.Start):
						labels["request:in-the-second-of-the-start-but-before-it"] = true
					case now == g.Start:
						labels["request:exactly-at-start"] = true
					case now == g.Exp:
						labels["request:exactly-at-expiry"] = true
					case now > g.Exp && floor(now) == floor(g.Exp):
						labels["request:in-the-second-of-the-expiry-but-after-it"] = true
					}
				}
			}
			if !op.Shell && op.PF%3 == 0 {
				// texts that agree with a granted text up to a length limit and differ beyond it (either way round)
				for _, g := range s.live {
					if g.Type != authgrants.Command || g.Cmd == text {
						continue
					}
					switch {
					case strings.HasPrefix(text, g.Cmd) && len(g.Cmd) >= 200:
						labels[fmt.Sprintf("request:granted-text-of-%d-bytes-plus-a-suffix", len(g.Cmd))] = true
					case strings.HasPrefix(g.Cmd, text) && len(text) >= 200:
						labels[fmt.Sprintf("request:%d-byte-proper-prefix-of-a-granted-text", len(text))] = true
					}
				}
			}
			var candidates []c07Grant
			for _, g := range s.live {
				if g.kindMatches(text, op.Shell) && g.inTime(now) {
					candidates = append(candidates, g)
				}
			}
			why := ""
			if len(candidates) == 0 {
				why = c07Why(s, text, op.Shell, now)
				nt = true
			}
			var allowed bool
			switch text {
			case c07PFLocal:
				allowed = !s.real.usingAuthGrant || s.real.checkPF(portforwarding.PfLocal) == nil
			case c07PFRemote:
				allowed = !s.real.usingAuthGrant || s.real.checkPF(portforwarding.PfRemote) == nil
			default:
				allowed = verifAuthzExecAllowed(s.real, text, op.Shell)
			}
			after := make([]c07Grant, len(s.real.authorizedActions))
			for j, a := range s.real.authorizedActions {
				after[j] = c07FromReal(a)
			}
			removed, added := c07Minus(s.live, after), c07Minus(after, s.live)
			kind := "command:" + c07VarName[op.Var%c07NVars]
			if n := c07Lens[op.Len%len(c07Lens)]; n > 0 {
				kind += fmt.Sprintf(":of-a-%d-byte-text", n)
			}
			if op.Shell {
				kind = "shell"
			}
			if op.PF%3 != 0 {
				kind = []string{"", "port-forward:local", "port-forward:remote"}[op.PF%3]
			}
			if allowed {
				labels["request:"+kind+":allowed"] = true
			} else {
				labels["request:"+kind+":refused"] = true
			}
			if why != "" {
				labels["must-refuse:"+why] = true
			}
			if len(added) > 0 {
				v.Failf("C07:grant-appeared-in-session", "step %d: session (%q,K%d) gained grants %v by a request", i, s.user, s.key+1, added)
				return
			}
			if allowed {
				// The grant that disappeared from the session is the one the code used to
				// authorize the request: it must be a valid match, and exactly one.
				ctx := fmt.Sprintf("step %d: session (%q,K%d) at t=%s: exec request (shell=%v, cmd=%q) allowed; unused grants of the session before: %v; used before: %v; removed by the request: %v",
					i, s.user, s.key+1, c07Ms(nowMs), op.Shell, text, s.live, s.used, removed)
				switch {
				case len(removed) == 1 && removed[0].kindMatches(text, op.Shell) && removed[0].inTime(now):
					s.used = append(s.used, removed[0])
					s.live = after
				case len(removed) == 1:
					g := removed[0]
					sig := "C07:allowed-without-matching-grant:other-kind"
					switch {
					case g.kindMatches(text, op.Shell) && now < g.Start:
						sig = "C07:grant-not-yet-effective"
					case g.kindMatches(text, op.Shell):
						sig = "C07:grant-expired"
					case !op.Shell && g.Type == authgrants.Command && op.PF%3 == 0:
						sig = "C07:allowed-without-matching-grant:different-command"
					}
					v.Failf(sig, "%s", ctx)
					return
				case len(removed) == 0 && len(candidates) > 0:
					v.Failf("C07:grant-not-consumed", "%s", ctx)
					return
				case len(removed) == 0:
					sig := "C07:allowed-without-matching-grant:" + why
					switch why {
					case "used":
						sig = "C07:grant-used-twice"
					case "not-yet-effective":
						sig = "C07:grant-not-yet-effective"
					case "expired":
						sig = "C07:grant-expired"
					}
					v.Failf(sig, "%s", ctx)
					return
				default:
					v.Failf("C07:consumed-several-grants", "%s", ctx)
					return
				}
			} else {
				// a refusal that drops grants is not a violation of the statement (nothing was started)
				if len(removed) > 0 {
					labels["refusal-dropped-grants"] = true
				}
				s.live = after
				if len(candidates) > 0 {
					v.Failf("C07:matching-grant-refused", "step %d: session (%q,K%d) at t=%s: request (shell=%v, cmd=%q) refused although grant %v matches", i, s.user, s.key+1, c07Ms(nowMs), op.Shell, text, candidates[0])
					return
				}
			}
		default:
			v.Discard = true
			return
		}
	}

	// final drain: what is left in the server map equals the model
	var pairs []c07UK
	for _, u := range verifAuthzUsers {
		for k := 0; k < verifAuthzNKeys; k++ {
			pairs = append(pairs, c07UK{u, k})
		}
	}
	for _, uk := range pairs {
		actions, err := z.S.AuthorizeKeyAuthGrant(uk.u, verifAuthzKey(uk.k))
		var got []c07Grant
		if err == nil {
			for _, a := range actions {
				got = append(got, c07FromReal(a))
			}
		}
		if extra, missing := c07Minus(got, stored[uk]), c07Minus(stored[uk], got); len(extra)+len(missing) > 0 {
			v.Failf("C07:grant-map-differs-from-model", "final drain (%q,K%d): server holds %v beyond and lacks %v of the model's grants", uk.u, uk.k+1, extra, missing)
			return
		}
	}
}

func c07Guarded(c c07Case, v *vlib.Verdict) { vlib.Guard(v, func() { c07Run(c, v) }) }

// ---------------------------------------------------------------------------
// generator

var c07OpWeights = []string{
	"grant", "grant", "grant",
	"connect", "connect", "connect", "connect",
	"request", "request", "request", "request", "request", "request", "request",
	"advance", "advance", "advance",
}

// c07MsBias: sub-second parts on a quarter-second grid plus the extremes, so that the clock and the grant
// bounds often coincide exactly or fall into the same second on either side of each other.
var c07MsBias = []int{0, 0, 0, 250, 250, 500, 500, 750, 1, 999}

func c07GenGrant(t *rapid.T, cast []int) c07Op {
	op := c07Op{Op: "grant"}
	op.User = cast[rapid.SampledFrom([]int{0, 0, 0, 1}).Draw(t, "user")%len(cast)]
	op.Key = rapid.SampledFrom([]int{0, 0, 0, 1, 1, 2}).Draw(t, "key")
	op.GType = rapid.SampledFrom([]int{1, 1, 2, 2, 2, 2, 2, 3, 4, 5, 9}).Draw(t, "gtype")
	if op.GType == 2 {
		op.Cmd = rapid.IntRange(0, len(c07Base)-1).Draw(t, "cmd")
		op.Var = rapid.SampledFrom([]int{0, 0, 0, 0, 0, 0, c07Empty, c07TrailBlank, c07Prefix}).Draw(t, "var")
		// texts at and around the string-length limit (254, 255, 256, 300 bytes)
		op.Len = rapid.SampledFrom(c07LenBias).Draw(t, "len")
	}
	switch rapid.IntRange(0, 3).Draw(t, "timing") {
	case 0, 1: // comfortably valid around the start of the case
		op.Start = rapid.IntRange(-3, 2).Draw(t, "start")
		op.Exp = op.Start + rapid.SampledFrom([]int{5, 20, 100}).Draw(t, "dur")
	case 2: // short or empty interval anywhere on the case clock
		op.Start = rapid.IntRange(-3, 12).Draw(t, "start")
		op.Exp = op.Start + rapid.SampledFrom([]int{1, 2, 5, 0}).Draw(t, "dur")
	default: // independent bounds (incl. inverted)
		op.Start = rapid.IntRange(-3, 12).Draw(t, "start")
		op.Exp = rapid.IntRange(-3, 15).Draw(t, "exp")
	}
	// half of the grants keep whole-second bounds; the others get sub-second parts
	if rapid.IntRange(0, 1).Draw(t, "subsecond") == 1 {
		op.StartMs = rapid.SampledFrom(c07MsBias).Draw(t, "startms")
		op.ExpMs = rapid.SampledFrom(c07MsBias).Draw(t, "expms")
	}
	return op
}

// c07Gen draws the whole history up front. It remembers what it has drawn so far
// (pairs that received grants, granted texts, number of connects) only to aim
// later operations at them; nothing of the code under test runs here.
func c07Gen(t *rapid.T) c07Case {
	c := c07Case{Now0: rapid.IntRange(0, 3).Draw(t, "now0")}
	cast := verifAuthzGenCast(t)
	// a third of the histories run on a whole-second clock throughout
	wholeClock := rapid.IntRange(0, 2).Draw(t, "whole-second-clock") == 0
	if !wholeClock {
		c.Now0Ms = rapid.SampledFrom(c07MsBias).Draw(t, "now0ms")
	}
	n := rapid.IntRange(3, 30).Draw(t, "nops")
	var granted []c07Op // grant ops drawn so far
	connects := 0
	var lastReq *c07Op
	for i := 0; i < n; i++ {
		kind := "grant"
		if i > 0 {
			kind = rapid.SampledFrom(c07OpWeights).Draw(t, "op")
		}
		op := c07Op{Op: kind}
		switch kind {
		case "grant":
			op = c07GenGrant(t, cast)
			granted = append(granted, op)
		case "connect":
			switch aim := rapid.IntRange(0, 9).Draw(t, "aimed"); {
			case aim < 6: // a pair that received a grant
				g := rapid.SampledFrom(granted).Draw(t, "pair")
				op.User, op.Key = g.User, g.Key
			case aim < 8: // the key of a pair that received a grant, as another user of the cast (often a near-collision of the name)
				g := rapid.SampledFrom(granted).Draw(t, "pair")
				op.User, op.Key = cast[rapid.IntRange(0, len(cast)-1).Draw(t, "other-user")], g.Key
			default:
				op.User = cast[rapid.SampledFrom([]int{0, 0, 1, 2, 3}).Draw(t, "user")%len(cast)]
				op.Key = rapid.SampledFrom([]int{0, 0, 1, 1, 2, 3}).Draw(t, "key")
			}
			connects++
		case "request":
			mode := rapid.IntRange(0, 9).Draw(t, "mode")
			if mode < 2 && lastReq != nil { // repeat the previous request
				op = *lastReq
				break
			}
			if connects > 1 {
				op.Sess = rapid.IntRange(0, connects-1).Draw(t, "sess")
			}
			op.Shell = rapid.IntRange(0, 3).Draw(t, "shell") == 3
			op.PF = rapid.SampledFrom([]int{0, 0, 0, 0, 0, 1, 1, 2}).Draw(t, "pf")
			op.Cmd = rapid.IntRange(0, len(c07Base)-1).Draw(t, "cmd")
			if mode < 6 { // the exact text of a grant drawn earlier
				g := rapid.SampledFrom(granted).Draw(t, "like")
				op.Cmd, op.Var, op.Len = g.Cmd, g.Var, g.Len
			} else {
				op.Var = rapid.IntRange(1, c07NVars-1).Draw(t, "var")
				switch rapid.IntRange(0, 3).Draw(t, "len-like") {
				case 0: // a length of its own
					op.Len = rapid.SampledFrom(c07LenBias).Draw(t, "len")
				case 1, 2: // base and length of a grant drawn earlier: the variant departs from that text at its very end (request = granted text + suffix, or minus its last byte)
					g := rapid.SampledFrom(granted).Draw(t, "like")
					op.Cmd, op.Len = g.Cmd, g.Len
				default: // base of a grant drawn earlier at ANOTHER length around the limit: one text is a proper prefix of the other (request longer or grant longer)
					g := rapid.SampledFrom(granted).Draw(t, "like")
					op.Cmd = g.Cmd
					op.Len = rapid.IntRange(1, len(c07Lens)-1).Draw(t, "len")
					op.Var = rapid.SampledFrom([]int{c07Equal, c07Equal, c07Suffix, c07Prefix, c07Args}).Draw(t, "var-long")
				}
			}
		case "advance":
			op.Dt = rapid.SampledFrom([]int{0, 1, 1, 2, 3, 5, 10}).Draw(t, "dt")
			if !wholeClock {
				op.DtMs = rapid.SampledFrom(c07MsBias).Draw(t, "dtms")
			}
		}
		if op.Op == "request" {
			r := op
			lastReq = &r
		}
		c.Ops = append(c.Ops, op)
	}
	return c
}

// ---------------------------------------------------------------------------

func c07SelfTest(t *testing.T) {
	for ln := range c07Lens {
		seen := map[string]bool{} // within one length: all variants of all bases differ
		for cmd := range c07Base {
			base := c07Text(cmd, c07Equal, ln)
			if n := c07Lens[ln]; n > 0 && (len(base) != n || !strings.HasPrefix(base, c07Base[cmd]+" ")) {
				t.Fatalf("VERIF-MACHINERY long text of %q for length %d has %d bytes", c07Base[cmd], n, len(base))
			}
			if ln > 1 && !strings.HasPrefix(base, c07Text(cmd, c07Equal, ln-1)) {
				t.Fatalf("VERIF-MACHINERY the %d-byte text of %q does not start with its %d-byte text", c07Lens[ln], c07Base[cmd], c07Lens[ln-1])
			}
			for vr := 0; vr < c07NVars; vr++ {
				s := c07Text(cmd, vr, ln)
				if vr != c07Empty && seen[s] {
					t.Fatalf("VERIF-MACHINERY command variants collide on %q", s)
				}
				seen[s] = true
				if vr != c07Equal && s == base {
					t.Fatalf("VERIF-MACHINERY variant %s of %q equals the base text", c07VarName[vr], s)
				}
				if vr == c07Suffix && (!strings.HasPrefix(s, base) || len(s) != len(base)+1) {
					t.Fatalf("VERIF-MACHINERY suffix variant of the %d-byte text", len(base))
				}
			}
		}
	}
	// honest baseline: one command grant, valid now: admitted, granted text runs once,
	// other text / repeat / other user are refused — and the model agrees.
	var v vlib.Verdict
	c07Run(c07Case{Ops: []c07Op{
		{Op: "grant", User: 0, Key: 0, GType: 2, Cmd: 0, Start: -1, Exp: 50},
		{Op: "connect", User: 1, Key: 0},
		{Op: "connect", User: 0, Key: 1},
		{Op: "connect", User: 0, Key: 0},
		{Op: "request", Cmd: 0, Var: c07Suffix},
		{Op: "request", Cmd: 0},
		{Op: "request", Cmd: 0},
		{Op: "connect", User: 0, Key: 0},
	}}, &v)
	if !v.OK() {
		return // the search reports it as a violation with a replay; not a machinery matter
	}
	want := []string{"connect:admitted", "connect:refused:other-user", "connect:refused:other-key", "connect:refused:consumed",
		"request:command:equal:allowed", "request:command:suffix:refused", "must-refuse:used", "must-refuse:different-command"}
	have := map[string]bool{}
	for _, l := range v.Labels {
		have[l] = true
	}
	for _, w := range want {
		if !have[w] {
			t.Fatalf("VERIF-MACHINERY honest baseline: label %q missing (labels %v)", w, v.Labels)
		}
	}
}

func TestVerifC07Grants(t *testing.T) {
	c07SelfTest(t)
	vlib.Drive(t, vlib.Spec[c07Case]{ID: "C07", Quick: 100000, Gen: c07Gen, Run: c07Guarded})
}

// ---------------------------------------------------------------------------
// Grant issuing from a grant-admitted session.
//
// The other action kind that has a gate function in hopserver: an AuthGrant tube
// is served by handleAgc -> authgrants.StartTargetInstance(tube, cert,
// sess.checkIntent, server.AddAuthGrant); per intent communication the target
// runs checkIntent and, if that returns nil, AddAuthGrant, then confirms
// (authgrants/target.go handleIntentCommunication). That two-call sequence is
// re-stated here on a session admitted through exactly one stored grant.
// No grant type authorizes issuing grants, so in such a session the statement
// requires every intent to be refused. The space is small and enumerated
// completely. (Port forwarding has no gate function at all: startPF / handlePF
// go straight to the portforwarding package - layer 2.)

type c07iCase struct {
	HeldType  int  `json:"held"`      // type of the one grant the session was admitted with
	HeldValid bool `json:"heldvalid"` // that grant is inside its validity interval
	WantType  int  `json:"want"`      // grant type asked for by the intent
	OtherUser bool `json:"otheruser"` // intent names bob, the session is alice's
	OtherKey  bool `json:"otherkey"`  // intent names delegate key K2, the session's key is K1
	Expired   bool `json:"expired"`   // intent expiry in 1990 instead of 2100 (checkIntent reads the wall clock)
	BadCert   bool `json:"badcert"`   // delegate certificate is not a leaf
}

func c07iRun(c c07iCase, v *vlib.Verdict) {
	restore := verifAuthzInstallThunks(func() time.Time { return verifAuthzT0 })
	defer restore()
	z := verifAuthzNewServer(true)
	exp := 60
	if !c.HeldValid {
		exp = -1
	}
	if err := z.S.AddAuthGrant(verifAuthzIntent("alice", 0, authgrants.GrantType(c.HeldType), "ls", verifAuthzAt(-60), verifAuthzAt(exp))); err != nil {
		v.Inconclusive = "AddAuthGrant failed with authgrants enabled: " + err.Error()
		return
	}
	granted, viaGrant, actions := verifAuthzLogin(z.S, "alice", verifAuthzKey(0))
	if !granted || !viaGrant {
		v.Failf("C07:live-grant-refused", "connect (alice,K1) with one stored grant: granted=%v viaGrant=%v", granted, viaGrant)
		return
	}
	sess := verifAuthzSession(z.S, "alice", viaGrant, actions)

	user, key := "alice", 0
	if c.OtherUser {
		user = "bob"
	}
	if c.OtherKey {
		key = 1
	}
	in := verifAuthzIntent(user, key, authgrants.GrantType(c.WantType), "cat /etc/shadow", time.Date(1989, 1, 1, 0, 0, 0, 0, time.UTC), time.Date(2100, 1, 1, 0, 0, 0, 0, time.UTC))
	if c.Expired {
		in.ExpTime = time.Date(1990, 1, 1, 0, 0, 0, 0, time.UTC)
	}
	if c.BadCert {
		in.DelegateCert.Type = certs.Intermediate
	}
	clientLeaf := verifAuthzLeaf(0)
	// handleIntentCommunication: checkIntent, then addAuthGrant, then confirmation
	err := sess.checkIntent(*in, &clientLeaf)
	if err == nil {
		err = z.S.AddAuthGrant(in)
	}
	confirmed := err == nil

	v.NonTrivial = true // every case is a request that must be refused
	plain := !c.OtherUser && !c.Expired && !c.BadCert && c.WantType >= 1 && c.WantType <= 4
	switch {
	case confirmed:
		v.Label("issue:confirmed")
	case plain:
		v.Label("issue:refused:acceptable-intent")
	default:
		v.Label("issue:refused:unacceptable-intent")
	}
	if confirmed {
		minted, _ := z.S.AuthorizeKeyAuthGrant(user, verifAuthzKey(key))
		v.Failf("C07:allowed-without-matching-grant:grant-issuing",
			"session (alice,K1) admitted through one grant of type %d (valid=%v) sent an intent (type %d, user %s, delegate K%d) over its own AuthGrant tube: checkIntent and AddAuthGrant returned nil, the server now stores %d new grant(s) for (%q,K%d); no grant of the session authorizes issuing grants",
			c.HeldType, c.HeldValid, c.WantType, user, key+1, len(minted), user, key+1)
		return
	}
	// refused: nothing may have been stored
	if minted, err := z.S.AuthorizeKeyAuthGrant(user, verifAuthzKey(key)); err == nil {
		v.Failf("C07:refused-intent-stored", "refused intent left %d grant(s) for (%q,K%d) in the server map", len(minted), user, key+1)
	}
}

func c07iGuarded(c c07iCase, v *vlib.Verdict) { vlib.Guard(v, func() { c07iRun(c, v) }) }

func TestVerifC07Issue(t *testing.T) {
	if vlib.ReplayEnumerated(t, "C07", c07iGuarded) {
		return
	}
	rec := vlib.Open(t, "C07")
	types := []int{1, 2, 3, 4, 5, 9}
	bools := []bool{false, true}
	idx := 0
	for _, held := range types {
		for _, hv := range bools {
			for _, want := range types {
				for _, ou := range bools {
					for _, ok := range bools {
						for _, ex := range bools {
							for _, bc := range bools {
								idx++
								if !rec.Mine(idx) {
									continue
								}
								c := c07iCase{HeldType: held, HeldValid: hv, WantType: want, OtherUser: ou, OtherKey: ok, Expired: ex, BadCert: bc}
								if !vlib.Each(t, rec, c, c07iGuarded) {
									return
								}
							}
						}
					}
				}
			}
		}
	}
	rec.SetExhaustive(true)
	rec.Extra("enumerated", fmt.Sprintf("all %d combinations of held grant type x validity x requested type x other user x other key x expired x bad certificate", idx))
}
