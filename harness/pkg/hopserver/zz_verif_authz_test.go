package hopserver

// Shared fixtures of the authorization checks C05 / C07 (layer 1: direct calls,
// no sockets; layer 2 re-uses them to build the server side of a real session).
//
// Nothing here draws randomness or reads the clock: keys are derived from fixed
// private scalars, the clock and the passwd database are thunks installed from
// the case.

import (
	"fmt"
	"io"
	"io/fs"
	"testing/fstest"
	"time"

	"github.com/AstromechZA/etcpwdparse"
	"github.com/sirupsen/logrus"
	"pgregory.net/rapid"

	"hop.computer/hop/authgrants"
	"hop.computer/hop/authkeys"
	"hop.computer/hop/certs"
	"hop.computer/hop/config"
	"hop.computer/hop/keys"
	"hop.computer/hop/pkg/thunks"
	"hop.computer/hop/transport"
)

// verifAuthzUsers: every name except ghost has a passwd entry and a home directory
// of its own (verifAuthzHome); ghost has none, so thunks.LookupUser fails for it (as
// for any unknown account). The names after ghost are NEAR-COLLISIONS of alice / bob /
// sam: they differ only by case, by a trailing blank, by a NUL suffix or by a letter
// that Unicode case folding / upper-casing / compatibility normalisation maps onto an
// ASCII one (U+017F LATIN SMALL LETTER LONG S). Account names are opaque strings (the
// passwd lookup, the grant map and the session compare them byte for byte), so every one
// of them is a DIFFERENT account: what is listed or granted for one says nothing about
// another. New names are appended only (stored replays index this slice).
var verifAuthzUsers = []string{"alice", "bob", "ghost", "Alice", "ALICE", "alice ", "alice\x00", "Bob", "sam", "\u017fam"}

// verifAuthzFamilies groups the indices of names that are near-collisions of each other.
var verifAuthzFamilies = [][]int{{0, 3, 4, 5, 6}, {1, 7}, {8, 9}}

// verifAuthzNear reports whether a and b are different names of one family.
func verifAuthzNear(a, b string) bool {
	if a == b {
		return false
	}
	for _, f := range verifAuthzFamilies {
		ina, inb := false, false
		for _, i := range f {
			ina = ina || verifAuthzUsers[i] == a
			inb = inb || verifAuthzUsers[i] == b
		}
		if ina && inb {
			return true
		}
	}
	return false
}

// verifAuthzGenCast draws the users of one history (indices into verifAuthzUsers): a third
// of the histories play with the classic cast alice, bob, ghost; the others with two
// near-collisions of one family (so that what is stored for one is often asked for as the
// other), one more name and the ghost or a third member of the family. Histories pick
// cast[i] with a bias towards the first entries.
func verifAuthzGenCast(t *rapid.T) []int {
	if rapid.IntRange(0, 2).Draw(t, "classic-cast") == 0 {
		return []int{0, 1, verifAuthzGhost}
	}
	fam := rapid.SampledFrom(verifAuthzFamilies).Draw(t, "family")
	perm := rapid.Permutation(fam).Draw(t, "members")
	cast := []int{perm[0], perm[1], rapid.IntRange(0, len(verifAuthzUsers)-1).Draw(t, "third")}
	if len(perm) > 2 && rapid.IntRange(0, 1).Draw(t, "fourth-near") == 0 {
		cast = append(cast, perm[2])
	} else {
		cast = append(cast, verifAuthzGhost)
	}
	return cast
}

// verifAuthzGhost is the index of the name without an account.
const verifAuthzGhost = 2

// verifAuthzUserIndex returns the index of name in verifAuthzUsers, -1 if it is not one of them.
func verifAuthzUserIndex(name string) int {
	for i, u := range verifAuthzUsers {
		if u == name {
			return i
		}
	}
	return -1
}

// verifAuthzHome is the home directory of an account: /home/<name> for names made of
// ASCII letters, /home/acct<index> otherwise (a passwd line cannot carry a trailing blank
// in its home field). Distinct accounts have distinct home directories.
func verifAuthzHome(user string) string {
	plain := user != ""
	for i := 0; i < len(user); i++ {
		if c := user[i]; !(c >= 'a' && c <= 'z' || c >= 'A' && c <= 'Z') {
			plain = false
		}
	}
	if plain {
		return "/home/" + user
	}
	return fmt.Sprintf("/home/acct%d", verifAuthzUserIndex(user))
}

const verifAuthzNKeys = 4

// verifAuthzT0 is second 0 of every case clock.
var verifAuthzT0 = time.Date(2031, 5, 4, 12, 0, 0, 0, time.UTC)

// verifAuthzAt converts a case-relative second offset to a time.
func verifAuthzAt(sec int) time.Time { return verifAuthzT0.Add(time.Duration(sec) * time.Second) }

// verifAuthzAtMs converts a case-relative offset in milliseconds to a time.
func verifAuthzAtMs(ms int64) time.Time { return verifAuthzT0.Add(time.Duration(ms) * time.Millisecond) }

// verifAuthzKeyPair returns the i-th fixed client key pair (K1..K4 = index 0..3):
// a real X25519 pair derived from a constant private scalar.
func verifAuthzKeyPair(i int) *keys.X25519KeyPair {
	kp := new(keys.X25519KeyPair)
	for j := range kp.Private {
		kp.Private[j] = byte(0x41 + 29*i + 7*j)
	}
	kp.PublicFromPrivate()
	return kp
}

var verifAuthzPub = func() (out [verifAuthzNKeys]keys.DHPublicKey) {
	for i := range out {
		out[i] = verifAuthzKeyPair(i).Public
	}
	return
}()

// verifAuthzKey returns public key Ki.
func verifAuthzKey(i int) keys.DHPublicKey { return verifAuthzPub[i] }

// verifAuthzLeaf returns the minimal leaf certificate carrying Ki: what
// authgrants and the transport key set look at is Type and PublicKey only.
// (Layer 2 needs a signed one: certs.SelfSignLeaf(&certs.Identity{PublicKey: verifAuthzKey(i)}).)
func verifAuthzLeaf(i int) certs.Certificate {
	return certs.Certificate{Version: 1, Type: certs.Leaf, PublicKey: verifAuthzKey(i)}
}

// verifAuthzKeysPath is the fs.FS path (no leading slash, as AuthorizeKey opens
// it) of a user's authorized_keys file.
func verifAuthzKeysPath(user string) string {
	return verifAuthzHome(user)[1:] + "/.hop/authorized_keys"
}

// verifAuthzInstallThunks replaces the passwd lookup and the clock by case-driven
// stubs and silences logrus. The returned function restores the previous thunks.
func verifAuthzInstallThunks(now func() time.Time) (restore func()) {
	logrus.SetOutput(io.Discard)
	oldLookup, oldNow, oldStart := thunks.LookupUser, thunks.TimeNow, thunks.StartCmd
	thunks.LookupUser = func(username string) (*etcpwdparse.EtcPasswdEntry, error) {
		idx := verifAuthzUserIndex(username) // exact string: the passwd database is case sensitive
		if idx < 0 || idx == verifAuthzGhost {
			return nil, thunks.ErrUserNotFound
		}
		uid := 1001 + idx
		ent, err := etcpwdparse.ParsePasswdLine(fmt.Sprintf("%s:x:%d:%d:Test User:%s:/bin/sh", username, uid, uid, verifAuthzHome(username)))
		return &ent, err
	}
	thunks.TimeNow = now
	return func() { thunks.LookupUser, thunks.TimeNow, thunks.StartCmd = oldLookup, oldNow, oldStart }
}

// verifAuthzServer is a HopServer without transport, with the handles the checks
// need: the in-memory file system behind SetFSystem, the transport key set it
// was given, and its (shared, mutable) config.
type verifAuthzServer struct {
	S      *HopServer
	FS     fstest.MapFS
	KeySet *authkeys.SyncAuthKeySet
	Config *config.ServerConfig
}

// verifAuthzNewServer builds the server the way hoptests does (NewHopServerExt +
// SetFSystem) without a transport server (layer 1).
func verifAuthzNewServer(enableAuthgrants bool) *verifAuthzServer {
	return verifAuthzNewServerExt(nil, authkeys.NewSyncAuthKeySet(), enableAuthgrants)
}

// verifAuthzNewServerExt is the same on top of a given transport server and key
// set (layer 2: pass the set that is also the transport's ClientVerify.AuthKeys).
func verifAuthzNewServerExt(tr *transport.Server, ks *authkeys.SyncAuthKeySet, enableAuthgrants bool) *verifAuthzServer {
	cfg := &config.ServerConfig{EnableAuthgrants: enableAuthgrants, EnableAuthorizedKeys: true}
	s, err := NewHopServerExt(tr, cfg, ks)
	if err != nil {
		panic("VERIF-MACHINERY NewHopServerExt: " + err.Error())
	}
	fsys := fstest.MapFS{}
	s.SetFSystem(fsys)
	return &verifAuthzServer{S: s, FS: fsys, KeySet: ks, Config: cfg}
}

// SetEnabled flips the coarse authgrant switch at run time (hoptests does the
// same through the shared *ServerConfig).
func (z *verifAuthzServer) SetEnabled(b bool) { z.Config.EnableAuthgrants = b }

// WriteKeys / RemoveKeys / MakeUnreadable manipulate a user's authorized_keys
// file; "unreadable" = a directory where the file should be (Open succeeds,
// every Read fails).
func (z *verifAuthzServer) WriteKeys(user string, data []byte) {
	z.FS[verifAuthzKeysPath(user)] = &fstest.MapFile{Data: data, Mode: 0o600}
	z.S.SetFSystem(z.FS)
}
func (z *verifAuthzServer) RemoveKeys(user string) {
	delete(z.FS, verifAuthzKeysPath(user))
	z.S.SetFSystem(z.FS)
}
func (z *verifAuthzServer) MakeUnreadable(user string) {
	z.FS[verifAuthzKeysPath(user)] = &fstest.MapFile{Mode: fs.ModeDir | 0o700}
	z.S.SetFSystem(z.FS)
}

// InKeySet reports whether the transport layer would admit Ki through the
// authorized-key set (the call transport.Handshake makes).
func (z *verifAuthzServer) InKeySet(i int) bool {
	leaf := verifAuthzLeaf(i)
	return z.KeySet.VerifyLeaf(&leaf, certs.VerifyOptions{}) == nil
}

// verifAuthzIntent builds the intent a principal would communicate for
// (user, Ki): AddAuthGrant stores exactly these fields.
func verifAuthzIntent(user string, key int, gt authgrants.GrantType, cmd string, start, exp time.Time) *authgrants.Intent {
	in := &authgrants.Intent{
		GrantType:      gt,
		StartTime:      start,
		ExpTime:        exp,
		TargetSNI:      certs.DNSName("target.example"),
		TargetUsername: user,
		DelegateCert:   verifAuthzLeaf(key),
	}
	if gt == authgrants.Command {
		in.AssociatedData.CommandGrantData.Cmd = cmd
	}
	return in
}

// verifAuthzLogin is the decision sequence of hopSession.checkAuthorization, as
// read in hopserver/session.go, applied to (user, key) with the REAL server
// functions: AuthorizeKey first; only if that fails and authgrants are enabled,
// AuthorizeKeyAuthGrant. It returns what checkAuthorization would store in the
// session (usingAuthGrant, authorizedActions).
func verifAuthzLogin(s *HopServer, user string, k keys.DHPublicKey) (granted, usingAuthGrant bool, actions []authgrants.Authgrant) {
	err := s.AuthorizeKey(user, k)
	if err != nil {
		if s.config.EnableAuthgrants {
			actions, err := s.AuthorizeKeyAuthGrant(user, k)
			if err != nil {
				return false, false, nil
			}
			return true, true, actions
		}
		return false, false, nil
	}
	return true, false, nil
}

// verifAuthzSession is the session object checkAuthorization leaves behind after
// a successful login (only the fields the authorization code reads).
func verifAuthzSession(s *HopServer, user string, usingAuthGrant bool, actions []authgrants.Authgrant) *hopSession {
	return &hopSession{server: s, user: user, usingAuthGrant: usingAuthGrant, authorizedActions: actions}
}

// verifAuthzExecAllowed is the gate of hopSession.startCodex for an exec request
// (cmd, shell): sessions admitted by a listed key are not restricted, sessions
// admitted by grants go through the real checkCmd.
func verifAuthzExecAllowed(sess *hopSession, cmd string, shell bool) bool {
	if !sess.usingAuthGrant {
		return true
	}
	_, err := sess.checkCmd(cmd, shell)
	return err == nil
}
