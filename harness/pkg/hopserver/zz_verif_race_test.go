//go:build race

package hopserver

// verifRace: the binary was built with the race detector (concurrent units run fewer, equally shaped cases:
// the detector reports the first unsynchronised overlap, it does not need many).
const verifRace = true
