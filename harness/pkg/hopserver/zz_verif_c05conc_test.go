package hopserver

// C05 (concurrent logins): the decision "may this key act as this user" is a function of
// (user, key, that user's authorized_keys file) also when several sessions ask at the same
// moment - hopserver runs one goroutine per session and every login parses the user's file
// afresh. Real goroutines, released through a spin barrier, log in as DIFFERENT users whose
// files list different keys (generated from the layer-1 line grammar; half of the cases give
// every user a file of the same shape and length with its own keys). No file changes and no
// grant exists while they run, so every decision is judged by the same reference as in
// layer 1: granted => the key is a well-formed entry of THAT user's file; refused => not
// (file consisting solely of canonical entries that lists the key). The interleaving is the
// Go scheduler's, so detection is probabilistic (certain under the race detector as soon as
// two parses share memory), but a reported violation is always genuine.

import (
	"fmt"
	"runtime"
	"sync"
	"sync/atomic"
	"testing"
	"time"

	"pgregory.net/rapid"
	"verif.local/vlib"
)

type c05ConcFile struct {
	User    int       `json:"u"`                 // index into verifAuthzUsers (never the ghost; distinct within a case)
	Missing bool      `json:"missing,omitempty"` // the account has no authorized_keys file
	Lines   []c05Line `json:"lines,omitempty"`
	CRLF    bool      `json:"crlf,omitempty"`
	NoNL    bool      `json:"nonl,omitempty"`
}

type c05ConcAttempt struct {
	File int `json:"f"` // index into Files; len(Files) = the user without an account
	Key  int `json:"key"`
}

type c05ConcCase struct {
	Enabled bool               `json:"enabled"` // authgrants switched on (no grant is ever stored)
	Files   []c05ConcFile      `json:"files"`
	Workers [][]c05ConcAttempt `json:"workers"` // one goroutine each; it repeats its attempts Iter times
	Iter    int                `json:"iter"`
	Yields  []int              `json:"yields,omitempty"`
}

func c05ConcRun(c c05ConcCase, v *vlib.Verdict) {
	restore := verifAuthzInstallThunks(func() time.Time { return verifAuthzT0 })
	defer restore()
	z := verifAuthzNewServer(c.Enabled)
	type ref struct {
		user   string
		f      c05File
		ghost  bool
		listed [verifAuthzNKeys]bool
	}
	refs := make([]ref, len(c.Files)+1)
	shapes := map[int]bool{}
	for i, f := range c.Files {
		user := verifAuthzUsers[f.User%len(verifAuthzUsers)]
		if f.User%len(verifAuthzUsers) == verifAuthzGhost {
			v.Discard = true
			return
		}
		refs[i].user = user
		if f.Missing {
			continue
		}
		data := c05Render(c05Op{Lines: f.Lines, CRLF: f.CRLF, NoNL: f.NoNL})
		z.WriteKeys(user, data)
		refs[i].f = c05RefParse(data)
		shapes[len(data)] = true
		for k := 0; k < verifAuthzNKeys; k++ {
			refs[i].listed[k] = refs[i].f.entries[verifAuthzKey(k)]
		}
	}
	refs[len(c.Files)] = ref{user: verifAuthzUsers[verifAuthzGhost], ghost: true}

	// judge is the oracle for one decision; it returns "" or (signature suffix, detail).
	judge := func(a c05ConcAttempt, granted, viaGrant bool) (string, string) {
		r := refs[a.File%len(refs)]
		k := a.Key % verifAuthzNKeys
		st := r.f.state(r.ghost, verifAuthzKey(k))
		switch {
		case granted && viaGrant:
			return "granted-by-grant-without-any-grant", fmt.Sprintf("login (%q,K%d) admitted through authgrants although no grant was ever stored", r.user, k+1)
		case granted && !r.listed[k]:
			return "granted-without-entry-or-grant:" + st, fmt.Sprintf("login (%q,K%d) granted; that user's file state is %q (%d well-formed entries, %d malformed lines) and does not list the key; no grant exists", r.user, k+1, st, len(r.f.entries), r.f.malformed)
		case !granted && r.listed[k] && r.f.canonical && st == "listed":
			return "refused-listed-key", fmt.Sprintf("login (%q,K%d) refused although that user's file consists solely of canonical entries and lists the key", r.user, k+1)
		}
		return "", ""
	}

	// sequential pass first: the same decisions one at a time (layer 1's subject; reported under its signatures)
	cross := false
	for _, w := range c.Workers {
		for _, a := range w {
			granted, viaGrant, _ := verifAuthzLogin(z.S, refs[a.File%len(refs)].user, verifAuthzKey(a.Key%verifAuthzNKeys))
			if sig, detail := judge(a, granted, viaGrant); sig != "" {
				v.Failf("C05:"+sig, "sequential pass: %s", detail)
				return
			}
			// a key that is NOT this user's but is listed for another user of the case
			if !refs[a.File%len(refs)].listed[a.Key%verifAuthzNKeys] {
				for j := range c.Files {
					if j != a.File%len(refs) && refs[j].listed[a.Key%verifAuthzNKeys] {
						cross = true
					}
				}
			}
		}
	}

	var ready atomic.Int32
	var wg sync.WaitGroup
	var mu sync.Mutex
	var stop atomic.Bool
	badSig, badDetail := "", ""
	iter := max(c.Iter, 1)
	for g, w := range c.Workers {
		if len(w) == 0 {
			continue
		}
		wg.Add(1)
		y := 0
		if len(c.Yields) > 0 {
			y = c.Yields[g%len(c.Yields)]
		}
		go func(g int, w []c05ConcAttempt, y int) {
			defer wg.Done()
			ready.Add(1)
			for ready.Load() < int32(len(c.Workers)) && !stop.Load() {
				runtime.Gosched()
			}
			for i := 0; i < y; i++ {
				runtime.Gosched()
			}
			for it := 0; it < iter && !stop.Load(); it++ {
				for _, a := range w {
					granted, viaGrant, _ := verifAuthzLogin(z.S, refs[a.File%len(refs)].user, verifAuthzKey(a.Key%verifAuthzNKeys))
					if sig, detail := judge(a, granted, viaGrant); sig != "" {
						mu.Lock()
						if badSig == "" {
							badSig, badDetail = sig, fmt.Sprintf("goroutine %d of %d, iteration %d: %s (the same login was decided correctly when it ran alone)", g, len(c.Workers), it, detail)
						}
						mu.Unlock()
						stop.Store(true)
						return
					}
				}
			}
		}(g, w, y)
	}
	// workers without attempts never reach the barrier: count them in
	for _, w := range c.Workers {
		if len(w) == 0 {
			ready.Add(1)
		}
	}
	wg.Wait()
	if badSig != "" {
		v.Failf("C05:concurrent-logins:"+badSig, "%s", badDetail)
		return
	}
	v.NonTrivial = len(c.Workers) >= 2 && cross
	v.Labelf("goroutines=%d", len(c.Workers))
	v.Labelf("files=%d", len(c.Files))
	if len(shapes) == 1 && len(c.Files) > 1 {
		v.Label("files-of-equal-length")
	} else {
		v.Label("files-of-different-length")
	}
	if cross {
		v.Label("login-with-a-key-listed-for-another-user-only")
	}
}

func c05ConcGen(t *rapid.T) c05ConcCase {
	c := c05ConcCase{
		Enabled: rapid.IntRange(0, 3).Draw(t, "enabled") == 0,
		Iter:    rapid.SampledFrom([]int{20, 100, 300}).Draw(t, "iter"),
		Yields:  rapid.SliceOfN(rapid.IntRange(0, 3), 0, 6).Draw(t, "yields"),
	}
	// 2..4 distinct accounts: near-collisions of one name, or any
	var pool []int
	for i := range verifAuthzUsers {
		if i != verifAuthzGhost {
			pool = append(pool, i)
		}
	}
	users := rapid.Permutation(pool).Draw(t, "users")[:rapid.IntRange(2, 4).Draw(t, "nusers")]
	if rapid.IntRange(0, 2).Draw(t, "near") == 0 {
		users = rapid.Permutation(verifAuthzFamilies[0]).Draw(t, "family")[:len(users)]
	}
	uniform := rapid.IntRange(0, 1).Draw(t, "uniform") == 0
	var shape []c05Line
	if uniform {
		// every user gets a file of the same shape (hence the same length) listing its own keys
		n := rapid.SampledFrom([]int{1, 1, 1, 2, 3}).Draw(t, "nlines")
		for i := 0; i < n; i++ {
			shape = append(shape, c05Line{Key: i, K: rapid.SampledFrom([]int{c05Valid, c05Valid, c05Valid, c05ValidPadded, c05Comment, c05Truncated}).Draw(t, "kind"), N: rapid.IntRange(0, 3).Draw(t, "n")})
		}
		shape[0].K = c05Valid
	}
	for i, u := range users {
		f := c05ConcFile{User: u}
		switch {
		case uniform:
			for _, l := range shape {
				l.Key = (l.Key + i) % verifAuthzNKeys
				f.Lines = append(f.Lines, l)
			}
		case rapid.IntRange(0, 7).Draw(t, "missing") == 0:
			f.Missing = true
		default:
			f.Lines = rapid.SliceOfN(rapid.Custom(c05GenLine), 0, 5).Draw(t, "lines")
			f.CRLF = rapid.IntRange(0, 4).Draw(t, "crlf") == 4
			f.NoNL = rapid.IntRange(0, 2).Draw(t, "nonl") == 2
		}
		c.Files = append(c.Files, f)
	}
	nw := rapid.IntRange(2, 8).Draw(t, "goroutines")
	for g := 0; g < nw; g++ {
		na := rapid.IntRange(1, 4).Draw(t, "nattempts")
		var w []c05ConcAttempt
		for j := 0; j < na; j++ {
			a := c05ConcAttempt{File: rapid.IntRange(0, len(c.Files)-1).Draw(t, "file"), Key: rapid.SampledFrom(c05KeyBias).Draw(t, "key")}
			if rapid.IntRange(0, 15).Draw(t, "ghost") == 0 {
				a.File = len(c.Files)
			}
			w = append(w, a)
		}
		c.Workers = append(c.Workers, w)
	}
	return c
}

func TestVerifC05ConcurrentLogin(t *testing.T) {
	c05SelfTest(t)
	quick := 1200
	if verifRace {
		quick = 240
	}
	vlib.Drive(t, vlib.Spec[c05ConcCase]{ID: "C05", Quick: quick, Gen: c05ConcGen, Run: func(c c05ConcCase, v *vlib.Verdict) {
		vlib.Guard(v, func() { c05ConcRun(c, v) })
	}})
}
