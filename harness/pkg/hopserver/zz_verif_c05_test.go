package hopserver

// C05 — user login is granted only by a listed key or a live grant, failing closed.
//
// Layer 1: stateful model-based test, no sockets. A case is a list of operations
// on one HopServer: write / remove / break a user's authorized_keys file (from a
// line grammar), switch authgrants on and off, add grants, and log in — where
// "log in" is the decision sequence of hopSession.checkAuthorization executed
// with the real AuthorizeKey / AuthorizeKeyAuthGrant. The oracle is a reference
// model written from the property statement: a set of well-formed entries per
// user (reference parser over the file BYTES, written from the documented
// format "hop-dh-v1-" + standard base64 of 32 bytes, one per line) and a
// multiset of unconsumed grants per (user, key).
//
// Login keys are the four fixture keys and, for a third of the logins, keys
// DERIVED from the lines of a file written earlier in the history: what an
// over-lenient parser could read out of a malformed (or any) line
// (c05DeriveKey). They go through the same oracle.
//
// Checked direction: granted => listed \/ (enabled /\ live grant). The converse is
// asserted only where the doc comments promise it (canonical file listing the
// key; stored grant with authgrants enabled).

import (
	"bytes"
	"encoding/base64"
	"fmt"
	"strings"
	"testing"
	"time"

	"pgregory.net/rapid"
	"verif.local/vlib"

	"hop.computer/hop/authgrants"
	"hop.computer/hop/keys"
)

// ---------------------------------------------------------------------------
// case

// line kinds of the authorized_keys grammar
const (
	c05Valid       = iota // canonical entry for key Key
	c05ValidPadded        // entry with leading/trailing blanks (N selects)
	c05Blank              // ""
	c05Space              // blanks and tabs only
	c05Comment            // "# ..." (N: plain / commented-out valid entry)
	c05WrongPrefix        // other version, upper case, no prefix, ssh style, missing dash
	c05Truncated          // prefix + first N%44 characters of the payload
	c05Overlong           // payload with extra base64 characters / 64-byte key
	c05NonBase64          // one payload character replaced by '!' or '*'
	c05Key31              // payload encodes 31 bytes
	c05Key33              // payload encodes 33 bytes
	c05Long               // > 64 KiB line (N: garbage / entry + blanks / blanks + entry)
	c05Trailing           // entry followed by " user@host"
	c05TwoInOne           // two entries without newline between (N: nothing / CR / blank)
	c05Binary             // N-keyed arbitrary bytes
	c05BOM                // U+FEFF in front of an entry
	c05Pieces             // ONE physical line holding 2..3 entries, blank-padded so that entry i starts exactly at byte i*P of the line (P = a buffer size of bufio, c05PieceSizes)
	c05NKinds
)

var c05KindName = [...]string{"valid", "valid-padded", "blank", "space", "comment", "wrong-prefix", "truncated", "overlong",
	"non-base64", "key31", "key33", "long-line", "trailing-text", "two-in-one", "binary", "bom", "buffer-aligned-pieces"}

type c05Line struct {
	K   int `json:"k"`
	Key int `json:"key"`
	N   int `json:"n,omitempty"`
}

// c05Derive makes a login present a key READ OUT OF a line of an authorized_keys file
// the history wrote earlier, the way an over-lenient parser might read it (the key such a
// line "stands for" after padding / truncation / skipping garbage). Pure data: the line is
// chosen among the lines of the last write for user From at run time.
type c05Derive struct {
	From  int `json:"from"`          // user whose last written file is read
	Line  int `json:"line"`          // index (mod count) into its lines that are neither canonical entries nor blank, or into all lines if there are none
	Start int `json:"start"`         // where the payload is taken to begin (c05DeriveKey)
	Dec   int `json:"dec,omitempty"` // how the payload is decoded
	Fit   int `json:"fit,omitempty"` // how the decoded bytes are made 32 bytes long
}

type c05Op struct {
	Op    string     `json:"op"` // write | remove | unreadable | enable | grant | login | grantlogin
	User  int        `json:"u"`
	Key   int        `json:"key"`
	D     *c05Derive `json:"d,omitempty"` // login: present the derived key instead of K(Key) when the file has lines
	Lines []c05Line  `json:"lines,omitempty"`
	CRLF  bool       `json:"crlf,omitempty"`
	NoNL  bool       `json:"nonl,omitempty"` // no newline after the last line
	On    bool       `json:"on,omitempty"`   // enable: new value
	GType int        `json:"gt,omitempty"`   // grant type byte
	Start int        `json:"start,omitempty"`
	Exp   int        `json:"exp,omitempty"`
}

type c05Case struct {
	Enabled bool    `json:"enabled"`
	Ops     []c05Op `json:"ops"`
}

const c05LongLen = 70000 // > bufio.MaxScanTokenSize (64 KiB)

// c05PieceSizes: the distances at which the entries of a c05Pieces line start. They are the sizes in which
// buffered readers hand out or grow their data (bufio: 4096 default reader / initial scanner buffer, its
// doublings, 64 KiB maximal token; 512 and 1024 for smaller buffers): a parser that takes every buffer-full
// of one long line for a line of its own reads such a line as several well-formed entries. The file format
// is line based - one entry per PHYSICAL line -, so the line is one malformed entry and lists no key.
var c05PieceSizes = []int{4096, 4096, 8192, 65536, 512, 1024, 4096}

// c05PiecesShape decodes N of a c05Pieces line: distance between entry starts, number of entries, the
// padding character, and whether the last piece is padded to the full distance as well.
func c05PiecesShape(n int) (size, count int, pad byte, padLast bool) {
	size = c05PieceSizes[n%len(c05PieceSizes)]
	n /= len(c05PieceSizes)
	return size, 2 + n%2, " \t"[n/2%2], n/4%2 == 1
}

// c05PiecesKey: the key of the i-th entry of a c05Pieces line (consecutive fixture keys, all different).
func c05PiecesKey(l c05Line, i int) int { return (l.Key + i) % verifAuthzNKeys }

func c05B64(k keys.DHPublicKey) string { return base64.StdEncoding.EncodeToString(k[:]) }

func c05Entry(i int) string { return keys.DHPublicKeyPrefix + c05B64(verifAuthzKey(i)) }

func c05RenderLine(l c05Line) []byte {
	k := verifAuthzKey(l.Key)
	b64 := c05B64(k)
	pre := keys.DHPublicKeyPrefix
	n := l.N
	if n < 0 {
		n = -n
	}
	switch l.K {
	case c05Valid:
		return []byte(pre + b64)
	case c05ValidPadded:
		return []byte([]string{"  ", "\t", "", " \t "}[n%4] + pre + b64 + []string{"", " ", "\t  ", " "}[n%4])
	case c05Blank:
		return nil
	case c05Space:
		return []byte([]string{" ", "\t", "   \t "}[n%3])
	case c05Comment:
		return []byte([]string{"# a comment", "#" + pre + b64, "# " + pre + b64, "; " + pre + b64}[n%4])
	case c05WrongPrefix:
		return []byte([]string{"hop-dh-v2-" + b64, strings.ToUpper(pre) + b64, b64, "ssh-ed25519 " + b64, "hop-dh-v1" + b64, "x" + pre + b64}[n%6])
	case c05Truncated:
		return []byte(pre + b64[:n%len(b64)])
	case c05Overlong:
		if n%2 == 0 {
			return []byte(pre + strings.TrimRight(b64, "=") + "AAAAA===")
		}
		return []byte(pre + base64.StdEncoding.EncodeToString(append(append([]byte{}, k[:]...), k[:]...)))
	case c05NonBase64:
		p := []byte(b64)
		p[n%(len(p)-1)] = "!*"[n%2]
		return []byte(pre + string(p))
	case c05Key31:
		return []byte(pre + base64.StdEncoding.EncodeToString(k[:31]))
	case c05Key33:
		return []byte(pre + base64.StdEncoding.EncodeToString(append(append([]byte{}, k[:]...), byte(n))))
	case c05Long:
		switch n % 3 {
		case 0:
			return bytes.Repeat([]byte("x"), c05LongLen)
		case 1:
			return append([]byte(pre+b64), bytes.Repeat([]byte(" "), c05LongLen)...)
		default:
			return append(bytes.Repeat([]byte(" "), c05LongLen), []byte(pre+b64)...)
		}
	case c05Trailing:
		return []byte(pre + b64 + " user@host")
	case c05TwoInOne:
		other := c05Entry((l.Key + 1 + n%3) % verifAuthzNKeys)
		return []byte(pre + b64 + []string{"", "\r", " "}[n%3] + other)
	case c05Binary:
		return vlib.Fill(uint64(n), 1+n%40)
	case c05BOM:
		return []byte("\ufeff" + pre + b64)
	case c05Pieces:
		size, count, pad, padLast := c05PiecesShape(n)
		var out []byte
		for i := 0; i < count; i++ {
			out = append(out, c05Entry(c05PiecesKey(l, i))...)
			if i < count-1 || padLast {
				out = append(out, bytes.Repeat([]byte{pad}, (i+1)*size-len(out))...)
			}
		}
		return out
	}
	return nil
}

func c05Render(op c05Op) []byte {
	eol := "\n"
	if op.CRLF {
		eol = "\r\n"
	}
	var b bytes.Buffer
	for i, l := range op.Lines {
		b.Write(c05RenderLine(l))
		if i < len(op.Lines)-1 || !op.NoNL {
			b.WriteString(eol)
		}
	}
	return b.Bytes()
}

// ---------------------------------------------------------------------------
// keys an over-lenient parser could read out of a (malformed) line

func c05IsB64(c byte) bool {
	return c >= 'A' && c <= 'Z' || c >= 'a' && c <= 'z' || c >= '0' && c <= '9' || c == '+' || c == '/'
}

// c05DeriveKey reads 32 key bytes out of raw line bytes. It is deliberately NOT the
// documented format: each combination of (start, dec, fit) is one way in which a parser
// can be too generous (accept a prefix anywhere / in any case / the second entry of a
// line / no prefix at all; stop at, skip, or ignore characters that are not base64;
// decode unpadded or cut-off payloads; zero-pad short keys or cut long ones). The oracle
// never uses it: whatever key comes out is judged by the reference parser like any other.
func c05DeriveKey(line []byte, start, dec, fit int) (k keys.DHPublicKey) {
	s := string(line)
	const prefix = "hop-dh-v1-"
	p := s
	switch start % 4 {
	case 0: // after the first occurrence of the prefix, wherever it is
		if i := strings.Index(s, prefix); i >= 0 {
			p = s[i+len(prefix):]
		}
	case 1: // after the last occurrence (second entry of a line)
		if i := strings.LastIndex(s, prefix); i >= 0 {
			p = s[i+len(prefix):]
		}
	case 2: // prefix in any case, dash optional
		if i := strings.Index(strings.ToLower(s), "hop-dh-v1"); i >= 0 {
			p = strings.TrimPrefix(s[i+len("hop-dh-v1"):], "-")
		}
	case 3: // no prefix needed: the longest run of base64 characters of the line
		best, from := "", -1
		for i := 0; i <= len(s); i++ {
			in := i < len(s) && (c05IsB64(s[i]) || s[i] == '=')
			if in && from < 0 {
				from = i
			}
			if !in && from >= 0 {
				if i-from > len(best) {
					best = s[from:i]
				}
				from = -1
			}
		}
		p = best
	}
	var raw []byte
	switch dec % 3 {
	case 0: // the leading run of base64 characters, decoded without asking for padding or a whole quantum
		n := 0
		for n < len(p) && c05IsB64(p[n]) {
			n++
		}
		raw = c05RawDecode(p[:n])
	case 1: // every base64 character of the rest of the line, anything else skipped
		var b []byte
		for i := 0; i < len(p); i++ {
			if c05IsB64(p[i]) {
				b = append(b, p[i])
			}
		}
		raw = c05RawDecode(string(b))
	case 2: // the standard decoder with its error ignored: whatever it decoded before it stopped
		buf := make([]byte, base64.StdEncoding.DecodedLen(len(p)))
		n, _ := base64.StdEncoding.Decode(buf, []byte(p))
		raw = buf[:n]
	}
	switch fit % 2 {
	case 0: // first 32 bytes, zero-padded on the right
		copy(k[:], raw)
	case 1: // last 32 bytes, zero-padded on the left
		if len(raw) > len(k) {
			raw = raw[len(raw)-len(k):]
		}
		copy(k[len(k)-len(raw):], raw)
	}
	return k
}

// c05RawDecode decodes a string of base64 characters of any length: whole quanta, then
// what the remaining 2 or 3 characters still determine (a single left-over character
// determines no byte).
func c05RawDecode(s string) []byte {
	if len(s)%4 == 1 {
		s = s[:len(s)-1]
	}
	out, _ := base64.RawStdEncoding.DecodeString(s) // non-strict: trailing bits are ignored
	return out
}

// ---------------------------------------------------------------------------
// reference: the documented file format

// c05RefEntry decides whether a (trimmed) line is a well-formed entry and for
// which key: the text form produced by DHPublicKey.String — prefix "hop-dh-v1-"
// followed by the padded standard base64 encoding of exactly 32 bytes.
func c05RefEntry(s string) (k keys.DHPublicKey, ok bool) {
	const prefix = "hop-dh-v1-"
	if !strings.HasPrefix(s, prefix) {
		return k, false
	}
	rest := s[len(prefix):]
	if len(rest) != 44 || rest[43] != '=' {
		return k, false
	}
	for i := 0; i < 43; i++ {
		c := rest[i]
		if !(c >= 'A' && c <= 'Z' || c >= 'a' && c <= 'z' || c >= '0' && c <= '9' || c == '+' || c == '/') {
			return k, false
		}
	}
	raw, err := base64.StdEncoding.DecodeString(rest)
	if err != nil || len(raw) != 32 {
		return k, false
	}
	copy(k[:], raw)
	return k, true
}

type c05File struct {
	exists    bool
	dir       bool
	entries   map[keys.DHPublicKey]bool // well-formed entries
	nonblank  int
	malformed int  // non-blank lines that are not well-formed entries
	canonical bool // every line is exactly a canonical entry, LF separated (optional final LF)
}

func c05RefParse(data []byte) c05File {
	f := c05File{exists: true, entries: map[keys.DHPublicKey]bool{}, canonical: len(data) > 0}
	lines := bytes.Split(data, []byte("\n"))
	for i, raw := range lines {
		if i == len(lines)-1 && len(raw) == 0 {
			break // text after the final newline: nothing
		}
		if _, ok := c05RefEntry(string(raw)); !ok {
			f.canonical = false
		}
		s := strings.TrimSpace(string(raw))
		if s == "" {
			continue
		}
		f.nonblank++
		if k, ok := c05RefEntry(s); ok {
			f.entries[k] = true
		} else {
			f.malformed++
		}
	}
	return f
}

// state names the condition of user's file with respect to key (signature part).
func (f c05File) state(ghost bool, k keys.DHPublicKey) string {
	switch {
	case ghost:
		return "no-such-user"
	case !f.exists:
		return "missing"
	case f.dir:
		return "unreadable"
	case f.nonblank == 0:
		return "empty"
	case f.entries[k] && f.malformed > 0:
		return "listed+malformed"
	case f.entries[k]:
		return "listed"
	case f.malformed > 0:
		return "malformed"
	}
	return "other-keys-only"
}

// ---------------------------------------------------------------------------
// run

type c05UK struct {
	u string
	k int
}

func (uk c05UK) String() string { return fmt.Sprintf("(%q,K%d)", uk.u, uk.k+1) }

func c05Run(c c05Case, v *vlib.Verdict) {
	restore := verifAuthzInstallThunks(func() time.Time { return verifAuthzT0 })
	defer restore()
	z := verifAuthzNewServer(c.Enabled)

	// model
	enabled := c.Enabled
	files := map[string]c05File{}
	written := map[string][]c05Line{} // lines of the last write per user (source of derived login keys; kept after remove)
	grants := map[c05UK]int{}         // unconsumed grants
	consumed := map[c05UK]bool{}      // a grant for the pair was consumed and none added since
	labels := map[string]bool{}
	nt := false
	defer func() { // classification is recorded for violating cases as well
		v.NonTrivial = nt
		for l := range labels {
			v.Label(l)
		}
		v.Labelf("ops<=%d", c05Bucket(len(c.Ops)))
	}()

	grantsForKey := func(k int) int {
		n := 0
		for uk, cnt := range grants {
			if uk.k == k {
				n += cnt
			}
		}
		return n
	}
	// nearGrant: an unconsumed grant for the same key exists for a DIFFERENT account whose name is a
	// near-collision (case, trailing blank, NUL suffix, long s) of uk's - while none exists for uk itself.
	nearGrant := func(uk c05UK) bool {
		if grants[uk] > 0 {
			return false
		}
		for o, cnt := range grants {
			if cnt > 0 && o.k == uk.k && verifAuthzNear(o.u, uk.u) {
				return true
			}
		}
		return false
	}
	// whyNoGrant explains (for the signature) a grant-path success the model cannot justify.
	whyNoGrant := func(uk c05UK) string {
		if !enabled {
			return "C05:grant-used-while-disabled"
		}
		if consumed[uk] {
			return "C05:grant-reusable"
		}
		for o, cnt := range grants {
			if cnt > 0 && (o.u == uk.u) != (o.k == uk.k) {
				return "C05:grant-for-other-user-or-key"
			}
		}
		return "C05:granted-without-entry-or-grant:no-grant"
	}
	// consume applies a successful grant-path login to the model and checks what the
	// code promises about it. Returns false after a violation.
	consume := func(step int, uk c05UK, actions []authgrants.Authgrant) bool {
		if !enabled || grants[uk] == 0 {
			v.Failf(whyNoGrant(uk), "step %d: (%q,K%d) admitted through authgrants; enabled=%v, model holds %d grants for the pair (all grants: %v)",
				step, uk.u, uk.k+1, enabled, grants[uk], grants)
			return false
		}
		if len(actions) != grants[uk] {
			v.Failf("C05:grant-list-mismatch", "step %d: login (%q,K%d) returned %d grants, %d were stored", step, uk.u, uk.k+1, len(actions), grants[uk])
			return false
		}
		for _, a := range actions {
			if a.DelegateCert.PublicKey != verifAuthzKey(uk.k) {
				v.Failf("C05:grant-for-other-user-or-key", "step %d: login (%q,K%d) returned a grant naming another key", step, uk.u, uk.k+1)
				return false
			}
		}
		grants[uk] = 0
		consumed[uk] = true
		// "remove from transport layer key set" (target.go): once no stored grant names
		// the key any more, the transport must not admit it through the key set.
		if grantsForKey(uk.k) == 0 && z.InKeySet(uk.k) {
			v.Failf("C05:key-left-in-keyset", "step %d: K%d still in the transport key set after its last grant was consumed", step, uk.k+1)
			return false
		}
		return true
	}

	for i, op := range c.Ops {
		user := verifAuthzUsers[op.User%len(verifAuthzUsers)]
		uk := c05UK{user, op.Key}
		key := verifAuthzKey(op.Key)
		switch op.Op {
		case "write":
			data := c05Render(op)
			z.WriteKeys(user, data)
			files[user] = c05RefParse(data)
			written[user] = op.Lines
		case "remove":
			z.RemoveKeys(user)
			delete(files, user)
		case "unreadable":
			z.MakeUnreadable(user)
			files[user] = c05File{exists: true, dir: true}
		case "enable":
			z.SetEnabled(op.On)
			enabled = op.On
		case "grant":
			gt := authgrants.GrantType(op.GType)
			err := z.S.AddAuthGrant(verifAuthzIntent(user, op.Key, gt, "true", verifAuthzAt(op.Start), verifAuthzAt(op.Exp)))
			if err == nil {
				grants[uk]++
				consumed[uk] = false
				labels["grant-stored"] = true
			} else {
				labels["grant-not-stored"] = true
			}
		case "grantlogin":
			// the exported grant admission on its own (observation point of the statement)
			actions, err := z.S.AuthorizeKeyAuthGrant(user, key)
			live := enabled && grants[uk] > 0
			if consumed[uk] && grants[uk] == 0 {
				nt = true
			}
			if nearGrant(uk) {
				labels["grantlogin-as-near-collision-of-a-granted-user"] = true
				nt = true
			}
			if err == nil {
				labels["grantlogin:granted"] = true
				if !consume(i, uk, actions) {
					return
				}
			} else {
				labels["grantlogin:refused"] = true
				if live {
					v.Failf("C05:refused-live-grant", "step %d: AuthorizeKeyAuthGrant(%q,K%d) failed (%v) although %d grants are stored and authgrants are enabled", i, user, op.Key+1, err, grants[uk])
					return
				}
			}
		case "login":
			kname := fmt.Sprintf("K%d", op.Key+1)
			if d := op.D; d != nil && len(written[verifAuthzUsers[d.From%len(verifAuthzUsers)]]) > 0 {
				// present the key an over-lenient parser would read out of a line of the file
				lines := written[verifAuthzUsers[d.From%len(verifAuthzUsers)]]
				var odd []c05Line
				for _, l := range lines {
					if l.K != c05Valid && l.K != c05Blank && l.K != c05Space {
						odd = append(odd, l)
					}
				}
				if len(odd) > 0 {
					lines = odd
				}
				l := lines[d.Line%len(lines)]
				key = c05DeriveKey(c05RenderLine(l), d.Start, d.Dec, d.Fit)
				uk.k, kname = -1, fmt.Sprintf("derived(%s line, start=%d dec=%d fit=%d)=%x", c05KindName[l.K], d.Start%4, d.Dec%3, d.Fit%2, key[:])
				for j := 0; j < verifAuthzNKeys; j++ {
					if verifAuthzKey(j) == key {
						uk.k, kname = j, fmt.Sprintf("K%d(derived from a %s line)", j+1, c05KindName[l.K])
					}
				}
				labels["derived-key:"+c05KindName[l.K]] = true
				if uk.k < 0 {
					labels["derived-key:not-a-fixture-key"] = true
				}
			}
			if nearGrant(uk) {
				labels["login-as-near-collision-of-a-granted-user"] = true
			}
			if cur := files[user]; cur.exists && !cur.dir {
				for _, l := range written[user] {
					if l.K != c05Pieces {
						continue
					}
					size, count, _, _ := c05PiecesShape(l.N)
					for j := 0; j < count; j++ {
						if verifAuthzKey(c05PiecesKey(l, j)) == key {
							labels[fmt.Sprintf("login-with-entry-%d-of-a-buffer-aligned-line:distance=%d", j+1, size)] = true
						}
					}
				}
			}
			for o, of := range files {
				if verifAuthzNear(o, user) && of.entries[key] {
					labels["login-as-near-collision-of-a-user-listing-the-key"] = true
				}
			}
			f := files[user]
			st := f.state(user == "ghost", key)
			listed := st == "listed" || st == "listed+malformed"
			live := enabled && grants[uk] > 0
			afterConsumed := consumed[uk] && grants[uk] == 0
			if !listed || afterConsumed || st == "listed+malformed" {
				nt = true
			}
			granted, viaGrant, actions := verifAuthzLogin(z.S, user, key)
			res := "refused"
			if granted && viaGrant {
				res = "granted-by-grant"
			} else if granted {
				res = "granted-by-file"
			}
			labels["login:"+st+":"+res] = true
			if afterConsumed {
				labels["login-after-consumed-grant:"+res] = true
			}
			switch {
			case granted && !viaGrant:
				if !listed && !live {
					v.Failf("C05:granted-without-entry-or-grant:"+st, "step %d: AuthorizeKey(%q,%s)=nil; file state %q (%d well-formed entries, %d malformed lines), no live grant (enabled=%v, grants=%d)",
						i, user, kname, st, len(f.entries), f.malformed, enabled, grants[uk])
					return
				}
				if !listed {
					labels["file-path-shadowed-live-grant"] = true
				}
			case granted && viaGrant:
				if !consume(i, uk, actions) {
					return
				}
			default:
				if st == "listed" && f.canonical {
					v.Failf("C05:refused-listed-key", "step %d: login (%q,%s) refused although the file consists solely of canonical entries and lists the key", i, user, kname)
					return
				}
				if live {
					v.Failf("C05:refused-live-grant", "step %d: login (%q,%s) refused although %d grants are stored and authgrants are enabled", i, user, kname, grants[uk])
					return
				}
			}
		default:
			v.Discard = true
			return
		}
	}

	// final drain: the server's grant map must equal the model.
	z.SetEnabled(true)
	enabled = true
	for _, user := range verifAuthzUsers {
		for k := 0; k < verifAuthzNKeys; k++ {
			uk := c05UK{user, k}
			actions, err := z.S.AuthorizeKeyAuthGrant(user, verifAuthzKey(k))
			if err == nil {
				if !consume(len(c.Ops), uk, actions) {
					return
				}
			} else if grants[uk] > 0 {
				v.Failf("C05:refused-live-grant", "final drain: %d stored grants for (%q,K%d) are gone", grants[uk], user, k+1)
				return
			}
		}
	}

}

func c05Bucket(n int) int {
	for _, b := range []int{1, 3, 10, 30, 100} {
		if n <= b {
			return b
		}
	}
	return 1 << 30
}

func c05Guarded(c c05Case, v *vlib.Verdict) { vlib.Guard(v, func() { c05Run(c, v) }) }

// ---------------------------------------------------------------------------
// generator

func c05GenLine(t *rapid.T) c05Line {
	// half of the lines are plain valid entries; the rest spread over the grammar
	kind := c05Valid
	if rapid.IntRange(0, 99).Draw(t, "plain") >= 50 {
		kind = rapid.IntRange(0, c05NKinds-1).Draw(t, "kind")
		if kind == c05Long && rapid.IntRange(0, 3).Draw(t, "long-rare") != 0 {
			kind = c05Comment
		}
	}
	l := c05Line{K: kind, Key: rapid.SampledFrom(c05KeyBias).Draw(t, "lkey")}
	switch kind {
	case c05Valid, c05Blank, c05Key31, c05Trailing, c05BOM:
	case c05Pieces:
		// every shape (7 distances x 2..3 entries x blank / tab x last piece padded or not) directly, not through
		// the small-biased integer draw
		l.N = rapid.IntRange(0, len(c05PieceSizes)*8-1).Draw(t, "pieces-shape")
	default:
		l.N = rapid.IntRange(0, 1000).Draw(t, "n")
	}
	return l
}

var c05OpWeights = []string{
	"login", "login", "login", "login", "login", "login", "login",
	"write", "write", "write", "write", "write",
	"grant", "grant", "grant", "grant",
	"grantlogin", "grantlogin",
	"enable",
	"remove", "unreadable",
}

// users and keys are drawn with a bias so that operations of one history collide
// on the same (user, key) pair often; every pair is still reachable.
var (
	c05UserBias = []int{0, 0, 0, 0, 1, 1, 1, 2, 2, 3} // index into the cast of the history (verifAuthzGenCast)
	c05KeyBias  = []int{0, 0, 0, 0, 1, 1, 1, 2, 2, 3}
)

func c05GenOp(t *rapid.T, cast []int) c05Op {
	op := c05Op{Op: rapid.SampledFrom(c05OpWeights).Draw(t, "op")}
	op.User = cast[rapid.SampledFrom(c05UserBias).Draw(t, "user")%len(cast)]
	switch op.Op {
	case "write":
		op.Lines = rapid.SliceOfN(rapid.Custom(c05GenLine), 0, 5).Draw(t, "lines")
		op.CRLF = rapid.IntRange(0, 4).Draw(t, "crlf") == 4
		op.NoNL = rapid.IntRange(0, 2).Draw(t, "nonl") == 2
	case "enable":
		op.On = rapid.IntRange(0, 2).Draw(t, "on") != 0
	case "grant":
		op.Key = rapid.SampledFrom(c05KeyBias).Draw(t, "key")
		op.GType = rapid.SampledFrom([]int{1, 2, 2, 3, 4, 9}).Draw(t, "gtype")
		op.Start = rapid.IntRange(-5, 5).Draw(t, "start")
		op.Exp = rapid.IntRange(-5, 60).Draw(t, "exp")
	case "login", "grantlogin":
		op.Key = rapid.SampledFrom(c05KeyBias).Draw(t, "key")
		// a third of the logins present a key READ OUT OF a line of a file written earlier
		// (mostly the user's own) instead of a fixture key
		if op.Op == "login" && rapid.IntRange(0, 2).Draw(t, "derive") == 0 {
			d := &c05Derive{From: op.User, Line: rapid.IntRange(0, 4).Draw(t, "dline"), Start: rapid.IntRange(0, 3).Draw(t, "dstart"),
				Dec: rapid.IntRange(0, 2).Draw(t, "ddec"), Fit: rapid.IntRange(0, 1).Draw(t, "dfit")}
			if rapid.IntRange(0, 5).Draw(t, "dother") == 0 {
				d.From = rapid.IntRange(0, len(verifAuthzUsers)-1).Draw(t, "dfrom")
			}
			op.D = d
		}
	}
	return op
}

func c05Gen(t *rapid.T) c05Case {
	cast := verifAuthzGenCast(t)
	return c05Case{
		Enabled: rapid.IntRange(0, 3).Draw(t, "enabled") != 0,
		Ops:     rapid.SliceOfN(rapid.Custom(func(t *rapid.T) c05Op { return c05GenOp(t, cast) }), 2, 24).Draw(t, "ops"),
	}
}

// ---------------------------------------------------------------------------
// self-test of the reference and of the fixtures (machinery, never a violation)

func c05SelfTest(t *testing.T) {
	for i := 0; i < verifAuthzNKeys; i++ {
		k := verifAuthzKey(i)
		if got, ok := c05RefEntry(k.String()); !ok || got != k {
			t.Fatalf("VERIF-MACHINERY reference parser rejects DHPublicKey.String() of K%d", i+1)
		}
		for j := 0; j < i; j++ {
			if verifAuthzKey(j) == k {
				t.Fatalf("VERIF-MACHINERY fixture keys K%d and K%d are equal", i+1, j+1)
			}
		}
	}
	// every non-entry kind of the grammar must be rejected by the reference, every entry kind accepted
	for kind := 0; kind < c05NKinds; kind++ {
		for n := 0; n < 60; n++ {
			l := c05Line{K: kind, Key: n % verifAuthzNKeys, N: n}
			if kind == c05Binary {
				continue // arbitrary bytes: classified from the bytes
			}
			f := c05RefParse(append(c05RenderLine(l), '\n'))
			want := 0
			if kind == c05Valid || kind == c05ValidPadded || (kind == c05Long && n%3 != 0) {
				want = 1
			}
			if len(f.entries) != want || (want == 1 && !f.entries[verifAuthzKey(l.Key)]) {
				t.Fatalf("VERIF-MACHINERY reference parser: line kind %s n=%d yields %d entries, want %d", c05KindName[kind], n, len(f.entries), want)
			}
			if (kind == c05Valid) != f.canonical {
				t.Fatalf("VERIF-MACHINERY reference parser: canonical=%v for line kind %s", f.canonical, c05KindName[kind])
			}
		}
	}
	// buffer-aligned lines: one physical line, entry i exactly at byte i*distance, nothing but blanks between
	for n := 0; n < len(c05PieceSizes)*8; n++ {
		l := c05Line{K: c05Pieces, Key: n % verifAuthzNKeys, N: n}
		line := c05RenderLine(l)
		size, count, _, padLast := c05PiecesShape(n)
		if bytes.ContainsAny(line, "\r\n") || (padLast && len(line) != count*size) || (!padLast && len(line) != (count-1)*size+len(c05Entry(0))) {
			t.Fatalf("VERIF-MACHINERY buffer-aligned line n=%d: %d bytes, distance %d, %d entries", n, len(line), size, count)
		}
		for i := 0; i < count; i++ {
			e := c05Entry(c05PiecesKey(l, i))
			piece := line[i*size:]
			if len(piece) > size {
				piece = piece[:size]
			}
			if !bytes.HasPrefix(piece, []byte(e)) || strings.TrimSpace(string(piece)) != e {
				t.Fatalf("VERIF-MACHINERY buffer-aligned line n=%d: piece %d is not entry K%d surrounded by blanks", n, i, c05PiecesKey(l, i)+1)
			}
		}
	}
	// the lenient reader: a canonical entry yields its key in every mode; a payload cut at a
	// quantum boundary yields the decoded bytes zero-padded; the second entry of a line is found
	for m := 0; m < 4*3*2; m++ {
		if got := c05DeriveKey([]byte(c05Entry(1)), m%4, m/4%3, m/12); got != verifAuthzKey(1) {
			t.Fatalf("VERIF-MACHINERY c05DeriveKey(start=%d dec=%d fit=%d) of a canonical entry = %x", m%4, m/4%3, m/12, got[:])
		}
	}
	{
		k := verifAuthzKey(2)
		var want keys.DHPublicKey
		copy(want[:], k[:30])
		if got := c05DeriveKey(c05RenderLine(c05Line{K: c05Truncated, Key: 2, N: 40}), 0, 0, 0); got != want {
			t.Fatalf("VERIF-MACHINERY c05DeriveKey of an entry cut after 40 characters = %x, want %x", got[:], want[:])
		}
		copy(want[:], k[:31])
		if got := c05DeriveKey(c05RenderLine(c05Line{K: c05Key31, Key: 2}), 0, 0, 0); got != want {
			t.Fatalf("VERIF-MACHINERY c05DeriveKey of a 31-byte entry = %x, want %x", got[:], want[:])
		}
		if got := c05DeriveKey(c05RenderLine(c05Line{K: c05TwoInOne, Key: 2, N: 0}), 1, 0, 0); got != verifAuthzKey(3) {
			t.Fatalf("VERIF-MACHINERY c05DeriveKey does not find the second entry of a line: %x", got[:])
		}
		if _, ok := c05RefEntry(keys.DHPublicKeyPrefix + c05B64(want)); !ok {
			t.Fatalf("VERIF-MACHINERY reference parser rejects the canonical entry of a derived key")
		}
	}
	f := c05RefParse([]byte(c05Entry(0) + "\n" + c05Entry(1)))
	if !f.canonical || len(f.entries) != 2 || f.state(false, verifAuthzKey(2)) != "other-keys-only" || f.state(false, verifAuthzKey(1)) != "listed" {
		t.Fatalf("VERIF-MACHINERY reference parser: two-entry file misread: %+v", f)
	}
	if st := c05RefParse(nil).state(false, verifAuthzKey(0)); st != "empty" {
		t.Fatalf("VERIF-MACHINERY empty file classified %q", st)
	}
	// fixture sanity (positive direction only, so that a fail-open server still reaches the
	// search and is reported as a violation there, not as a machinery error): the file
	// written through the fixture is the one AuthorizeKey reads.
	restore := verifAuthzInstallThunks(func() time.Time { return verifAuthzT0 })
	z := verifAuthzNewServer(false)
	z.WriteKeys("alice", []byte(c05Entry(0)+"\n"+c05Entry(1)+"\n"))
	err := z.S.AuthorizeKey("alice", verifAuthzKey(1))
	restore()
	if err != nil {
		t.Fatalf("VERIF-MACHINERY fixture: key listed in a canonical file is refused: %v", err)
	}
	// classification sanity on an honest history (skipped when the oracle objects: the
	// search reports that properly)
	var v vlib.Verdict
	c05Run(c05Case{Enabled: true, Ops: []c05Op{
		{Op: "write", User: 0, Lines: []c05Line{{K: c05Valid, Key: 0}, {K: c05Valid, Key: 1}}},
		{Op: "login", User: 0, Key: 1}, {Op: "login", User: 0, Key: 2}, {Op: "login", User: 1, Key: 1},
		{Op: "grant", User: 1, Key: 1, GType: 1, Exp: 10}, {Op: "login", User: 1, Key: 1}, {Op: "login", User: 1, Key: 1},
	}}, &v)
	if v.OK() {
		have := map[string]bool{}
		for _, l := range v.Labels {
			have[l] = true
		}
		for _, w := range []string{"login:listed:granted-by-file", "login:other-keys-only:refused", "login:missing:refused",
			"login:missing:granted-by-grant", "login-after-consumed-grant:refused"} {
			if !have[w] {
				t.Fatalf("VERIF-MACHINERY honest history: label %q missing (labels %v)", w, v.Labels)
			}
		}
		if !v.NonTrivial {
			t.Fatalf("VERIF-MACHINERY honest history not classified non-trivial")
		}
	}
}

func TestVerifC05Login(t *testing.T) {
	c05SelfTest(t)
	vlib.Drive(t, vlib.Spec[c05Case]{ID: "C05", Quick: 100000, Gen: c05Gen, Run: c05Guarded})
}
