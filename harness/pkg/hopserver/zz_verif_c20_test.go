package hopserver

// C20 — a server presents the first virtual host whose pattern matches.

import (
	"io"
	"testing"

	"github.com/sirupsen/logrus"
	"pgregory.net/rapid"
	"verif.local/vlib"
	"verif.local/vlib/refglob"
)

type c20vCase struct {
	Patterns []string `json:"patterns"`
	Name     string   `json:"name"`
}

func c20vRun(c c20vCase, v *vlib.Verdict) {
	logrus.SetOutput(io.Discard)
	var vh VirtualHosts
	want := -1
	nmatch := 0
	for i, p := range c.Patterns {
		vh = append(vh, VirtualHost{Pattern: p})
		if refglob.Match(p, c.Name) {
			nmatch++
			if want < 0 {
				want = i
			}
		}
	}
	var got *VirtualHost
	if vlib.Guard(v, func() { got = vh.Match(c.Name) }) {
		return
	}
	v.NonTrivial = len(c.Patterns) >= 2 && (nmatch >= 2 || nmatch == 0 || want > 0)
	v.Labelf("vhosts=%d", len(c.Patterns))
	v.Labelf("matching=%d", nmatch)
	gi := -1
	for i := range vh {
		if got == &vh[i] {
			gi = i
		}
	}
	if got != nil && gi < 0 {
		v.Failf("C20:vhost-foreign-entry", "Match(%q) returned an entry that is not in the list", c.Name)
		return
	}
	if gi != want {
		v.Failf("C20:vhost-wrong-entry", "Match(%q) over %q returned index %d, reference says %d", c.Name, c.Patterns, gi, want)
	}
}

func c20vGen(t *rapid.T) c20vCase {
	pat := rapid.StringMatching(`[ab*]{0,5}|[ab]{1,3}\*|\*[ab]{1,3}|[ab]{0,2}\*[ab]{1,2}`)
	return c20vCase{Patterns: rapid.SliceOfN(pat, 0, 6).Draw(t, "pats"), Name: rapid.StringMatching(`[ab]{0,6}`).Draw(t, "name")}
}

func TestVerifC20VHosts(t *testing.T) {
	vlib.Drive(t, vlib.Spec[c20vCase]{ID: "C20", Quick: 10000, Gen: c20vGen, Run: c20vRun})
}
