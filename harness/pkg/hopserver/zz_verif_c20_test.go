package hopserver

// C20 — a server presents the first virtual host whose pattern matches.

import (
	"bytes"
	"encoding/hex"
	"fmt"
	"io"
	"net"
	"reflect"
	"sync"
	"testing"
	"time"
	"unicode/utf8"
	"unsafe"

	"github.com/sirupsen/logrus"
	"pgregory.net/rapid"
	"verif.local/vlib"
	"verif.local/vlib/refglob"

	"hop.computer/hop/certs"
	"hop.computer/hop/config"
	"hop.computer/hop/keys"
	"hop.computer/hop/transport"
)

type c20vCase struct {
	Patterns []string `json:"patterns"`
	Name     string   `json:"name"`
}

func c20vRun(c c20vCase, v *vlib.Verdict) {
	logrus.SetOutput(io.Discard)
	var vh VirtualHosts
	want := -1
	nmatch := 0
	for i, p := range c.Patterns {
		vh = append(vh, VirtualHost{Pattern: p})
		if refglob.Match(p, c.Name) {
			nmatch++
			if want < 0 {
				want = i
			}
		}
	}
	var got *VirtualHost
	if vlib.Guard(v, func() { got = vh.Match(c.Name) }) {
		return
	}
	v.NonTrivial = len(c.Patterns) >= 2 && (nmatch >= 2 || nmatch == 0 || want > 0)
	v.Labelf("vhosts=%d", len(c.Patterns))
	v.Labelf("matching=%d", nmatch)
	gi := -1
	for i := range vh {
		if got == &vh[i] {
			gi = i
		}
	}
	if got != nil && gi < 0 {
		v.Failf("C20:vhost-foreign-entry", "Match(%q) returned an entry that is not in the list", c.Name)
		return
	}
	if gi != want {
		v.Failf("C20:vhost-wrong-entry", "Match(%q) over %q returned index %d, reference says %d", c.Name, c.Patterns, gi, want)
	}
}

func c20vGen(t *rapid.T) c20vCase {
	pat := rapid.StringMatching(`[ab*]{0,5}|[ab]{1,3}\*|\*[ab]{1,3}|[ab]{0,2}\*[ab]{1,2}`)
	return c20vCase{Patterns: rapid.SliceOfN(pat, 0, 6).Draw(t, "pats"), Name: rapid.StringMatching(`[ab]{0,6}`).Draw(t, "name")}
}

func TestVerifC20VHosts(t *testing.T) {
	vlib.Drive(t, vlib.Spec[c20vCase]{ID: "C20", Quick: 10000, Gen: c20vGen, Run: c20vRun})
}

// ---------------------------------------------------------------------------
// The certificate callbacks that NewHopServer really installs.
//
// VirtualHosts.Match is one half of "a server presents the first virtual host whose
// pattern matches the requested name"; the other half is WHAT the server hands to the
// matcher. The requested name reaches the server as a certs.Name (type byte + label
// bytes, both chosen by the client; Name.ReadFrom validates neither), and the closure
// that NewHopServer puts into transport.ServerConfig.GetCertificate turns it into the
// matcher's input. A case is a server configuration (0..5 Names blocks with generated
// patterns, with or without the server-level certificate that becomes the trailing "*"
// host, 0..2 HiddenModeVHostNames) and 1..4 requested names: every type byte 0..255,
// labels of arbitrary bytes (non-UTF-8, NUL, '*', empty, 4 and 16 bytes long). The
// server is built by the real NewHopServer (real UDP socket on 127.0.0.1, closed at the
// end of the case; Serve is not started) and the callbacks are read out of the transport
// server it made (white-box: reflect on transport.Server.config).
//
// Oracle: no panic; GetCertificate returns the certificate of the FIRST virtual host whose
// pattern glob-matches the label bytes (reference matcher), and no certificate together
// with an error when none matches (the transport dereferences the certificate whenever
// the error is nil); GetCertList returns, for the hidden-mode names in order, the
// certificate of the first virtual host that matches each (names that match nothing are
// left out).

type c20cReq struct {
	Type  int    `json:"type"`
	Label []byte `json:"label"` // nil = the zero Name's label
}

type c20cCase struct {
	Patterns [][]byte  `json:"patterns"` // Names blocks, in order (bytes: patterns need not be valid UTF-8)
	Default  bool      `json:"default"`  // server-level Key/Certificate present (-> trailing "*" host)
	Hidden   [][]byte  `json:"hidden,omitempty"`
	Reqs     []c20cReq `json:"reqs"`
}

type c20cChain struct {
	key          *keys.X25519KeyPair
	leaf, interm *certs.Certificate
	rawLeaf      []byte
}

const c20cMaxNames = 5

var (
	c20cOnce   sync.Once
	c20cChains []c20cChain // c20cMaxNames for the Names blocks + 1 for the default host
	c20cErr    error
)

func c20cSetup() error {
	c20cOnce.Do(func() {
		logrus.SetOutput(io.Discard)
		logrus.SetLevel(logrus.PanicLevel)
		for i := 0; i <= c20cMaxNames; i++ {
			dns := fmt.Sprintf("vhost%d.example", i)
			rootKey := keys.GenerateNewSigningKeyPair()
			root, err := certs.SelfSignRoot(&certs.Identity{PublicKey: rootKey.Public, Names: []certs.Name{certs.DNSName("root." + dns)}}, rootKey)
			if err == nil {
				err = root.ProvideKey((*[32]byte)(&rootKey.Private))
			}
			if err != nil {
				c20cErr = err
				return
			}
			intKey := keys.GenerateNewSigningKeyPair()
			interm, err := certs.IssueIntermediate(root, &certs.Identity{PublicKey: intKey.Public, Names: []certs.Name{certs.DNSName("intermediate." + dns)}})
			if err == nil {
				err = interm.ProvideKey((*[32]byte)(&intKey.Private))
			}
			if err != nil {
				c20cErr = err
				return
			}
			key := keys.GenerateNewX25519KeyPair()
			leaf, err := certs.IssueLeaf(interm, &certs.Identity{PublicKey: key.Public, Names: []certs.Name{certs.DNSName(dns)}})
			if err != nil {
				c20cErr = err
				return
			}
			raw, err := leaf.Marshal()
			if err != nil {
				c20cErr = err
				return
			}
			c20cChains = append(c20cChains, c20cChain{key: key, leaf: leaf, interm: interm, rawLeaf: raw})
		}
		// the environment must allow what NewHopServer does (it exits the process when it cannot listen)
		pc, err := net.ListenPacket("udp", "127.0.0.1:0")
		if err != nil {
			c20cErr = err
			return
		}
		pc.Close()
	})
	return c20cErr
}

// c20cCallbacks reads the callbacks out of the transport server that NewHopServer built.
func c20cCallbacks(s *transport.Server) (tc transport.ServerConfig, err error) {
	defer func() {
		if r := recover(); r != nil {
			err = fmt.Errorf("reflect on transport.Server.config: %v", r)
		}
	}()
	f := reflect.ValueOf(s).Elem().FieldByName("config")
	if !f.IsValid() || f.Type() != reflect.TypeOf(transport.ServerConfig{}) {
		return tc, fmt.Errorf("transport.Server has no field config of type transport.ServerConfig")
	}
	tc = *(*transport.ServerConfig)(unsafe.Pointer(f.UnsafeAddr()))
	if tc.GetCertificate == nil || tc.GetCertList == nil {
		return tc, fmt.Errorf("NewHopServer installed no GetCertificate / GetCertList")
	}
	return tc, nil
}

func c20cBuild(c c20cCase) (*HopServer, error) {
	sc := &config.ServerConfig{ListenAddress: "127.0.0.1:0", InsecureSkipVerify: true, HandshakeTimeout: 5 * time.Second}
	for i, p := range c.Patterns {
		ch := c20cChains[i]
		sc.Names = append(sc.Names, config.NameConfig{Pattern: string(p), Key: ch.key, Certificate: ch.leaf, Intermediate: ch.interm})
	}
	if c.Default {
		ch := c20cChains[c20cMaxNames]
		sc.Key, sc.Certificate, sc.Intermediate = ch.key, ch.leaf, ch.interm
	}
	for _, h := range c.Hidden {
		sc.HiddenModeVHostNames = append(sc.HiddenModeVHostNames, string(h))
	}
	return NewHopServer(sc)
}

// c20cWhich maps a returned certificate to the index of its virtual host (-1 none, -2 foreign).
func c20cWhich(c c20cCase, cert *transport.Certificate) int {
	if cert == nil {
		return -1
	}
	for i := range c.Patterns {
		if bytes.Equal(cert.RawLeaf, c20cChains[i].rawLeaf) {
			return i
		}
	}
	if c.Default && bytes.Equal(cert.RawLeaf, c20cChains[c20cMaxNames].rawLeaf) {
		return len(c.Patterns)
	}
	return -2
}

func c20cRun(c c20cCase, v *vlib.Verdict) {
	if len(c.Patterns) > c20cMaxNames {
		v.Discard = true
		return
	}
	var srv *HopServer
	var err error
	if vlib.Guard(v, func() { srv, err = c20cBuild(c) }) {
		return
	}
	if err != nil || srv == nil || srv.Server == nil {
		v.Inconclusive = fmt.Sprintf("NewHopServer: %v", err)
		return
	}
	defer srv.Server.Close()
	tc, err := c20cCallbacks(srv.Server)
	if err != nil {
		v.Inconclusive = err.Error()
		return
	}
	// the virtual host table as the server configuration states it
	pats := make([]string, 0, len(c.Patterns)+1)
	for _, p := range c.Patterns {
		pats = append(pats, string(p))
	}
	if c.Default {
		pats = append(pats, "*")
	}
	first := func(name string) int {
		for i, p := range pats {
			if refglob.Match(p, name) {
				return i
			}
		}
		return -1
	}
	v.Labelf("vhosts=%d", len(pats))
	interesting := false
	for ri, r := range c.Reqs {
		name := certs.Name{Type: certs.IDType(byte(r.Type)), Label: r.Label}
		want := first(string(r.Label))
		switch {
		case r.Type > 3:
			v.Label("name-type:unassigned")
		default:
			v.Labelf("name-type:%d", r.Type)
		}
		if !utf8.Valid(r.Label) {
			v.Label("label:not-utf8")
		}
		if len(r.Label) == 0 {
			v.Label("label:empty")
		}
		// does the printed form of the name (hex dump / dotted address) select another host than the label does?
		for _, d := range c20cDisplayForms(r.Label) {
			if first(d) != want {
				v.Label("display-form-would-select-another-vhost")
				interesting = true
				break
			}
		}
		if r.Type > 3 || want > 0 || (want < 0 && len(pats) > 0) {
			interesting = true
		}
		var cert *transport.Certificate
		var cerr error
		if vlib.Guard(v, func() { cert, cerr = tc.GetCertificate(transport.ClientHandshakeInfo{ServerName: name}) }) {
			return
		}
		got := c20cWhich(c, cert)
		switch {
		case got == -2:
			v.Failf("C20:server-callback-foreign-certificate", "request #%d: GetCertificate(type %#x, label %q) over %q returned a certificate of no configured virtual host", ri, r.Type, r.Label, pats)
			return
		case got != want:
			v.Failf("C20:server-callback-wrong-vhost", "request #%d: GetCertificate(type %#x, label %q) over %q presented virtual host %d (err %v), the first host whose pattern matches the label is %d", ri, r.Type, r.Label, pats, got, cerr, want)
			return
		case want < 0 && cerr == nil:
			v.Failf("C20:server-callback-no-match-without-error", "request #%d: GetCertificate(type %#x, label %q) over %q: no pattern matches, the callback returned neither a certificate nor an error", ri, r.Type, r.Label, pats)
			return
		}
	}
	if len(c.Hidden) > 0 {
		var wantList []int
		for _, h := range c.Hidden {
			if i := first(string(h)); i >= 0 {
				wantList = append(wantList, i)
			}
		}
		var list []*transport.Certificate
		var lerr error
		if vlib.Guard(v, func() { list, lerr = tc.GetCertList() }) {
			return
		}
		switch {
		case len(c.Hidden) > len(pats):
			v.Label("certlist:more-hidden-names-than-vhosts(not judged)")
		case len(wantList) == 0:
			v.Label("certlist:no-hidden-name-matches")
			if lerr == nil && len(list) > 0 {
				v.Failf("C20:server-callback-certlist-wrong-vhosts", "GetCertList with hidden-mode names %q over %q returned %d certificates, no name matches a pattern", c.Hidden, pats, len(list))
				return
			}
		default:
			v.Label("certlist:judged")
			var gotList []int
			for _, ct := range list {
				gotList = append(gotList, c20cWhich(c, ct))
			}
			if lerr != nil || fmt.Sprint(gotList) != fmt.Sprint(wantList) {
				v.Failf("C20:server-callback-certlist-wrong-vhosts", "GetCertList with hidden-mode names %q over %q returned virtual hosts %v (err %v), the first matching hosts are %v", c.Hidden, pats, gotList, lerr, wantList)
				return
			}
		}
	}
	v.NonTrivial = interesting
}

// c20cDisplayForms lists the ways a name's label is PRINTED (certs.Name.String: hex dump,
// dotted / colon address) - strings that are not the requested name.
func c20cDisplayForms(label []byte) []string {
	out := []string{hex.EncodeToString(label)}
	if len(label) == 4 || len(label) == 16 {
		out = append(out, net.IP(label).String())
	}
	return out
}

func c20cGen(t *rapid.T) c20cCase {
	alphabet := []byte{'a', 'b', '*', '.', '1', 'f', '6', 0x00, 0xff, 0xc3, 0x80, 0x7f}
	bs := func(tag string, min, max int) []byte {
		return rapid.SliceOfN(rapid.SampledFrom(alphabet), min, max).Draw(t, tag)
	}
	var c c20cCase
	nreq := rapid.SampledFrom([]int{1, 1, 2, 3, 4}).Draw(t, "nreq")
	for i := 0; i < nreq; i++ {
		var r c20cReq
		switch rapid.IntRange(0, 9).Draw(t, "type-kind") {
		case 0, 1, 2:
			r.Type = 0
		case 3, 4:
			r.Type = 1
		case 5:
			r.Type = 2
		case 6:
			r.Type = 3
		case 7:
			r.Type = rapid.SampledFrom([]int{4, 5, 0x7f, 0x80, 0xfe, 0xff}).Draw(t, "type")
		default:
			r.Type = rapid.IntRange(0, 255).Draw(t, "type")
		}
		switch rapid.IntRange(0, 9).Draw(t, "label-kind") {
		case 0:
			r.Label = nil // the zero Name a client sends when it has no server name configured
		case 1:
			r.Label = []byte{}
		case 2:
			r.Label = bs("label", 4, 4)
		case 3:
			r.Label = bs("label", 16, 16)
		case 4:
			r.Label = rapid.SliceOfN(rapid.Byte(), 1, 6).Draw(t, "label")
		default:
			r.Label = bs("label", 1, 6)
		}
		c.Reqs = append(c.Reqs, r)
	}
	// a pattern: free, or cut out of a requested label, or cut out of a printed form of a requested label
	pattern := func(tag string) []byte {
		r := c.Reqs[rapid.IntRange(0, len(c.Reqs)-1).Draw(t, tag+"-of")]
		var base []byte
		switch rapid.IntRange(0, 5).Draw(t, tag+"-kind") {
		case 0, 1:
			return bs(tag, 0, 5)
		case 2, 3:
			base = r.Label
		default:
			forms := c20cDisplayForms(r.Label)
			base = []byte(forms[rapid.IntRange(0, len(forms)-1).Draw(t, tag+"-form")])
		}
		if len(base) == 0 {
			return append([]byte{}, base...)
		}
		i := rapid.IntRange(0, len(base)).Draw(t, tag+"-i")
		j := rapid.IntRange(i, len(base)).Draw(t, tag+"-j")
		switch rapid.IntRange(0, 4).Draw(t, tag+"-cut") {
		case 0:
			return append([]byte{}, base...)
		case 1:
			return append(append([]byte{}, base[:j]...), '*')
		case 2:
			return append([]byte{'*'}, base[i:]...)
		case 3:
			return append(append([]byte{'*'}, base[i:j]...), '*')
		}
		return append(append(append([]byte{}, base[:i]...), '*'), base[j:]...)
	}
	np := rapid.SampledFrom([]int{0, 1, 1, 2, 2, 3, 3, 4, 5}).Draw(t, "npatterns")
	for i := 0; i < np; i++ {
		c.Patterns = append(c.Patterns, pattern(fmt.Sprintf("pat%d", i)))
	}
	c.Default = rapid.IntRange(0, 3).Draw(t, "default") != 0
	nh := rapid.SampledFrom([]int{0, 0, 1, 2}).Draw(t, "nhidden")
	for i := 0; i < nh; i++ {
		c.Hidden = append(c.Hidden, pattern(fmt.Sprintf("hidden%d", i)))
	}
	return c
}

func TestVerifC20ServerCallbacks(t *testing.T) {
	if err := c20cSetup(); err != nil {
		t.Fatalf("VERIF-MACHINERY C20 server callbacks: set-up: %v", err)
	}
	// self-test of the white-box access: a plain server yields both callbacks
	srv, err := c20cBuild(c20cCase{Default: true})
	if err != nil {
		t.Fatalf("VERIF-MACHINERY C20 server callbacks: NewHopServer: %v", err)
	}
	_, err = c20cCallbacks(srv.Server)
	srv.Server.Close()
	if err != nil {
		t.Fatalf("VERIF-MACHINERY C20 server callbacks: %v", err)
	}
	vlib.Drive(t, vlib.Spec[c20cCase]{ID: "C20", Quick: 6000, Gen: c20cGen, Run: c20cRun})
}
