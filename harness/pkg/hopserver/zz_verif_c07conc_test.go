package hopserver

// C07 (concurrent admission): a stored grant set admits at most one of several
// connection attempts racing for the same (user, key) — "each grant authorizes
// a single action ... grants disappear once consumed" must also hold when the
// admissions overlap. Real goroutines, released through a spin barrier; the
// interleaving is the Go scheduler's (plus drawn runtime.Gosched counts), so
// detection is probabilistic but a reported violation is always genuine.

import (
	"runtime"
	"sync"
	"sync/atomic"
	"testing"
	"time"

	"pgregory.net/rapid"
	"verif.local/vlib"

	"hop.computer/hop/authgrants"
)

type c07ConcCase struct {
	Goroutines int   `json:"goroutines"`
	Grants     int   `json:"grants"`
	Rounds     int   `json:"rounds"`
	Yields     []int `json:"yields"` // Gosched calls per goroutine before the admission call
}

func c07ConcRun(c c07ConcCase, v *vlib.Verdict) {
	restore := verifAuthzInstallThunks(func() time.Time { return verifAuthzT0 })
	defer restore()
	z := verifAuthzNewServer(true)
	worst := 0
	for round := 0; round < c.Rounds; round++ {
		for g := 0; g < c.Grants; g++ {
			if err := z.S.AddAuthGrant(verifAuthzIntent("alice", 1, authgrants.Command, "ls", verifAuthzAt(-10), verifAuthzAt(1000))); err != nil {
				v.Discard = true
				return
			}
		}
		var ready, admitted, grantsSeen atomic.Int32
		var wg sync.WaitGroup
		for g := 0; g < c.Goroutines; g++ {
			wg.Add(1)
			y := 0
			if len(c.Yields) > 0 {
				y = c.Yields[g%len(c.Yields)]
			}
			go func(y int) {
				defer wg.Done()
				ready.Add(1)
				for ready.Load() < int32(c.Goroutines) {
					runtime.Gosched()
				}
				for i := 0; i < y; i++ {
					runtime.Gosched()
				}
				ags, err := z.S.AuthorizeKeyAuthGrant("alice", verifAuthzKey(1))
				if err == nil {
					admitted.Add(1)
					grantsSeen.Add(int32(len(ags)))
				}
			}(y)
		}
		wg.Wait()
		if n := int(admitted.Load()); n > worst {
			worst = n
		}
		if admitted.Load() > 1 || int(grantsSeen.Load()) > c.Grants {
			v.Failf("C07:grant-admits-concurrent-sessions", "round %d: %d of %d concurrent connection attempts for the same (user, key) were admitted and together received %d grants although only %d were stored",
				round, admitted.Load(), c.Goroutines, grantsSeen.Load(), c.Grants)
			return
		}
		if admitted.Load() != 1 {
			v.Failf("C07:stored-grant-admits-nobody", "round %d: %d grants stored but none of %d concurrent attempts was admitted", round, c.Grants, c.Goroutines)
			return
		}
	}
	v.NonTrivial = c.Goroutines >= 2
	v.Labelf("goroutines=%d", c.Goroutines)
}

func TestVerifC07ConcurrentAdmission(t *testing.T) {
	vlib.Drive(t, vlib.Spec[c07ConcCase]{ID: c07eID(), Quick: 400, Run: c07ConcRun, Gen: func(t *rapid.T) c07ConcCase {
		return c07ConcCase{
			Goroutines: rapid.IntRange(2, 6).Draw(t, "goroutines"),
			Grants:     rapid.IntRange(1, 3).Draw(t, "grants"),
			Rounds:     rapid.SampledFrom([]int{50, 200}).Draw(t, "rounds"),
			Yields:     rapid.SliceOfN(rapid.IntRange(0, 3), 0, 6).Draw(t, "yields"),
		}
	}})
}
