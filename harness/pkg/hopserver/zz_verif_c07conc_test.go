package hopserver

// C07 (concurrent admission): a stored grant set admits at most one of several
// connection attempts racing for the same (user, key) — "each grant authorizes
// a single action ... grants disappear once consumed" must also hold when the
// admissions overlap. Real goroutines, released through a spin barrier; the
// interleaving is the Go scheduler's (plus drawn runtime.Gosched counts), so
// detection is probabilistic but a reported violation is always genuine.
//
// Mode "store" (also registered for C06: "a confirmation only if the target ... stored the
// grant"): real goroutines call AddAuthGrant at the same time for ONE (user, key) - some of
// them for another key of the same user - while others may log in as that pair; afterwards
// the server map is drained. Every grant whose AddAuthGrant returned nil (that return is
// what the target instance turns into the confirmation) must come out of the store exactly
// once: handed to one of the overlapping admissions or still there at the drain - never
// lost, never handed out twice.

import (
	"fmt"
	"runtime"
	"sync"
	"sync/atomic"
	"testing"
	"time"

	"pgregory.net/rapid"
	"verif.local/vlib"

	"hop.computer/hop/authgrants"
)

type c07ConcCase struct {
	Goroutines int   `json:"goroutines"`
	Grants     int   `json:"grants"`
	Rounds     int   `json:"rounds"`
	Yields     []int `json:"yields"` // Gosched calls per goroutine before the admission call
	// mode "store": Goroutines adders store Per grants each for (alice, K[Keys[g % len]]); Logins further goroutines
	// try to be admitted as (alice, K[Keys[0]]) Per times each while the adders run.
	Mode   string `json:"mode,omitempty"` // "" = admission race for stored grants; "store" = concurrent AddAuthGrant (+ logins), then drain
	Per    int    `json:"per,omitempty"`
	Keys   []int  `json:"keys,omitempty"`
	Logins int    `json:"logins,omitempty"`
}

// c07StoreRun: mode "store".
func c07StoreRun(c c07ConcCase, v *vlib.Verdict) {
	restore := verifAuthzInstallThunks(func() time.Time { return verifAuthzT0 })
	defer restore()
	z := verifAuthzNewServer(true)
	id := c07eID()
	keys := c.Keys
	if len(keys) == 0 {
		keys = []int{1}
	}
	per := max(c.Per, 1)
	for round := 0; round < c.Rounds; round++ {
		var ready atomic.Int32
		var wg sync.WaitGroup
		var mu sync.Mutex
		confirmed := map[string]int{} // command text (unique per call) -> key index, for every AddAuthGrant that returned nil
		received := map[string]int{}  // command text -> number of times an admission handed the grant out
		wrongKey := ""
		total := c.Goroutines + c.Logins
		collect := func(k int, ags []authgrants.Authgrant) {
			mu.Lock()
			defer mu.Unlock()
			for _, a := range ags {
				cmd := a.AssociatedData.CommandGrantData.Cmd
				received[cmd]++
				if a.DelegateCert.PublicKey != verifAuthzKey(k) {
					wrongKey = cmd
				}
			}
		}
		barrier := func(y int) {
			ready.Add(1)
			for ready.Load() < int32(total) {
				runtime.Gosched()
			}
			for i := 0; i < y; i++ {
				runtime.Gosched()
			}
		}
		yield := func(g int) int {
			if len(c.Yields) == 0 {
				return 0
			}
			return c.Yields[g%len(c.Yields)]
		}
		for g := 0; g < c.Goroutines; g++ {
			wg.Add(1)
			go func(g int) {
				defer wg.Done()
				k := keys[g%len(keys)] % verifAuthzNKeys
				// the intents are built before the barrier: only the store calls overlap
				ins := make([]*authgrants.Intent, per)
				for j := range ins {
					ins[j] = verifAuthzIntent("alice", k, authgrants.Command, fmt.Sprintf("cmd-%d-%d-%d", round, g, j), verifAuthzAt(-10), verifAuthzAt(1000))
				}
				barrier(yield(g))
				for _, in := range ins {
					if err := z.S.AddAuthGrant(in); err == nil {
						mu.Lock()
						confirmed[in.AssociatedData.CommandGrantData.Cmd] = k
						mu.Unlock()
					}
				}
			}(g)
		}
		for l := 0; l < c.Logins; l++ {
			wg.Add(1)
			go func(l int) {
				defer wg.Done()
				k := keys[0] % verifAuthzNKeys
				barrier(yield(c.Goroutines + l))
				for j := 0; j < per; j++ {
					if ags, err := z.S.AuthorizeKeyAuthGrant("alice", verifAuthzKey(k)); err == nil {
						collect(k, ags)
					}
					runtime.Gosched()
				}
			}(l)
		}
		wg.Wait()
		// drain what is still stored
		for k := 0; k < verifAuthzNKeys; k++ {
			if ags, err := z.S.AuthorizeKeyAuthGrant("alice", verifAuthzKey(k)); err == nil {
				collect(k, ags)
			}
		}
		if wrongKey != "" {
			v.Failf(id+":grant-handed-to-another-key:concurrent-store", "round %d: grant %q came out of the store under a key it does not name", round, wrongKey)
			return
		}
		for cmd := range confirmed {
			switch n := received[cmd]; {
			case n == 0:
					v.Failf(id+":grant-confirmed-but-not-stored:concurrent-store", "round %d: AddAuthGrant returned nil for grant %q (one of %d confirmed in this round by %d goroutines storing at the same time, %d concurrent logins), but neither an admission nor the final drain of the server map received it: it was never stored or was overwritten; received: %v",
					round, cmd, len(confirmed), c.Goroutines, c.Logins, received)
				return
			case n > 1:
				v.Failf(id+":grant-handed-out-twice:concurrent-store", "round %d: grant %q (stored once) was handed to %d admissions (%d goroutines storing at the same time, %d concurrent logins)", round, cmd, n, c.Goroutines, c.Logins)
				return
			}
		}
		for cmd, n := range received {
			if _, ok := confirmed[cmd]; !ok {
				v.Failf(id+":unknown-grant-in-store:concurrent-store", "round %d: the store handed out grant %q (%d times) that no successful AddAuthGrant of this round stored", round, cmd, n)
				return
			}
		}
		if len(confirmed) != c.Goroutines*per {
			v.Inconclusive = fmt.Sprintf("round %d: only %d of %d AddAuthGrant calls succeeded with authgrants enabled", round, len(confirmed), c.Goroutines*per)
			return
		}
	}
	v.NonTrivial = c.Goroutines >= 2
	v.Labelf("store:adders=%d", c.Goroutines)
	v.Labelf("store:logins=%d", min(c.Logins, 1))
	if len(keys) > 1 {
		v.Label("store:several-keys-of-one-user")
	}
}

func c07ConcRun(c c07ConcCase, v *vlib.Verdict) {
	if c.Mode == "store" {
		c07StoreRun(c, v)
		return
	}
	restore := verifAuthzInstallThunks(func() time.Time { return verifAuthzT0 })
	defer restore()
	z := verifAuthzNewServer(true)
	worst := 0
	for round := 0; round < c.Rounds; round++ {
		for g := 0; g < c.Grants; g++ {
			if err := z.S.AddAuthGrant(verifAuthzIntent("alice", 1, authgrants.Command, "ls", verifAuthzAt(-10), verifAuthzAt(1000))); err != nil {
				v.Discard = true
				return
			}
		}
		var ready, admitted, grantsSeen atomic.Int32
		var wg sync.WaitGroup
		for g := 0; g < c.Goroutines; g++ {
			wg.Add(1)
			y := 0
			if len(c.Yields) > 0 {
				y = c.Yields[g%len(c.Yields)]
			}
			go func(y int) {
				defer wg.Done()
				ready.Add(1)
				for ready.Load() < int32(c.Goroutines) {
					runtime.Gosched()
				}
				for i := 0; i < y; i++ {
					runtime.Gosched()
				}
				ags, err := z.S.AuthorizeKeyAuthGrant("alice", verifAuthzKey(1))
				if err == nil {
					admitted.Add(1)
					grantsSeen.Add(int32(len(ags)))
				}
			}(y)
		}
		wg.Wait()
		if n := int(admitted.Load()); n > worst {
			worst = n
		}
		if admitted.Load() > 1 || int(grantsSeen.Load()) > c.Grants {
			v.Failf("C07:grant-admits-concurrent-sessions", "round %d: %d of %d concurrent connection attempts for the same (user, key) were admitted and together received %d grants although only %d were stored",
				round, admitted.Load(), c.Goroutines, grantsSeen.Load(), c.Grants)
			return
		}
		if admitted.Load() != 1 {
			v.Failf("C07:stored-grant-admits-nobody", "round %d: %d grants stored but none of %d concurrent attempts was admitted", round, c.Grants, c.Goroutines)
			return
		}
	}
	v.NonTrivial = c.Goroutines >= 2
	v.Labelf("goroutines=%d", c.Goroutines)
}

func TestVerifC07ConcurrentAdmission(t *testing.T) {
	quick := 800
	if verifRace {
		quick = 400
	}
	vlib.Drive(t, vlib.Spec[c07ConcCase]{ID: c07eID(), Quick: quick, Run: c07ConcRun, Gen: func(t *rapid.T) c07ConcCase {
		// C06 is only concerned with "confirmed => stored"; for C05 / C07 half of the cases are store races
		if c07eID() == "C06" || rapid.IntRange(0, 1).Draw(t, "store") == 1 {
			c := c07ConcCase{
				Mode:       "store",
				Goroutines: rapid.IntRange(2, 6).Draw(t, "adders"),
				Per:        rapid.IntRange(1, 3).Draw(t, "per"),
				Rounds:     rapid.SampledFrom([]int{50, 200}).Draw(t, "rounds"),
				Yields:     rapid.SliceOfN(rapid.IntRange(0, 3), 0, 6).Draw(t, "yields"),
				Keys:       []int{1},
			}
			if rapid.IntRange(0, 2).Draw(t, "several-keys") == 0 {
				c.Keys = rapid.SliceOfN(rapid.IntRange(0, verifAuthzNKeys-1), 2, 4).Draw(t, "keys")
			}
			if rapid.IntRange(0, 2).Draw(t, "with-logins") == 0 {
				c.Logins = rapid.IntRange(1, 3).Draw(t, "logins")
			}
			return c
		}
		return c07ConcCase{
			Goroutines: rapid.IntRange(2, 6).Draw(t, "goroutines"),
			Grants:     rapid.IntRange(1, 3).Draw(t, "grants"),
			Rounds:     rapid.SampledFrom([]int{50, 200}).Draw(t, "rounds"),
			Yields:     rapid.SliceOfN(rapid.IntRange(0, 3), 0, 6).Draw(t, "yields"),
		}
	}})
}
