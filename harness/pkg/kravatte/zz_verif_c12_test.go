package kravatte

// C12 — Kravatte-SANSE: correct, tamper-evident, sensitive to the whole key,
// equal to an independent reference anchored to the published XKCP vectors,
// and safe for overlapping caller buffers.

import (
	"bytes"
	"fmt"
	"testing"

	"pgregory.net/rapid"
	"verif.local/vlib"
	"verif.local/vlib/ref"
)

type c12Msg struct {
	PLen  int    `json:"p"`
	ALen  int    `json:"a"`
	Seed  uint64 `json:"s"`
	Alias int    `json:"alias"` // seal: 0 nil dst, 1 in place, 2 append into live buffer, 3 ad and pt share a backing array, 4 in place behind a live prefix, 5 same and the prefix is the associated data
	OAlias int   `json:"oalias"` // open: 0 nil dst, 1 in place, 2 append into live buffer, 3 in place behind a live prefix, 4 same and the prefix is the associated data
}

type c12Tamper struct {
	Msg    int `json:"m"`
	Region int `json:"r"` // 0 ciphertext body, 1 tag, 2 associated data
	Bit    int `json:"b"` // bit index modulo the region size
	Kind   int `json:"k"` // 0 flip one bit, 1 truncate by 1..3 bytes, 2 extend by one byte
	// Layout is the buffer layout in which the forged message is presented to Open: 0 nil dst, 1 appended behind a
	// live prefix into spare capacity, 2 in place behind a live prefix (dst = pkt[:hdr], ciphertext = pkt[hdr:]),
	// 3 same and the prefix is the associated data (the packet header)
	Layout int `json:"l,omitempty"`
	Live   bool `json:"live,omitempty"` // kind 0 only: presented to the session's OWN opener (not to a clone): the session goes on after a rejected message, as the specification's instance does
}

type c12Case struct {
	KeyLen  int         `json:"keylen"`
	KeySeed uint64      `json:"keyseed"`
	Msgs    []c12Msg    `json:"msgs"`
	Tampers []c12Tamper `json:"tampers"`
}

func c12Clone(a interface{ Overhead() int }) *sanse {
	cp := *(a.(*sanse))
	return &cp
}

func c12Dup(b []byte) []byte { return append([]byte(nil), b...) }

// c12OpenForged presents a message that must be rejected to Open in the given
// buffer layout. It reports whether Open accepted it and, if it did not, which
// caller-owned bytes outside the area Open may write were modified ("" = none).
//
// Grounding: cipher.AEAD.Open *appends* to dst and "even if the function fails,
// the contents of dst, up to its capacity, may be overwritten" - that is the
// spare capacity dst[len(dst):cap(dst)], which is therefore never inspected
// here. Everything else belongs to the caller (C12: "never corrupts caller
// buffers that overlap its arguments"): the live bytes dst[:len(dst)], the
// associated data, a ciphertext that does not share the spare capacity, and
// whatever follows the capacity in the same array. Layout 3 is the record
// idiom of crypto/tls (the header is the live prefix of dst and the
// associated data; it never overlaps the area written).
func c12OpenForged(o *sanse, layout int, ct, ad []byte) (accepted bool, n int, damaged string) {
	const pat, guard = 0xE0, 0x3C
	var p []byte
	var err error
	switch layout {
	case 1:
		pre, room := 11, len(ct)
		buf := make([]byte, pre+room+8)
		for j := range buf {
			buf[j] = guard
		}
		for j := 0; j < pre; j++ {
			buf[j] = byte(pat + j)
		}
		ctc, adc := c12Dup(ct), c12Dup(ad)
		p, err = o.Open(buf[:pre:pre+room], nil, ctc, adc)
		for j := 0; j < pre; j++ {
			if buf[j] != byte(pat+j) {
				damaged = "dst-prefix"
			}
		}
		for _, x := range buf[pre+room:] {
			if x != guard && damaged == "" {
				damaged = "beyond-dst-capacity"
			}
		}
		if damaged == "" && !bytes.Equal(adc, ad) {
			damaged = "associated-data"
		}
		if damaged == "" && !bytes.Equal(ctc, ct) {
			damaged = "ciphertext"
		}
	case 2, 3:
		hdr := make([]byte, 9)
		for j := range hdr {
			hdr[j] = byte(pat + j)
		}
		adc := c12Dup(ad)
		if layout == 3 {
			hdr = c12Dup(ad)
		}
		pre := len(hdr)
		buf := make([]byte, pre+len(ct)+8)
		copy(buf, hdr)
		copy(buf[pre:], ct)
		for j := pre + len(ct); j < len(buf); j++ {
			buf[j] = guard
		}
		if layout == 3 {
			adc = buf[:pre]
		}
		p, err = o.Open(buf[:pre:pre+len(ct)], nil, buf[pre:pre+len(ct)], adc)
		if !bytes.Equal(buf[:pre], hdr) {
			damaged = "dst-prefix"
		}
		for _, x := range buf[pre+len(ct):] {
			if x != guard && damaged == "" {
				damaged = "beyond-dst-capacity"
			}
		}
		if damaged == "" && !bytes.Equal(adc, ad) {
			damaged = "associated-data"
		}
	default:
		ctc, adc := c12Dup(ct), c12Dup(ad)
		p, err = o.Open(nil, nil, ctc, adc)
		if !bytes.Equal(adc, ad) {
			damaged = "associated-data"
		} else if !bytes.Equal(ctc, ct) {
			damaged = "ciphertext"
		}
	}
	return err == nil, len(p), damaged
}

func c12Run(c c12Case, v *vlib.Verdict) {
	key := vlib.Fill(c.KeySeed, c.KeyLen)
	sealerI, err := NewSANSE(key)
	if err != nil {
		v.Failf("C12:newsanse-rejects-key", "NewSANSE rejects a %d-byte key: %v", c.KeyLen, err)
		return
	}
	openerI, _ := NewSANSE(key)
	sealer, opener := sealerI.(*sanse), openerI.(*sanse)
	rs := &ref.Sanse{Key: key}
	ro := &ref.Sanse{Key: key} // reference instance that sees exactly what the real opener sees, rejected messages included
	liveRejects := 0
	crossesBlock := false
	aliased := false
	rejectedInLayout := false
	for i, m := range c.Msgs {
		pt := vlib.Fill(m.Seed, m.PLen)
		ad := vlib.Fill(m.Seed+1, m.ALen)
		if m.PLen >= 200 || m.ALen >= 200 {
			crossesBlock = true
		}
		wantC, wantT := rs.Wrap(ad, pt)
		want := append(append([]byte(nil), wantC...), wantT...)
		// ---- seal, in the requested buffer layout
		var got []byte
		switch m.Alias {
		case 1: // dst = plaintext[:0], capacity for the tag
			aliased = true
			buf := make([]byte, m.PLen, m.PLen+TagSize+8)
			copy(buf, pt)
			guard := buf[:cap(buf)][m.PLen+TagSize:]
			for j := range guard {
				guard[j] = 0xA5
			}
			adc := c12Dup(ad)
			got = sealer.Seal(buf[:0], nil, buf, adc)
			if !bytes.Equal(adc, ad) {
				v.Failf("C12:seal-modified-input", "msg %d: in-place Seal modified its associated-data argument", i)
				return
			}
			for j := range guard {
				if guard[j] != 0xA5 {
					v.Failf("C12:seal-wrote-outside-result", "msg %d: in-place Seal modified byte %d past the returned slice", i, j)
					return
				}
			}
		case 2: // append into a buffer that has live bytes before and after
			aliased = true
			pre := 7
			buf := make([]byte, pre+m.PLen+TagSize+9)
			for j := range buf {
				buf[j] = 0x5A
			}
			ptc, adc := c12Dup(pt), c12Dup(ad)
			out := sealer.Seal(buf[:pre], nil, ptc, adc)
			if !bytes.Equal(ptc, pt) || !bytes.Equal(adc, ad) {
				v.Failf("C12:seal-modified-input", "msg %d: Seal (appending into a live buffer) modified its plaintext/associated-data arguments", i)
				return
			}
			if len(out) != pre+m.PLen+TagSize {
				v.Failf("C12:seal-length", "msg %d: Seal returned %d bytes, want %d", i, len(out), pre+m.PLen+TagSize)
				return
			}
			for j := 0; j < pre; j++ {
				if out[j] != 0x5A {
					v.Failf("C12:seal-clobbered-prefix", "msg %d: Seal modified dst prefix byte %d", i, j)
					return
				}
			}
			if &out[0] == &buf[0] {
				for j := pre + m.PLen + TagSize; j < len(buf); j++ {
					if buf[j] != 0x5A {
						v.Failf("C12:seal-wrote-outside-result", "msg %d: Seal modified byte %d past the returned slice", i, j)
						return
					}
				}
			}
			got = out[pre:]
		case 4, 5: // in place behind a live prefix: dst = pkt[:hdr], plaintext = pkt[hdr:hdr+n] (the overlap cipher.AEAD permits)
			// 5: the prefix is the associated data as well (record idiom of crypto/tls:
			// Seal(rec[:hdr], nonce, rec[hdr:], rec[:hdr]); the header is never in the area written)
			aliased = true
			hdr := make([]byte, 12)
			for j := range hdr {
				hdr[j] = byte(0xC0 + j)
			}
			if m.Alias == 5 {
				hdr = c12Dup(ad)
			}
			pre := len(hdr)
			buf := make([]byte, pre+m.PLen, pre+m.PLen+TagSize+6)
			copy(buf, hdr)
			copy(buf[pre:], pt)
			guard := buf[:cap(buf)][pre+m.PLen+TagSize:]
			for j := range guard {
				guard[j] = 0xA5
			}
			adc := c12Dup(ad)
			if m.Alias == 5 {
				adc = buf[:pre]
			}
			out := sealer.Seal(buf[:pre], nil, buf[pre:pre+m.PLen], adc)
			if len(out) != pre+m.PLen+TagSize {
				v.Failf("C12:seal-length", "msg %d: Seal returned %d bytes, want %d", i, len(out), pre+m.PLen+TagSize)
				return
			}
			if !bytes.Equal(out[:pre], hdr) || !bytes.Equal(buf[:pre], hdr) {
				v.Failf("C12:seal-clobbered-prefix", "msg %d: in-place Seal behind a prefix modified the prefix (alias %d)", i, m.Alias)
				return
			}
			if !bytes.Equal(adc, ad) {
				v.Failf("C12:seal-modified-input", "msg %d: in-place Seal behind a prefix modified its associated-data argument", i)
				return
			}
			for j := range guard {
				if guard[j] != 0xA5 {
					v.Failf("C12:seal-wrote-outside-result", "msg %d: Seal modified byte %d past the returned slice", i, j)
					return
				}
			}
			got = out[pre:]
		case 3: // ad and plaintext share one backing array
			aliased = true
			buf := make([]byte, m.ALen+m.PLen)
			copy(buf, ad)
			copy(buf[m.ALen:], pt)
			got = sealer.Seal(nil, nil, buf[m.ALen:], buf[:m.ALen])
			if !bytes.Equal(buf[:m.ALen], ad) || !bytes.Equal(buf[m.ALen:], pt) {
				v.Failf("C12:seal-modified-input", "msg %d: Seal modified its plaintext/associated-data arguments", i)
				return
			}
		default:
			ptc := append([]byte(nil), pt...)
			adc := append([]byte(nil), ad...)
			got = sealer.Seal(nil, nil, ptc, adc)
			if !bytes.Equal(ptc, pt) || !bytes.Equal(adc, ad) {
				v.Failf("C12:seal-modified-input", "msg %d: Seal modified its plaintext/associated-data arguments", i)
				return
			}
		}
		if !bytes.Equal(got, want) {
			where := "tag"
			if len(got) == len(want) && !bytes.Equal(got[:m.PLen], want[:m.PLen]) {
				where = "ciphertext"
			}
			v.Failf(fmt.Sprintf("C12:seal-differs-from-spec:%s", c12KeyClass(c.KeyLen)), "msg %d in %s (keylen %d, p %d, a %d, alias %d): got %x.. want %x..", i, where, c.KeyLen, m.PLen, m.ALen, m.Alias, c12Trunc(got), c12Trunc(want))
			return
		}
		// ---- tampered copies must be rejected (each on a clone of the opener's state)
		replaced := false // a forged copy was presented to the session's own opener IN PLACE of this message
		for _, tm := range c.Tampers {
			if replaced {
				break
			}
			if tm.Msg != i {
				continue
			}
			ct := append([]byte(nil), got...)
			tad := append([]byte(nil), ad...)
			region := "ciphertext"
			switch tm.Kind {
			case 1:
				n := 1 + tm.Bit%3
				if n > len(ct) {
					n = len(ct)
				}
				ct = ct[:len(ct)-n]
				region = "truncated"
			case 2:
				ct = append(ct, byte(tm.Bit))
				region = "extended"
			default:
				switch tm.Region {
				case 0:
					if m.PLen == 0 {
						continue
					}
					b := tm.Bit % (8 * m.PLen)
					ct[b/8] ^= 1 << (b % 8)
				case 1:
					b := tm.Bit % (8 * TagSize)
					ct[m.PLen+b/8] ^= 1 << (b % 8)
					region = "tag"
				default:
					if m.ALen == 0 {
						tad = []byte{byte(1 + tm.Bit%255)}
						region = "ad-added"
					} else {
						b := tm.Bit % (8 * m.ALen)
						tad[b/8] ^= 1 << (b % 8)
						region = "ad"
					}
				}
			}
			cl := c12Clone(opener)
			if tm.Live && tm.Kind == 0 && len(ct) >= TagSize {
				// the session's own opener processes the forged message; so does the reference instance
				cl = opener
				if _, ok := ro.Unwrap(tad, ct[:len(ct)-TagSize], ct[len(ct)-TagSize:]); ok {
					v.Inconclusive = "the reference accepts a forged message (2^-256 event or a reference defect)"
					return
				}
				liveRejects++
				replaced = true
			}
			accepted, n, damaged := c12OpenForged(cl, tm.Layout, ct, tad)
			if accepted {
				v.Failf("C12:tamper-accepted:"+region, "msg %d (p %d, a %d): Open accepted a message with altered %s (bit %d, layout %d), returned %d bytes", i, m.PLen, m.ALen, region, tm.Bit, tm.Layout, n)
				return
			}
			if damaged != "" {
				v.Failf("C12:failed-open-modified-caller-bytes:"+damaged, "msg %d (p %d, a %d): Open rejected a message with altered %s but modified the caller's %s (layout %d); only the spare capacity of dst may be written", i, m.PLen, m.ALen, region, damaged, tm.Layout)
				return
			}
			if tm.Layout != 0 {
				rejectedInLayout = true
			}
		}
		if replaced {
			continue // the genuine message never reaches this opener
		}
		// ---- genuine open in the requested layout (the associated data is handed over as a copy and compared afterwards)
		var opened []byte
		var oerr error
		adc := c12Dup(ad)
		switch m.OAlias {
		case 1:
			aliased = true
			buf := append([]byte(nil), got...)
			opened, oerr = opener.Open(buf[:0], nil, buf, adc)
		case 3, 4: // in place behind a live prefix: dst = pkt[:hdr], ciphertext = pkt[hdr:]; 4: the prefix is the associated data
			aliased = true
			hdr := make([]byte, 9)
			for j := range hdr {
				hdr[j] = byte(0xD0 + j)
			}
			if m.OAlias == 4 {
				hdr = c12Dup(ad)
			}
			pre := len(hdr)
			buf := make([]byte, pre+len(got))
			copy(buf, hdr)
			copy(buf[pre:], got)
			if m.OAlias == 4 {
				adc = buf[:pre]
			}
			var out []byte
			out, oerr = opener.Open(buf[:pre], nil, buf[pre:], adc)
			if oerr == nil {
				if len(out) != pre+m.PLen {
					v.Failf("C12:open-length", "msg %d: Open returned %d bytes, want %d", i, len(out), pre+m.PLen)
					return
				}
				if !bytes.Equal(out[:pre], hdr) || !bytes.Equal(buf[:pre], hdr) {
					v.Failf("C12:open-clobbered-prefix", "msg %d: in-place Open behind a prefix modified the prefix (oalias %d)", i, m.OAlias)
					return
				}
				opened = out[pre:]
			}
		case 2:
			aliased = true
			pre := 5
			buf := make([]byte, pre+m.PLen+11)
			for j := range buf {
				buf[j] = 0x3C
			}
			ctc := append([]byte(nil), got...)
			var out []byte
			out, oerr = opener.Open(buf[:pre], nil, ctc, adc)
			if oerr == nil {
				if len(out) != pre+m.PLen || !bytes.Equal(out[:pre], buf[:pre]) || !bytes.Equal(buf[:pre], []byte{0x3C, 0x3C, 0x3C, 0x3C, 0x3C}) {
					v.Failf("C12:open-clobbered-prefix", "msg %d: Open damaged the dst prefix", i)
					return
				}
				for j := pre + m.PLen; j < len(buf); j++ {
					if buf[j] != 0x3C {
						v.Failf("C12:open-wrote-outside-result", "msg %d: Open modified byte %d past the returned slice", i, j)
						return
					}
				}
				if !bytes.Equal(ctc, got) {
					v.Failf("C12:open-modified-input", "msg %d: Open modified its ciphertext argument", i)
					return
				}
				opened = out[pre:]
			}
		default:
			ctc := append([]byte(nil), got...)
			opened, oerr = opener.Open(nil, nil, ctc, adc)
			if !bytes.Equal(ctc, got) {
				v.Failf("C12:open-modified-input", "msg %d: Open modified its ciphertext argument", i)
				return
			}
		}
		if !bytes.Equal(adc, ad) {
			v.Failf("C12:open-modified-input", "msg %d: Open modified its associated-data argument (oalias %d)", i, m.OAlias)
			return
		}
		wantP, wantOK := ro.Unwrap(ad, want[:m.PLen], want[m.PLen:])
		if !wantOK {
			// only possible after the opener processed a forged message: by the specification the two instances are
			// out of step from then on (except when nothing of the forged message entered the history)
			if liveRejects == 0 {
				v.Inconclusive = "the reference rejects a genuine message of an undisturbed session (reference defect)"
				return
			}
			if oerr == nil {
				v.Failf("C12:session-after-rejection-differs-from-spec:accepts", "msg %d: after %d rejected message(s) on this instance the specification's instance rejects this message, Open accepts it", i, liveRejects)
				return
			}
			v.Label("out-of-step-after-rejection(as-specified)")
			continue
		}
		if oerr != nil && liveRejects > 0 {
			v.Failf("C12:session-after-rejection-differs-from-spec:rejects", "msg %d (p %d, a %d): after %d rejected message(s) on this instance the specification's instance still accepts this genuine message, Open rejects it: %v", i, m.PLen, m.ALen, liveRejects, oerr)
			return
		}
		_ = wantP
		if oerr != nil {
			v.Failf("C12:open-rejects-genuine", "msg %d (keylen %d, p %d, a %d): Open failed on an unmodified message: %v", i, c.KeyLen, m.PLen, m.ALen, oerr)
			return
		}
		if !bytes.Equal(opened, pt) {
			v.Failf("C12:open-wrong-plaintext", "msg %d (p %d, a %d, oalias %d): opened plaintext differs", i, m.PLen, m.ALen, m.OAlias)
			return
		}
	}
	v.NonTrivial = crossesBlock || c.KeyLen != 16 || len(c.Msgs) > 1 || aliased
	if crossesBlock {
		v.Label("crosses-200-byte-block")
	}
	if len(c.Msgs) > 1 {
		v.Label("multi-message-session")
	}
	if aliased {
		v.Label("aliased-buffers")
	}
	if len(c.Tampers) > 0 {
		v.Label("with-tampering")
	}
	if rejectedInLayout {
		v.Label("rejected-open-into-live-buffer")
	}
	if liveRejects > 0 {
		v.Label("session-continues-after-rejected-message")
	}
	v.Label("keylen:" + c12KeyClass(c.KeyLen))
}

func c12KeyClass(n int) string {
	if n%8 == 0 {
		return "multiple-of-8"
	}
	return "not-multiple-of-8"
}

func c12Trunc(b []byte) []byte {
	if len(b) > 16 {
		return b[:16]
	}
	return b
}

var c12Lens = []int{0, 1, 7, 8, 31, 32, 33, 199, 200, 201, 399, 400, 401, 599, 600, 601, 799, 800, 801, 1000, 1599, 1600, 1601}

func c12KeyLenGen(rec *vlib.Recorder) *rapid.Generator[int] {
	return rapid.Custom(func(t *rapid.T) int {
		n := rapid.OneOf(rapid.IntRange(1, 199), rapid.SampledFrom([]int{1, 7, 8, 9, 15, 16, 17, 24, 31, 32, 33, 64, 192, 198, 199})).Draw(t, "keylen")
		if n%8 != 0 && vlib.KnownOpen("C12:seal-differs-from-spec:not-multiple-of-8") {
			// does not kill the process; keep generating it (counted as known hit)
		}
		return n
	})
}

func c12Gen(rec *vlib.Recorder) func(t *rapid.T) c12Case {
	return func(t *rapid.T) c12Case {
		var c c12Case
		c.KeyLen = c12KeyLenGen(rec).Draw(t, "keylen")
		c.KeySeed = rapid.Uint64().Draw(t, "keyseed")
		big := rapid.IntRange(0, 19).Draw(t, "big") == 0
		lenGen := rapid.OneOf(rapid.SampledFrom(c12Lens), rapid.IntRange(0, 700))
		if big {
			lenGen = rapid.OneOf(rapid.SampledFrom([]int{8000, 16383, 16384, 64503, 64535, 65535}), rapid.IntRange(0, 66000))
		}
		maxMsgs := 6
		if big {
			maxMsgs = 2
		}
		c.Msgs = rapid.SliceOfN(rapid.Custom(func(t *rapid.T) c12Msg {
			return c12Msg{
				PLen:   lenGen.Draw(t, "plen"),
				ALen:   rapid.OneOf(rapid.SampledFrom(c12Lens), rapid.IntRange(0, 300)).Draw(t, "alen"),
				Seed:   rapid.Uint64().Draw(t, "seed"),
				Alias:  rapid.IntRange(0, 5).Draw(t, "alias"),
				OAlias: rapid.IntRange(0, 4).Draw(t, "oalias"),
			}
		}), 1, maxMsgs).Draw(t, "msgs")
		c.Tampers = rapid.SliceOfN(rapid.Custom(func(t *rapid.T) c12Tamper {
			return c12Tamper{
				Msg:    rapid.IntRange(0, len(c.Msgs)-1).Draw(t, "tm"),
				Region: rapid.IntRange(0, 2).Draw(t, "region"),
				Bit:    rapid.OneOf(rapid.IntRange(0, 1<<20), rapid.SampledFrom([]int{0, 7, 8, 127, 128, 255, 1599, 1600})).Draw(t, "bit"),
				Kind:   rapid.SampledFrom([]int{0, 0, 0, 0, 1, 2}).Draw(t, "kind"),
				Layout: rapid.IntRange(0, 3).Draw(t, "layout"),
				Live:   rapid.IntRange(0, 5).Draw(t, "live") == 0,
			}
		}), 0, 8).Draw(t, "tampers")
		return c
	}
}

func c12SelfTest(t *testing.T) {
	if err := ref.SelfTestKravatte(vlib.GetEnv().Repo); err != nil {
		t.Fatalf("VERIF-MACHINERY reference self-test failed: %v", err)
	}
}

func c12Guarded(c c12Case, v *vlib.Verdict) { vlib.Guard(v, func() { c12Run(c, v) }) }

func TestVerifC12Sessions(t *testing.T) {
	c12SelfTest(t)
	vlib.Drive(t, vlib.Spec[c12Case]{ID: "C12", Quick: 30000, Gen: c12Gen(nil), Run: c12Guarded})
}

// TestVerifC12TamperSweep: every single-bit flip of the tag, of the body and of
// the associated data for short messages at block-boundary lengths.
func TestVerifC12TamperSweep(t *testing.T) {
	c12SelfTest(t)
	if vlib.ReplayEnumerated(t, "C12", c12Guarded) {
		return
	}
	rec := vlib.Open(t, "C12")
	idx := 0
	shapes := [][2]int{{0, 0}, {0, 5}, {1, 0}, {33, 9}, {199, 1}, {200, 200}, {201, 199}, {401, 0}}
	for _, kl := range []int{16, 32} {
		for _, sh := range shapes {
			idx++
			if !rec.Mine(idx) {
				continue
			}
			c := c12Case{KeyLen: kl, KeySeed: uint64(idx), Msgs: []c12Msg{{PLen: sh[0], ALen: sh[1], Seed: uint64(idx) * 31}}}
			for b := 0; b < 8*TagSize; b++ {
				c.Tampers = append(c.Tampers, c12Tamper{Region: 1, Bit: b, Layout: b % 4})
			}
			for b := 0; b < 8*sh[0]; b++ {
				c.Tampers = append(c.Tampers, c12Tamper{Region: 0, Bit: b, Layout: (b + 1) % 4})
			}
			for b := 0; b < 8*sh[1]; b++ {
				c.Tampers = append(c.Tampers, c12Tamper{Region: 2, Bit: b, Layout: (b + 2) % 4})
			}
			for k := 0; k < 3; k++ {
				c.Tampers = append(c.Tampers, c12Tamper{Kind: 1, Bit: k, Layout: k + 1}, c12Tamper{Kind: 2, Bit: k, Layout: k + 1})
			}
			var v vlib.Verdict
			c12Guarded(c, &v)
			v.NonTrivial = true
			v.Key = fmt.Sprintf("sweep-%d-%d-%d", kl, sh[0], sh[1])
			v.Labels = []string{"bit-flip-sweep"}
			rec.AddExtra("tampered_variants", len(c.Tampers))
			small := c
			small.Tampers = small.Tampers[:2]
			if bad := rec.Observe(small, nil, &v); bad != nil {
				t.Errorf("VERIF-VIOLATION sig=%s detail=%s", bad.Sig, bad.Detail)
				return
			}
		}
	}
	rec.SetExhaustive(true)
}

type c12KeyCase struct {
	KeyLen int `json:"keylen"`
	Index  int `json:"index"`
}

func c12KeyRun(c c12KeyCase, v *vlib.Verdict) {
	vlib.Guard(v, func() {
		key := vlib.Fill(uint64(c.KeyLen)*977, c.KeyLen)
		pt := []byte("key sensitivity probe")
		ad := []byte{1, 2, 3}
		a, err := NewSANSE(key)
		if err != nil {
			v.Failf("C12:newsanse-rejects-key", "NewSANSE rejects a %d-byte key", c.KeyLen)
			return
		}
		k2 := append([]byte(nil), key...)
		k2[c.Index] ^= 0x80
		b, _ := NewSANSE(k2)
		o1 := a.Seal(nil, nil, pt, ad)
		o2 := b.Seal(nil, nil, pt, ad)
		v.NonTrivial = true
		v.Label("keylen:" + c12KeyClass(c.KeyLen))
		if bytes.Equal(o1, o2) {
			v.Failf("C12:key-byte-ignored:"+c12KeyClass(c.KeyLen), "key length %d: changing key byte %d does not change ciphertext or tag", c.KeyLen, c.Index)
			return
		}
		// the same change made IN PLACE in the caller's key buffer (a caller that keeps its key in one array and
		// re-keys it, as the transport's session state does): the new instance must be the changed key's
		key[c.Index] ^= 0x80
		b2, _ := NewSANSE(key)
		if o3 := b2.Seal(nil, nil, pt, ad); !bytes.Equal(o3, o2) {
			v.Failf("C12:key-buffer-reuse:"+c12KeyClass(c.KeyLen), "key length %d: after key byte %d was changed in place in the caller's buffer, a new instance does not seal like an instance made from a fresh copy of the changed key", c.KeyLen, c.Index)
			return
		}
		// ... and the earlier instance must not follow the caller's buffer
		a2, _ := NewSANSE(append([]byte(nil), k2...))
		_ = a2
		if o4 := a.Seal(nil, nil, pt, ad); bytes.Equal(o4[:len(pt)], o2[:len(pt)]) && len(pt) > 0 {
			// (second message of session a: not comparable with o1; it must at least not be the changed key's first message)
			v.Failf("C12:key-buffer-reuse:"+c12KeyClass(c.KeyLen), "key length %d: an instance made before the caller changed its key buffer in place now seals under the changed key", c.KeyLen)
			return
		}
		key[c.Index] ^= 0x80
		// and the opener under the other key must reject
		o, _ := NewSANSE(k2)
		if _, err := o.Open(nil, nil, o1, ad); err == nil {
			v.Failf("C12:key-byte-ignored:"+c12KeyClass(c.KeyLen), "key length %d: message sealed under key K opens under K with byte %d changed", c.KeyLen, c.Index)
		}
	})
}

// TestVerifC12KeySweep: for every key length 1..199 and every key byte index
// (19 900 pairs, exhaustive), changing that byte must change the output.
func TestVerifC12KeySweep(t *testing.T) {
	if vlib.ReplayEnumerated(t, "C12", c12KeyRun) {
		return
	}
	rec := vlib.Open(t, "C12")
	idx := 0
	sigs := map[string]bool{}
	for kl := 1; kl <= 199; kl++ {
		for i := 0; i < kl; i++ {
			idx++
			if !rec.Mine(idx) {
				continue
			}
			c := c12KeyCase{KeyLen: kl, Index: i}
			var v vlib.Verdict
			c12KeyRun(c, &v)
			if bad := rec.Observe(c, nil, &v); bad != nil {
				if !sigs[bad.Sig] {
					t.Errorf("VERIF-VIOLATION sig=%s detail=%s", bad.Sig, bad.Detail)
				}
				sigs[bad.Sig] = true
				if len(sigs) >= 3 {
					return
				}
			}
		}
	}
	rec.SetExhaustive(len(sigs) == 0)
}

// Raw deck function: chunking invariance and agreement with the reference.
type c12DeckCase struct {
	KeyLen int    `json:"keylen"`
	Seed   uint64 `json:"seed"`
	Strs   []int  `json:"strs"`   // lengths of the input strings
	Chunks []int  `json:"chunks"` // chunk sizes used to feed each string (cycled)
	OutLen int    `json:"outlen"`
	OutChunks []int `json:"outchunks"`
}

func c12DeckRun(c c12DeckCase, v *vlib.Verdict) {
	vlib.Guard(v, func() {
		key := vlib.Fill(c.Seed, c.KeyLen)
		var kv Kravatte
		if kv.RefMaskInitialize(key) != 0 {
			v.Failf("C12:newsanse-rejects-key", "RefMaskInitialize rejects %d-byte key", c.KeyLen)
			return
		}
		var seq []ref.BitString
		ci := 0
		for si, n := range c.Strs {
			data := vlib.Fill(c.Seed+uint64(si)+1, n)
			seq = append(seq, ref.Bytes(data))
			off := 0
			for {
				ch := n - off
				if len(c.Chunks) > 0 {
					k := c.Chunks[ci%len(c.Chunks)]
					ci++
					if k < ch {
						ch = k
					}
				}
				last := off+ch == n
				fl := FlagNone
				if last {
					fl = FlagLastPart
				}
				if kv.Kra(data[off:off+ch], 8*ch, fl) != 0 {
					v.Failf("C12:kra-error", "Kra returned an error for a %d-byte chunk", ch)
					return
				}
				off += ch
				if last {
					break
				}
			}
		}
		want := ref.Farfalle(key, seq, c.OutLen)
		got := make([]byte, c.OutLen)
		off := 0
		oi := 0
		for {
			ch := c.OutLen - off
			if len(c.OutChunks) > 0 {
				k := c.OutChunks[oi%len(c.OutChunks)]
				oi++
				if k < ch {
					ch = k
				}
			}
			last := off+ch == c.OutLen
			fl := FlagNone
			if last {
				fl = FlagLastPart
			}
			if kv.Vatte(got[off:off+ch], 8*ch, fl) != 0 {
				v.Failf("C12:vatte-error", "Vatte returned an error for a %d-byte chunk", ch)
				return
			}
			off += ch
			if last {
				break
			}
		}
		v.NonTrivial = len(c.Strs) > 1 || len(c.Chunks) > 0 || c.OutLen > 200
		v.Label("deck")
		v.Label("keylen:" + c12KeyClass(c.KeyLen))
		if !bytes.Equal(got, want) {
			v.Failf("C12:deck-differs-from-spec:"+c12KeyClass(c.KeyLen), "Kravatte output differs from reference (keylen %d, strings %v, chunks %v, out %d/%v)", c.KeyLen, c.Strs, c.Chunks, c.OutLen, c.OutChunks)
		}
	})
}

func TestVerifC12Deck(t *testing.T) {
	c12SelfTest(t)
	vlib.Drive(t, vlib.Spec[c12DeckCase]{ID: "C12", Quick: 10000, Run: c12DeckRun, Gen: func(t *rapid.T) c12DeckCase {
		lens := rapid.OneOf(rapid.SampledFrom(c12Lens), rapid.IntRange(0, 900))
		chunk := rapid.OneOf(rapid.SampledFrom([]int{1, 8, 199, 200, 201, 400}), rapid.IntRange(1, 500))
		return c12DeckCase{
			KeyLen:    c12KeyLenGen(nil).Draw(t, "keylen"),
			Seed:      rapid.Uint64().Draw(t, "seed"),
			Strs:      rapid.SliceOfN(lens, 1, 4).Draw(t, "strs"),
			Chunks:    rapid.SliceOfN(chunk, 0, 4).Draw(t, "chunks"),
			OutLen:    rapid.OneOf(rapid.SampledFrom([]int{1, 32, 199, 200, 201, 400, 401}), rapid.IntRange(1, 900)).Draw(t, "outlen"),
			OutChunks: rapid.SliceOfN(chunk, 0, 3).Draw(t, "outchunks"),
		}
	}})
}
