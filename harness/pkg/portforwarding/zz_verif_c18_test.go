package portforwarding

// C18 — port-forward requests (toBytes / readPacket) round-trip; an address
// that does not fit the two-byte length is rejected instead of mis-framed.
// Every decode is repeated with the same bytes delivered in pieces
// (wire.Delivery: short reads, (0, nil) results, end-of-stream reported with the
// last bytes) and must give the same result.

import (
	"bytes"
	"fmt"
	"io"
	"net"
	"os"
	"testing"

	"github.com/sirupsen/logrus"
	"pgregory.net/rapid"
	"verif.local/vlib"
	"verif.local/vlib/wire"
)

func init() { logrus.SetOutput(io.Discard) }

type c18PF struct {
	Net  int    `json:"net"`  // 1 tcp, 2 udp, 3 unix
	Fwd  int    `json:"fwd"`  // forward type byte 0..255 (4 local, 5 remote)
	IP   string `json:"ip"`   // textual IP handed to net.ParseIP ("" = nil IP, as ParseForward yields for a host name)
	Port int    `json:"port"` // any int: ParseForward takes strconv.Atoi of the argument
	Len  int    `json:"len"`  // unix socket path length
	Seed uint64 `json:"seed"`
	// how the bytes are handed to readPacket the second time (zero value: in one piece only)
	Dlv wire.Delivery `json:"dlv"`
}

// c18PFRedeliver: readPacket on the same bytes under the delivery pattern d.
func c18PFRedeliver(v *vlib.Verdict, in []byte, sentinel bool, d wire.Delivery, accepted bool, consumed int, addr net.Addr, fwd byte) {
	wire.Redeliver(v, "C18", "portforwarding.readPacket", in, sentinel, d, accepted, consumed, func(st *wire.Stream) (string, string, error) {
		a, f, err := readPacket(st)
		switch {
		case err != nil:
			return "", "", err
		case !accepted:
			return "", "", nil
		case !c18AddrEq(addr, a):
			return "addr", fmt.Sprintf("%s instead of %s", c18AddrStr(a), c18AddrStr(addr)), nil
		case f != fwd:
			return "fwdType", fmt.Sprintf("%d instead of %d", f, fwd), nil
		}
		return "", "", nil
	})
}

func (c c18PF) addr() net.Addr {
	switch c.Net {
	case 1:
		return &net.TCPAddr{IP: net.ParseIP(c.IP), Port: c.Port}
	case 2:
		return &net.UDPAddr{IP: net.ParseIP(c.IP), Port: c.Port}
	}
	p := []byte(wire.Text(c.Seed, c.Len))
	if len(p) > 0 {
		p[0] = '/'
	}
	return &net.UnixAddr{Name: string(p), Net: "unix"}
}

// c18AddrEq compares the fields that are on the wire.
func c18AddrEq(a, b net.Addr) bool {
	switch x := a.(type) {
	case *net.TCPAddr:
		y, ok := b.(*net.TCPAddr)
		return ok && y != nil && x.Port == y.Port && (x.IP.Equal(y.IP) || len(x.IP) == 0 && len(y.IP) == 0)
	case *net.UDPAddr:
		y, ok := b.(*net.UDPAddr)
		return ok && y != nil && x.Port == y.Port && (x.IP.Equal(y.IP) || len(x.IP) == 0 && len(y.IP) == 0)
	case *net.UnixAddr:
		y, ok := b.(*net.UnixAddr)
		return ok && y != nil && x.Name == y.Name && x.Net == y.Net
	}
	return false
}

func c18AddrStr(a net.Addr) string {
	if a == nil {
		return "<nil addr>"
	}
	s := a.String()
	if len(s) > 60 {
		s = fmt.Sprintf("%s...(%d bytes)", s[:60], len(s))
	}
	return fmt.Sprintf("%T{%s}", a, s)
}

func c18PFRunA(c c18PF, v *vlib.Verdict) {
	a := c.addr()
	text := ""
	switch x := a.(type) {
	case *net.TCPAddr:
		text = net.JoinHostPort(x.IP.String(), fmt.Sprint(x.Port))
		v.Label("tcp")
	case *net.UDPAddr:
		text = net.JoinHostPort(x.IP.String(), fmt.Sprint(x.Port))
		v.Label("udp")
	case *net.UnixAddr:
		text = x.Name
		v.Label("unix")
	}
	fits := len(text) <= 65535 // two-byte length prefix
	v.NonTrivial = wire.AtLimit(len(text)) || (c.Fwd != PfLocal && c.Fwd != PfRemote)
	if c.Fwd != PfLocal && c.Fwd != PfRemote {
		v.Label("fwdtype-unknown")
	}
	if len(text) >= 65535 {
		v.Labelf("addr%s", map[bool]string{true: "=65535", false: ">65535"}[len(text) == 65535])
	}
	if c.Net != 3 && c.IP == "" {
		v.Label("nil-ip")
	}
	var enc []byte
	if vlib.Guard(v, func() { enc = toBytes(a, c.Fwd) }) {
		return
	}
	if enc == nil {
		// toBytes has no error result; nil is how it refuses
		v.Label("encoder-rejected")
		if fits {
			v.Failf("C18:encode-rejects-representable:portforwarding.toBytes", "toBytes returns nil for %s", c18AddrStr(a))
		}
		return
	}
	st := &wire.Stream{Data: enc, Sentinel: true, MaxSentinel: 1 << 20}
	var got net.Addr
	var gFwd byte
	var derr error
	if vlib.Guard(v, func() { got, gFwd, derr = readPacket(st) }) {
		return
	}
	ok := derr == nil && c18AddrEq(a, got) && int(gFwd) == c.Fwd && st.Consumed == len(enc)
	if ok {
		if !fits {
			v.Label("beyond-assumed-limit-but-round-trips")
		}
		c18PFRedeliver(v, enc, true, c.Dlv, true, len(enc), got, gFwd)
		return
	}
	what := fmt.Sprintf("readPacket err=%v addr=%s fwdType=%d, consumed %d of %d bytes", derr, c18AddrStr(got), gFwd, st.Consumed, len(enc))
	switch {
	case !fits:
		v.Failf("C18:encode-accepted-misframed:portforwarding.toBytes", "toBytes accepted a %d-byte address (two-byte length) and wrote length field %d: %s", len(text), int(enc[2])<<8|int(enc[3]), what)
	case derr != nil:
		v.Failf("C18:decode-rejects-own-encoding:portforwarding.readPacket", "sent %s fwdType %d: %s", c18AddrStr(a), c.Fwd, what)
	case !c18AddrEq(a, got):
		v.Failf("C18:roundtrip-mismatch:portforwarding.packet:addr", "sent %s: %s", c18AddrStr(a), what)
	case int(gFwd) != c.Fwd:
		v.Failf("C18:roundtrip-mismatch:portforwarding.packet:fwdType", "sent fwdType %d: %s", c.Fwd, what)
	default:
		v.Failf("C18:consumed-length:portforwarding.packet", "%s", what)
	}
}

var c18IPs = []string{"", "127.0.0.1", "0.0.0.0", "255.255.255.255", "10.1.2.3", "::1", "::", "2001:db8::1", "fe80::1", "::ffff:1.2.3.4", "ffff:ffff:ffff:ffff:ffff:ffff:ffff:ffff"}

func c18PFGen(t *rapid.T) c18PF {
	c := c18PF{Net: rapid.IntRange(1, 3).Draw(t, "net"), Seed: rapid.Uint64().Draw(t, "seed"), Dlv: wire.DrawDelivery(t)}
	if rapid.Bool().Draw(t, "knownfwd") {
		c.Fwd = rapid.SampledFrom([]int{PfLocal, PfRemote}).Draw(t, "fwd")
	} else {
		c.Fwd = rapid.IntRange(0, 255).Draw(t, "fwdany")
	}
	if c.Net == 3 {
		c.Len = wire.DrawLen(t, "len", 70000)
		if rapid.IntRange(0, 3).Draw(t, "near64k") == 0 {
			c.Len = rapid.SampledFrom([]int{65534, 65535, 65536, 65537, 65636}).Draw(t, "len64k")
		}
		return c
	}
	if rapid.Bool().Draw(t, "ipedge") {
		c.IP = rapid.SampledFrom(c18IPs).Draw(t, "ip")
	} else if rapid.Bool().Draw(t, "v4") {
		b := rapid.SliceOfN(rapid.Byte(), 4, 4).Draw(t, "ip4")
		c.IP = net.IP(b).String()
	} else {
		b := rapid.SliceOfN(rapid.Byte(), 16, 16).Draw(t, "ip6")
		c.IP = net.IP(b).String()
	}
	c.Port = rapid.SampledFrom([]int{0, 1, 22, 80, 8080, 65535, 65536, 70000, -1, 1 << 31}).Draw(t, "port")
	return c
}

func TestVerifC18PortForwardEncDec(t *testing.T) {
	vlib.Drive(t, vlib.Spec[c18PF]{ID: "C18", Quick: 10000, Gen: c18PFGen, Run: c18PFRunA})
}

// (B) mutated requests: every network-type and forward-type byte, length field
// edits, truncation, garbage addresses.
type c18PFB struct {
	Base c18PF      `json:"base"`
	Addr string     `json:"addr"` // non-empty: raw address text instead of the base address
	Muts []wire.Mut `json:"muts"`
}

func c18PFRunB(c c18PFB, v *vlib.Verdict) {
	base := c.Base
	if base.Len > 2000 {
		base.Len %= 2000
	}
	var text string
	switch a := base.addr().(type) {
	case *net.TCPAddr:
		text = net.JoinHostPort(a.IP.String(), fmt.Sprint(a.Port))
	case *net.UDPAddr:
		text = net.JoinHostPort(a.IP.String(), fmt.Sprint(a.Port))
	case *net.UnixAddr:
		text = a.Name
	}
	if c.Addr != "" {
		text = c.Addr
	}
	enc := []byte{byte(base.Net), byte(base.Fwd), byte(len(text) >> 8), byte(len(text))}
	enc = append(enc, text...)
	in := wire.Mutate(enc, []wire.Field{{Off: 0, Width: 1}, {Off: 1, Width: 1}, {Off: 2, Width: 2}, {Off: 2, Width: 2}}, c.Muts, 0)
	c18PFBytesB(in, c.Base.Dlv, v)
}

// c18PFBytesB: decode -> encode -> decode on raw bytes. dlv: the delivery
// pattern under which the bytes are decoded once more.
func c18PFBytesB(in []byte, dlv wire.Delivery, v *vlib.Verdict) {
	st := &wire.Stream{Data: in}
	var a1 net.Addr
	var f1 byte
	var err error
	if vlib.Guard(v, func() { a1, f1, err = readPacket(st) }) {
		return
	}
	if c18PFRedeliver(v, in, false, dlv, err == nil, st.Consumed, a1, f1); !v.OK() {
		return
	}
	if err != nil {
		v.Label("decoder-rejected")
		return
	}
	v.Labelf("decoder-accepted:%T", a1)
	var re []byte
	if vlib.Guard(v, func() { re = toBytes(a1, int(f1)) }) {
		return
	}
	if re == nil {
		v.Label("re-encode-rejected")
		v.NonTrivial = true
		return
	}
	if st.Consumed > len(in) || !bytes.Equal(re, in[:st.Consumed]) {
		v.NonTrivial = true
		v.Label("accepted-non-canonical")
	} else {
		v.Label("accepted-canonical")
	}
	var a2 net.Addr
	var f2 byte
	var err2 error
	if vlib.Guard(v, func() { a2, f2, err2 = readPacket(&wire.Stream{Data: re}) }) {
		return
	}
	if err2 != nil {
		v.Failf("C18:redecode-fails:portforwarding.packet", "readPacket accepted %q as %s; the re-encoding is rejected: %v", in[:min(len(in), 80)], c18AddrStr(a1), err2)
		return
	}
	if !c18AddrEq(a1, a2) || f1 != f2 {
		v.Failf("C18:reencode-changes-value:portforwarding.packet", "readPacket accepted %q as %s fwdType %d; after re-encoding it reads as %s fwdType %d", in[:min(len(in), 80)], c18AddrStr(a1), f1, c18AddrStr(a2), f2)
	}
}

var c18RawAddrs = []string{"example.com:80", "localhost:22", "[::1]:80", "[::1%eth0]:80", "1.2.3.4:99999999999999999999", "1.2.3.4:-5", "1.2.3.4:http", ":80", "1.2.3.4:", "[1.2.3.4]:80",
	"::1:80", "1.2.3.4", "01.02.03.04:80", "1.2.3.4:080", "[::ffff:1.2.3.4]:1", "/tmp/sock", "", "a:b:c", "[fe80::1%25en0]:1", "１.２.３.４:80", "1.2.3.4:+80", "0x7f.1:80"}

func TestVerifC18PortForwardDecEncDec(t *testing.T) {
	vlib.Drive(t, vlib.Spec[c18PFB]{ID: "C18", Quick: 10000, Run: c18PFRunB, Gen: func(t *rapid.T) c18PFB {
		c := c18PFB{Base: c18PFGen(t)}
		if rapid.IntRange(0, 2).Draw(t, "raw") == 0 {
			c.Addr = rapid.SampledFrom(c18RawAddrs).Draw(t, "addr")
		}
		if rapid.IntRange(0, 3).Draw(t, "anynet") == 0 {
			c.Base.Net = rapid.IntRange(0, 255).Draw(t, "netany")
		}
		c.Muts = wire.GenMuts(t, 0, 3)
		return c
	}})
}

// FuzzVerifC18PFPacket: native fuzzing of the port-forward request decode ->
// encode -> decode oracle (only does work when VERIF_FUZZ is set).
func FuzzVerifC18PFPacket(f *testing.F) {
	if os.Getenv("VERIF_FUZZ") == "" {
		f.Skip("native fuzzing runs in the thorough tier only")
	}
	for _, a := range c18RawAddrs {
		f.Add(append([]byte{PfTCP, PfLocal, byte(len(a) >> 8), byte(len(a))}, a...))
	}
	f.Add(append([]byte{PfUNIX, PfRemote, 0, 6}, "/tmp/s"...))
	f.Fuzz(func(t *testing.T, in []byte) {
		var v vlib.Verdict
		c18PFBytesB(in, wire.DeliveryFor(wire.Hash64(in)), &v)
		for _, vi := range v.Violations {
			if !vlib.KnownOpen(vi.Sig) {
				t.Fatalf("VERIF-VIOLATION sig=%s detail=%s", vi.Sig, vi.Detail)
			}
		}
	})
}
