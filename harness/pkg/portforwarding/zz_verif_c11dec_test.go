package portforwarding

// C11 (decoder half) — whatever bytes arrive on a port-forwarding control tube,
// readPacket returns a value or an error without panicking, gives up at
// end-of-stream, and allocates memory in proportion to the bytes received
// (<= 256 KiB + 16 x input length).
//
// Every input is handed to the decoder twice: in one piece, and delivered
// according to a generated pattern (wire.Delivery: one byte at a time, drawn
// chunk sizes, (0, nil) results, end-of-stream reported with the last bytes);
// the same oracles hold under every delivery. Enumerations derive the pattern
// from the input bytes (wire.DeliveryFor).

import (
	"net"
	"reflect"
	"testing"

	"pgregory.net/rapid"
	"verif.local/vlib"
	"verif.local/vlib/wire"
)

type c11dPF struct {
	Raw  int        `json:"raw"` // >= 0: input is Fill(seed, Raw) with the first two bytes from Net / Fwd
	Net  int        `json:"net"`
	Fwd  int        `json:"fwd"`
	Addr string     `json:"addr"`
	Seed uint64     `json:"seed"`
	Muts []wire.Mut `json:"muts"`
	Dlv  wire.Delivery `json:"dlv"` // second delivery of the same bytes
}

var c11dPFFields = []wire.Field{{Off: 0, Width: 1}, {Off: 1, Width: 1}, {Off: 2, Width: 2}, {Off: 2, Width: 2}}

func (c c11dPF) input() []byte {
	if c.Raw >= 0 {
		in := vlib.Fill(c.Seed, c.Raw)
		if len(in) > 0 {
			in[0] = byte(c.Net)
		}
		if len(in) > 1 {
			in[1] = byte(c.Fwd)
		}
		return in
	}
	enc := []byte{byte(c.Net), byte(c.Fwd), byte(len(c.Addr) >> 8), byte(len(c.Addr))}
	enc = append(enc, c.Addr...)
	return wire.Mutate(enc, c11dPFFields, c.Muts, 0)
}

func c11dPFShape(in []byte) string {
	if len(in) < 4 {
		return "shorter-than-header"
	}
	l := int(in[2])<<8 | int(in[3])
	switch {
	case 4+l > len(in):
		return "length-beyond-input"
	case 4+l < len(in):
		return "trailing-bytes"
	}
	return "consistent"
}

// c11dPFUsable is the clause "a nil error comes with a value": the statement
// promises "a value or an error", and what the caller of readPacket
// (StartPFServer) does with the address of a successful decode is to call its
// Network and String methods and to switch on its type - so a successful
// decode must hand back a non-nil address on which these calls do not panic.
func c11dPFUsable(v *vlib.Verdict, addr net.Addr, err error, in []byte) {
	if err != nil || !v.OK() {
		return
	}
	if addr == nil {
		v.Failf("C11:nil-error-without-value:portforwarding.readPacket", "readPacket returned a nil address together with a nil error for input % x", in[:min(len(in), 16)])
		return
	}
	if rv := reflect.ValueOf(addr); rv.Kind() == reflect.Pointer && rv.IsNil() {
		v.Failf("C11:nil-error-without-value:portforwarding.readPacket", "readPacket returned a nil %T together with a nil error for input % x", addr, in[:min(len(in), 16)])
		return
	}
	vlib.Guard(v, func() { _, _ = addr.Network(), addr.String() })
}

func c11dPFRun(c c11dPF, v *vlib.Verdict) {
	in := c.input()
	shape := c11dPFShape(in)
	v.Label(shape)
	v.NonTrivial = shape != "consistent"
	var err error
	wire.DecoderCallBoth(v, "portforwarding.readPacket", in, c.Dlv, func(st *wire.Stream) {
		var addr net.Addr
		addr, _, err = readPacket(st)
		c11dPFUsable(v, addr, err, in)
	})
	if v.OK() {
		v.Label(map[bool]string{true: "returned-value", false: "returned-error"}[err == nil])
	}
}

func TestVerifC11DecReadPacket(t *testing.T) {
	vlib.Drive(t, vlib.Spec[c11dPF]{ID: "C11", Quick: 12000, Run: c11dPFRun, Gen: func(t *rapid.T) c11dPF {
		c := c11dPF{Raw: -1, Seed: rapid.Uint64().Draw(t, "seed"), Fwd: rapid.IntRange(0, 255).Draw(t, "fwd"), Dlv: wire.DrawDelivery(t)}
		if rapid.Bool().Draw(t, "knownnet") {
			c.Net = rapid.IntRange(1, 3).Draw(t, "net")
		} else {
			c.Net = rapid.IntRange(0, 255).Draw(t, "netany")
		}
		if rapid.IntRange(0, 3).Draw(t, "raw") == 0 {
			c.Raw = rapid.SampledFrom([]int{0, 1, 2, 3, 4, 5, 8, 64, 300}).Draw(t, "rawlen")
			return c
		}
		if rapid.Bool().Draw(t, "rawaddr") {
			c.Addr = rapid.SampledFrom(c18RawAddrs).Draw(t, "addr")
		} else {
			c.Addr = "/" + wire.Text(c.Seed, wire.DrawLen(t, "alen", 66000))
			if len(c.Addr) > 65535 {
				c.Addr = c.Addr[:65535]
			}
		}
		c.Muts = wire.GenMuts(t, 0, 3)
		return c
	}})
}

// every truncation x every (field, value class) of a few valid requests
type c11dPFSweep struct {
	Base  int `json:"base"`
	Field int `json:"field"` // -1 none, 0 network type, 1 forward type, 2 address length
	Class int `json:"class"`
	Cut   int `json:"cut"` // -1 none
}

var c11dPFBases = []struct {
	net  byte
	addr string
}{{PfTCP, "127.0.0.1:8080"}, {PfUDP, "[::1]:53"}, {PfUNIX, "/tmp/s"}, {PfTCP, ""}, {9, "x"},
	// the values around the known network types (the forwarding-type constants 4 and 5 share the constant block)
	{0, "/tmp/s"}, {4, "/tmp/s"}, {5, "127.0.0.1:8080"}, {6, "/tmp/s"}, {255, "[::1]:53"}}

func c11dPFSweepRun(c c11dPFSweep, v *vlib.Verdict) {
	b := c11dPFBases[c.Base]
	enc := append([]byte{b.net, PfLocal, byte(len(b.addr) >> 8), byte(len(b.addr))}, b.addr...)
	var muts []wire.Mut
	if c.Field >= 0 {
		muts = append(muts, wire.Mut{Op: 0, A: uint64(c.Field), B: c.Class})
	}
	if c.Cut >= 0 {
		muts = append(muts, wire.Mut{Op: 1, A: uint64(c.Cut)})
	}
	in := wire.Mutate(enc, c11dPFFields[:3], muts, 0)
	shape := c11dPFShape(in)
	v.Label(shape)
	v.NonTrivial = shape != "consistent"
	wire.DecoderCallBoth(v, "portforwarding.readPacket", in, wire.DeliveryFor(wire.Hash64(in)), func(st *wire.Stream) {
		addr, _, err := readPacket(st)
		c11dPFUsable(v, addr, err, in)
	})
}

func TestVerifC11DecReadPacketSweep(t *testing.T) {
	if vlib.ReplayEnumerated(t, "C11", c11dPFSweepRun) {
		return
	}
	rec := vlib.Open(t, "C11")
	i := 0
	for bi, b := range c11dPFBases {
		for field := -1; field < 3; field++ {
			classes := []int{0}
			if field >= 0 {
				classes = []int{0, 1, 2, 3, 4, 5, 6}
			}
			for _, class := range classes {
				for cut := -1; cut <= 4+len(b.addr); cut++ {
					i++
					if !rec.Mine(i) {
						continue
					}
					if !vlib.Each(t, rec, c11dPFSweep{bi, field, class, cut}, c11dPFSweepRun) {
						return
					}
				}
			}
		}
	}
	rec.SetExhaustive(true)
	rec.Extra("enumerated", "10 requests (network types 0-6, 9, 255) x {no edit, each of net type / forward type / address length set to 0,1,actual-1,actual+1,0xFF,0xFFFF,0xFFFFFFFF} x every truncation")
}
