//go:build go1.25

package portforwarding

// C11 (decoder half) — the REAL CALLER of the port-forwarding control decoder:
// whatever bytes the peer writes into a port-forwarding control tube,
// StartPFServer (run by the server as an unrecovered goroutine per control
// tube) neither panics nor blocks once the peer has closed its end, and does
// not allocate out of proportion to the bytes received. The decoder alone can
// look fine while the pair (decoder, caller) is not - e.g. a decode that
// "succeeds" without an address is only fatal in the caller - so the same
// generated control messages that go into readPacket are also sent over a real
// reliable tube of a muxer pair (vlib/memconn, synctest bubble) to
// StartPFServer with a stub Forward.
//
// What the stub Authorize hook lets through is decided by the HARNESS from the
// bytes it sent (not from the decoder's answer), so that the check never makes
// the machine talk to anything but itself: remote forwardings (which would
// listen on a peer-chosen address and accept for ever) are always refused; a
// local forwarding is permitted in four cases out of five, unless the message
// names a TCP-style host:port whose host is a non-loopback IP literal. A
// permitted local forwarding makes StartPFServer dial the address once (Unix
// path, loopback TCP port or a UDP "connection", which sends nothing) - the
// dial fails or is closed at once.

import (
	"errors"
	"net"
	"runtime"
	"testing"
	"time"

	"github.com/sirupsen/logrus"
	"io"
	"pgregory.net/rapid"
	"sync"
	"verif.local/vlib"
	"verif.local/vlib/memconn"
	"verif.local/vlib/wire"

	"hop.computer/hop/common"
	"hop.computer/hop/tubes"
)

type c11vCase struct {
	In     c11dPF `json:"in"`
	Refuse bool   `json:"refuse"` // the Authorize hook refuses everything
	NoHook bool   `json:"nohook"` // Forward.Authorize left nil (only drawn when the harness would permit the message anyway or the message cannot reach a forwarding)
}

var c11vQuietOnce sync.Once
var c11vLog *logrus.Entry

func c11vQuiet() *logrus.Entry {
	c11vQuietOnce.Do(func() {
		logrus.SetOutput(io.Discard)
		logrus.SetLevel(logrus.PanicLevel)
		l := logrus.New()
		l.SetOutput(io.Discard)
		l.SetLevel(logrus.PanicLevel)
		c11vLog = logrus.NewEntry(l)
	})
	return c11vLog
}

// c11vHarmless: may a local forwarding for this message be permitted? Judged
// on the bytes sent. Anything that is not a complete host:port with an IP
// literal cannot make the unchanged code leave the machine (readPacket uses
// net.ParseIP, never the resolver; a nil IP dials the local system).
func c11vHarmless(in []byte) bool {
	if len(in) < 4 {
		return true
	}
	l := int(in[2])<<8 | int(in[3])
	if 4+l > len(in) {
		return true
	}
	if in[0] == PfUNIX || in[0] == PfUDP {
		return true
	}
	host, _, err := net.SplitHostPort(string(in[4 : 4+l]))
	if err != nil {
		return true
	}
	ip := net.ParseIP(host)
	return ip == nil || ip.IsLoopback() || ip.IsUnspecified()
}

// c11vNoHookOK: without an Authorize hook StartPFServer acts on every message
// it can decode; the harness only leaves the hook out when the message asks for
// a harmless local forwarding or for no forwarding at all.
func c11vNoHookOK(in []byte) bool {
	if len(in) < 2 {
		return true
	}
	return in[1] != PfRemote && c11vHarmless(in)
}

func c11vRun(t *testing.T) func(c c11vCase, v *vlib.Verdict) {
	return func(c c11vCase, v *vlib.Verdict) {
		in := c.In.input()
		if c.NoHook && !c11vNoHookOK(in) {
			c.NoHook = false
		}
		harmless := c11vHarmless(in)
		pieces := c.In.Dlv.Pieces(len(in), 24)
		shape := c11dPFShape(in)
		v.Label(shape)
		v.NonTrivial = shape != "consistent" || len(in) < 2 || in[0] < PfTCP || in[0] > PfUNIX || (in[1] != PfLocal && in[1] != PfRemote)
		if len(in) >= 2 {
			v.Label(map[bool]string{true: "net=known", false: "net=unknown"}[in[0] >= PfTCP && in[0] <= PfUNIX])
			switch in[1] {
			case PfLocal:
				v.Label("fwd=local")
			case PfRemote:
				v.Label("fwd=remote")
			default:
				v.Label("fwd=other")
			}
		}
		v.Labelf("delivery=%s", map[bool]string{true: "one-write", false: "several-writes"}[len(pieces) == 1])
		asked, permitted := 0, 0
		fwd := &Forward{}
		if !c.NoHook {
			fwd.Authorize = func(ft int) error {
				asked++
				if !c.Refuse && ft == PfLocal && harmless {
					permitted++
					return nil
				}
				return errors.New("refused by the harness")
			}
		}
		var alloc uint64
		returned := false
		problem := ""
		res := vlib.Bubble(t, 60*time.Second, func() {
			n := memconn.New(memconn.Params{}, memconn.Params{}, 8192)
			cfg := &tubes.Config{Timeout: 0, Log: c11vQuiet()}
			ma, mb := tubes.Client(n.A, cfg), tubes.Server(n.B, cfg)
			done := make(chan struct{})
			go func() {
				defer close(done)
				ta, err := ma.CreateReliableTube(common.PFControlTube)
				if err != nil {
					problem = "create: " + err.Error()
					return
				}
				acc, err := mb.Accept()
				if err != nil {
					problem = "accept: " + err.Error()
					return
				}
				tb, ok := acc.(*tubes.Reliable)
				if !ok {
					problem = "accepted tube is not reliable"
					return
				}
				go func() { // the peer: writes its control message, waits, closes; a second goroutine drains the answers
					left := in
					if len(pieces) > 1 {
						time.Sleep(600 * time.Millisecond) // the reader is blocked in Read by now
						for _, n := range pieces[:len(pieces)-1] {
							ta.Write(left[:n])
							left = left[n:]
							time.Sleep(5 * time.Millisecond)
						}
					}
					if len(left) > 0 {
						ta.Write(left)
					}
					time.Sleep(time.Second)
					ta.Close()
				}()
				go func() {
					buf := make([]byte, 64)
					for {
						if _, err := ta.Read(buf); err != nil {
							return
						}
					}
				}()
				time.Sleep(500 * time.Millisecond)
				var m0, m1 runtime.MemStats
				runtime.ReadMemStats(&m0)
				vlib.Guard(v, func() { StartPFServer(tb, fwd, mb); returned = true })
				runtime.ReadMemStats(&m1)
				alloc = m1.TotalAlloc - m0.TotalAlloc
				tb.Close()
			}()
			select {
			case <-done:
			case <-time.After(2 * time.Minute):
				problem = "did not finish within 2 virtual minutes"
			}
			sd := make(chan struct{}, 2)
			go func() { ma.Stop(); sd <- struct{}{} }()
			go func() { mb.Stop(); sd <- struct{}{} }()
			tm := time.NewTimer(time.Minute)
			defer tm.Stop()
			for i := 0; i < 2; i++ {
				select {
				case <-sd:
				case <-tm.C:
					return
				}
			}
			time.Sleep(time.Minute)
		})
		if !v.OK() {
			return
		}
		switch {
		case c.NoHook:
			v.Label("authorize=no-hook")
		case asked == 0:
			v.Label("authorize=not-asked")
		case permitted > 0:
			v.Label("authorize=permitted")
		default:
			v.Label("authorize=refused")
		}
		if res.Hung {
			v.Inconclusive = "bubble hung in real time (C11 StartPFServer)"
			return
		}
		if problem != "" {
			if !returned && problem == "did not finish within 2 virtual minutes" {
				v.Failf("C11:blocks-on-closed-stream:portforwarding.StartPFServer", "StartPFServer did not return within 2 virtual minutes after the peer wrote %d bytes and closed the tube", len(in))
				return
			}
			v.Inconclusive = "tube fixture: " + problem
			return
		}
		if budget := uint64(8<<20 + 16*len(in)); alloc > budget {
			v.Failf("C11:alloc-out-of-proportion:portforwarding.StartPFServer", "%d input bytes made StartPFServer allocate %d bytes (bound %d)", len(in), alloc, budget)
		}
	}
}

var c11vAddrs = []string{"127.0.0.1:1", "[::1]:9", "127.0.0.1:0", ":7", "localhost:22", "/nonexistent/verif-c11/sock", "", "x"}

func TestVerifC11DecPFServer(t *testing.T) {
	vlib.Drive(t, vlib.Spec[c11vCase]{ID: "C11", Quick: 4000, Run: c11vRun(t), Gen: func(t *rapid.T) c11vCase {
		c := c11vCase{In: c11dPF{Raw: -1, Seed: rapid.Uint64().Draw(t, "seed"), Dlv: wire.DrawDelivery(t)}}
		// forwarding type: mostly "local" (the only request StartPFServer acts on under the harness's policy), its neighbours, anything
		switch rapid.IntRange(0, 9).Draw(t, "fwdkind") {
		case 0, 1, 2, 3, 4, 5:
			c.In.Fwd = PfLocal
		case 6:
			c.In.Fwd = PfRemote
		case 7:
			c.In.Fwd = rapid.SampledFrom([]int{0, 1, 2, 3, 6, 7, 255}).Draw(t, "fwdnear")
		default:
			c.In.Fwd = rapid.IntRange(0, 255).Draw(t, "fwdany")
		}
		// network type: the known ones, the values next to them (0, 4..7: the forwarding-type constants live in the same block), anything
		switch rapid.IntRange(0, 9).Draw(t, "netkind") {
		case 0, 1, 2, 3, 4:
			c.In.Net = rapid.IntRange(1, 3).Draw(t, "net")
		case 5, 6, 7, 8:
			c.In.Net = rapid.SampledFrom([]int{0, 4, 5, 6, 7, 255}).Draw(t, "netnear")
		default:
			c.In.Net = rapid.IntRange(0, 255).Draw(t, "netany")
		}
		c.Refuse = rapid.IntRange(0, 4).Draw(t, "refuse") == 0
		c.NoHook = !c.Refuse && rapid.IntRange(0, 3).Draw(t, "nohook") == 0
		if rapid.IntRange(0, 5).Draw(t, "raw") == 0 {
			c.In.Raw = rapid.SampledFrom([]int{0, 1, 2, 3, 4, 5, 8, 64, 300}).Draw(t, "rawlen")
			return c
		}
		switch rapid.IntRange(0, 3).Draw(t, "addrkind") {
		case 0:
			c.In.Addr = rapid.SampledFrom(c18RawAddrs).Draw(t, "addr")
		case 1:
			c.In.Addr = "/" + wire.Text(c.In.Seed, wire.DrawLen(t, "alen", 3000))
		default:
			c.In.Addr = rapid.SampledFrom(c11vAddrs).Draw(t, "addrlocal")
		}
		if rapid.Bool().Draw(t, "mutate") {
			c.In.Muts = wire.GenMuts(t, 0, 2)
		}
		return c
	}})
}
