//go:build race

package authgrants

// c06Race: the binary was built with the race detector (the concurrent unit runs fewer, equally shaped cases:
// the detector reports the first unsynchronised overlap, it does not need many).
const c06Race = true
