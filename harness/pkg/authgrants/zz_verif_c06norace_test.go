//go:build !race

package authgrants

const c06Race = false
