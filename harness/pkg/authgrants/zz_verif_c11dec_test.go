package authgrants

// C11 (decoder half) — whatever bytes arrive on an authorization-grant tube,
// ReadIntentRequest / ReadIntentCommunication / ReadConfOrDenial (and the proxy
// readers ReadTargetInfo / ReadResponse / ReadUnreliableProxyID) return a value
// or an error without panicking, give up at end-of-stream, and allocate memory
// in proportion to the bytes received (<= 256 KiB + 16 x input length).
//
// Every input is handed to the decoder twice: in one piece, and delivered
// according to a generated pattern (wire.Delivery: one byte at a time, drawn
// chunk sizes, (0, nil) results, end-of-stream reported with the last bytes);
// the same oracles hold under every delivery. Enumerations derive the pattern
// from the input bytes (wire.DeliveryFor).

import (
	"testing"

	"pgregory.net/rapid"
	"verif.local/vlib"
	"verif.local/vlib/wire"
)

var c11dReaders = []string{"ReadIntentRequest", "ReadIntentCommunication", "ReadConfOrDenial", "ReadTargetInfo", "ReadResponse", "ReadUnreliableProxyID"}

func c11dRead(reader int, st *wire.Stream) error {
	var err error
	switch reader {
	case 0:
		_, err = ReadIntentRequest(st)
	case 1:
		_, err = ReadIntentCommunication(st)
	case 2:
		_, err = ReadConfOrDenial(st)
	case 3:
		_, err = ReadTargetInfo(st)
	case 4:
		err = ReadResponse(st)
	default:
		_, err = ReadUnreliableProxyID(st)
	}
	return err
}

type c11dAg struct {
	Reader int        `json:"reader"`
	Raw    int        `json:"raw"`  // >= 0: input is Fill(seed, Raw) with the first two bytes from B0 / B1
	B0     int        `json:"b0"`   // message type byte (raw mode)
	B1     int        `json:"b1"`   // grant type byte (raw mode)
	Seed   uint64     `json:"seed"`
	Base   c18AgB     `json:"base"` // valid message the mutations start from (Base.Muts is ignored)
	Muts   []wire.Mut `json:"muts"`
	Dlv    wire.Delivery `json:"dlv"` // second delivery of the same bytes
}

func (c c11dAg) input() (in []byte, mutated bool) {
	if c.Raw >= 0 {
		in = vlib.Fill(c.Seed, c.Raw)
		if len(in) > 0 {
			in[0] = byte(c.B0)
		}
		if len(in) > 1 {
			in[1] = byte(c.B1)
		}
		return in, true
	}
	enc, fields, _ := c18AgBase(c.Base)
	return wire.Mutate(enc, fields, c.Muts, 0), len(c.Muts) > 0
}

func c11dAgRun(c c11dAg, v *vlib.Verdict) {
	in, mutated := c.input()
	name := c11dReaders[c.Reader]
	v.Label(name)
	v.NonTrivial = mutated
	if len(in) > 1 && (in[0] == 1 || in[0] == 2) && (in[1] == 3 || in[1] == 4) {
		v.Label("grant=localpf/remotepf")
	}
	var err error
	wire.DecoderCallBoth(v, "authgrants."+name, in, c.Dlv, func(st *wire.Stream) { err = c11dRead(c.Reader, st) })
	if v.OK() {
		v.Label(map[bool]string{true: "returned-value", false: "returned-error"}[err == nil])
	}
}

func c11dAgGen(t *rapid.T) c11dAg {
	c := c11dAg{Raw: -1, Reader: rapid.SampledFrom([]int{0, 0, 0, 1, 1, 1, 2, 2, 3, 4, 5}).Draw(t, "reader"), Seed: rapid.Uint64().Draw(t, "seed"), Dlv: wire.DrawDelivery(t)}
	if rapid.IntRange(0, 3).Draw(t, "raw") == 0 {
		c.Raw = rapid.SampledFrom([]int{0, 1, 2, 3, 4, 5, 20, 21, 22, 24, 64, 200, 300, 700}).Draw(t, "rawlen")
		c.B0 = c18EnumGen(t, "b0", []int{1, 2, 3, 4, 0})
		c.B1 = c18EnumGen(t, "b1", []int{1, 2, 2, 5, 0})
		return c
	}
	c.Base = c18AgBGen(t)
	c.Muts, c.Base.Muts = c.Base.Muts, nil
	c.Base.Base.Dlv = wire.Delivery{} // the C11 case has its own
	return c
}

func TestVerifC11DecAuthgrantReaders(t *testing.T) {
	vlib.Drive(t, vlib.Spec[c11dAg]{ID: "C11", Quick: 30000, Gen: c11dAgGen, Run: c11dAgRun})
}

// every truncation x every (length or enum field, value class) of three valid
// messages, through each of the three grant readers
type c11dAgSweep struct {
	Reader int `json:"reader"`
	Base   int `json:"base"`
	Field  int `json:"field"` // -1 none
	Class  int `json:"class"`
	Cut    int `json:"cut"` // -1 none
}

func c11dAgSweepBase(k int) c18AgB {
	switch k {
	case 0: // command intent, one certificate name
		return c18AgB{Deny: -1, Base: c18Intent{Msg: 1, Grant: 2, Port: 22, Start: 1700000000, Exp: 1700003600, SNI: c18Name{Type: 1, Len: 11, Seed: 1}, UserLen: 4, UserSeed: 2,
			Cert: c18Cert{Version: 1, Type: 1, Issued: 1700000000, Expires: 1800000000, Seed: 3, Names: []c18Name{{Type: 0, Len: 8, Seed: 5}}}, CmdLen: 6, CmdSeed: 4}}
	case 1: // shell intent communication, no names
		return c18AgB{Deny: -1, Base: c18Intent{Msg: 2, Grant: 1, Port: 77, Start: 1, Exp: 2, SNI: c18Name{Type: 0, Len: 0}, UserLen: 0, Cert: c18Cert{Version: 1, Type: 1, Seed: 9}}}
	default: // denial
		return c18AgB{Deny: 5, Base: c18Intent{UserSeed: 7}}
	}
}

func c11dAgSweepRun(c c11dAgSweep, v *vlib.Verdict) {
	enc, fields, _ := c18AgBase(c11dAgSweepBase(c.Base))
	var muts []wire.Mut
	if c.Field >= 0 {
		muts = append(muts, wire.Mut{Op: 0, A: uint64(c.Field), B: c.Class})
	}
	if c.Cut >= 0 {
		muts = append(muts, wire.Mut{Op: 1, A: uint64(c.Cut)})
	}
	in := wire.Mutate(enc, fields, muts, 0)
	name := c11dReaders[c.Reader]
	v.Label(name)
	v.NonTrivial = len(muts) > 0
	wire.DecoderCallBoth(v, "authgrants."+name, in, wire.DeliveryFor(wire.Hash64(in)), func(st *wire.Stream) { c11dRead(c.Reader, st) })
}

func TestVerifC11DecAuthgrantSweep(t *testing.T) {
	if vlib.ReplayEnumerated(t, "C11", c11dAgSweepRun) {
		return
	}
	rec := vlib.Open(t, "C11")
	i := 0
	for base := 0; base < 3; base++ {
		enc, fields, _ := c18AgBase(c11dAgSweepBase(base))
		for reader := 0; reader < 3; reader++ {
			for field := -1; field < len(fields); field++ {
				classes := []int{0}
				if field >= 0 {
					classes = []int{0, 1, 2, 3, 4, 5, 6}
				}
				for _, class := range classes {
					for cut := -1; cut <= len(enc); cut++ {
						if field >= 0 && cut >= 0 && cut < fields[field].Off {
							continue // the edited field is cut away: same input as the plain truncation
						}
						i++
						if !rec.Mine(i) {
							continue
						}
						if !vlib.Each(t, rec, c11dAgSweep{reader, base, field, class, cut}, c11dAgSweepRun) {
							return
						}
					}
				}
			}
		}
	}
	rec.SetExhaustive(true)
	rec.Extra("enumerated", "3 valid messages x 3 readers x {no edit, each length/enum field set to 0,1,actual-1,actual+1,0xFF,0xFFFF,0xFFFFFFFF} x every truncation that keeps the edited field")
}
