//go:build go1.25

package authgrants

// C06 — nothing is delegated without the principal approving that exact intent.
//
// The REAL principal (StartPrincipalInstance, the function hopclient runs per
// delegate connection) is driven over in-memory connections inside a synctest
// bubble. The harness plays
//   - the delegate: writes 1..6 intent requests (bytes produced by an encoder
//     written from the wire format, independent of messages.go), reads the
//     answers with its own parser and verifies one virtual second of silence
//     after each request;
//   - the approval callback: per-request scripted decision, records exactly what
//     it was shown;
//   - the target-setup function, modelled on hopclient.setupTargetClient as read
//     in the source: may fail before the handshake, invokes the verification
//     callback with the target certificate INSIDE setup and fails if it fails,
//     may fail after the callback accepted (user authorization), otherwise
//     returns a fresh connection to a target;
//   - the target: either a script (confirm / deny(reason) / close / garbage+close
//     / close mid-message) or the REAL StartTargetInstance with recording
//     checkIntent / addAuthGrant stubs that accept, refuse or fail to store.
//
// Oracle = history invariants of the property statement, judged per request.
// Events are attributed to the request that is in flight. A request that is NOT
// sent ahead is written after the answer to its predecessor and one virtual
// second of silence, so attribution is exact. SEND-AHEAD (pipelining): the
// delegate may write further complete requests before it reads the outstanding
// answers - the delegate connection is a reliable byte stream, the statement
// quantifies over all sequences of requests on it and nothing in the protocol
// description ties writing a request to having read the previous answer (the
// principal "keeps the AGT open in case the Delegate would like to send more").
// Every request that was written completely is a request and must get exactly
// one answer. Inside such a group the request in flight is the one the principal
// is working on: the principal reads the delegate connection only to fetch the
// next request and writes on it only to answer, so the first Read it issues
// after a Write starts the next request of the group (c06DelegateSide); the j-th
// answer the delegate reads for a group answers its j-th request (answers carry
// no tag: they can only correspond by order).
//
// TARGET ANSWER DELAY: every target (scripted or real) may take a drawn virtual
// time (0, 1, 4, 6, 30, 120 s) before it acts on an intent communication. The
// statement puts no bound on how long an answer may take, so the delegate waits
// as long as it takes for the answers it is owed and the oracle is unchanged: a
// principal that gives up on a slow target and denies is fine, a principal that
// hands the delegate a LATE answer of the target as the answer to another
// request is not (confirmation only if the target confirmed THAT request). What a
// target does is attributed to the request whose bytes it is acting on - the
// request that was in flight when the principal wrote those bytes (c06RecConn
// keeps the byte ranges) - not to the request in flight when it gets round to it.
//
// MALFORMED REQUESTS may stand at any position of the sequence (a message the
// request parser must refuse, most of them partway through: timestamps beyond the
// representable range, a name block below its minimum size, an over-long id
// chunk, unknown / foreign message types with trailing bytes). A malformed
// message is not a request: nothing may be forwarded or confirmed for it and the
// delegate reads at most one answer to it. What becomes of the requests BEHIND a
// malformed one is not judged request by request (the statement is silent; the
// project's principal hangs up) - only the count: at no time has the delegate
// read more answers than the number of messages it has completely written.
//
// THE REAL GRANT STORE: in the real-target variant an addAuthGrant that does not fail
// hands the intent to a real AuthgrantMapSync and returns nil (what
// hopserver.HopServer.AddAuthGrant does behind its configuration checks). After the
// history the store is drained as a server does when the delegate turns up
// (RemoveAuthgrants(user, delegate key)): every confirmation the delegate read must be
// answered for by one grant that came out of the store and equals the request in type,
// validity window, delegate certificate and associated data ("... a confirmation only if
// the target accepted AND STORED the grant"). The statement sets no condition on the
// window, so the generator draws it in either order, and on purpose empty or inverted
// with both ends in the future (a target only refuses an expiry in the past).
//
// CONCURRENT INSTANCES (TestVerifC06ConcurrentInstances, see the end of the file): 2..4
// such histories, one principal instance each, at the same time in one process.

import (
	"bytes"
	"encoding/binary"
	"errors"
	"fmt"
	"io"
	"net"
	"os"
	"runtime"
	"runtime/debug"
	"strings"
	"sync"
	"sync/atomic"
	"testing"
	"testing/synctest"
	"time"

	"github.com/sirupsen/logrus"
	"pgregory.net/rapid"
	"verif.local/vlib"

	"hop.computer/hop/certs"
	"hop.computer/hop/core"
)

// ---------------------------------------------------------------------------
// case (pure data)

type c06Tgt struct {
	HostSeed uint64 `json:"hs"`
	HostLen  int    `json:"hl"` // 0..252 (documented maximum name length)
	HostType byte   `json:"ht"` // certs.IDType byte (incl. unknown values)
	HostBin  bool   `json:"hb,omitempty"`
	Port     uint16 `json:"p"`
	UserSeed uint64 `json:"us"`
	UserLen  int    `json:"ul"` // 0..255 (one-byte length prefix)
	UserBin  bool   `json:"ub,omitempty"`
}

type c06Cert struct {
	Seed    uint64 `json:"s"`
	Version byte   `json:"v"`
	Type    byte   `json:"t"`
	Issued  int64  `json:"i"`
	Expires int64  `json:"e"`
	Blocks  []int  `json:"b"` // label lengths of the id blocks (chunk <= 512 bytes)
}

const (
	c06SetupOK        = 0
	c06SetupFailEarly = 1 // fails before the handshake: the callback is never invoked
	c06SetupFailLate  = 2 // fails after the callback accepted (user authorization / tube creation)

	c06TbConfirm    = 0
	c06TbDeny       = 1
	c06TbClose      = 2 // reads the whole message, then closes
	c06TbGarbage    = 3 // reads the whole message, answers garbage, closes
	c06TbCloseEarly = 4 // closes after the first byte of the message

	c06RtAccept    = 0
	c06RtRefuse    = 1 // target checkIntent refuses
	c06RtStoreFail = 2 // addAuthGrant fails
)

type c06Req struct {
	// the intent
	Tgt     int    `json:"tgt"`
	GT      byte   `json:"gt"`
	Res     byte   `json:"res,omitempty"`
	Start   int64  `json:"st"`
	Exp     int64  `json:"ex"`
	CmdSeed uint64 `json:"cs,omitempty"`
	CmdLen  int    `json:"cl,omitempty"`
	Cert    int    `json:"cert,omitempty"`
	// the principal's decision for this request
	Approve bool `json:"ok"`
	DenyLen int  `json:"dl,omitempty"` // length of the refusal reason, 0..200
	// behaviour of the target-setup function if it is invoked for this request
	Setup int `json:"su,omitempty"`
	// behaviour of the target if this request is forwarded
	Tb     int    `json:"tb,omitempty"`
	TLen   int    `json:"tl,omitempty"` // length of the target's reason, 0..255
	GSeed  uint64 `json:"gs,omitempty"`
	GLen   int    `json:"gl,omitempty"`
	GFirst byte   `json:"gf,omitempty"`    // first garbage byte (never 3 = confirmation)
	Delay  int    `json:"delay,omitempty"` // virtual seconds the target takes before it acts on this request's intent communication (0..120)
	// 0: a well-formed request; otherwise the message written at this position is MALFORMED (kind: see c06Malformed), built from this entry's intent
	Bad int `json:"bad,omitempty"`
	// how the delegate puts this request on the wire
	Ahead bool `json:"ahead,omitempty"` // written right behind the previous request, before the outstanding answers are read (never for the first request)
	Split int  `json:"split,omitempty"` // 0: no pause; -1: the stream pauses (1 virtual ns: everybody else runs until blocked) just before this message; s>0: it pauses inside this message, after s%len bytes
}

type c06Case struct {
	Real    bool      `json:"real"` // real StartTargetInstance with stubs instead of the scripted target
	Tgts    []c06Tgt  `json:"tgts"`
	Certs   []c06Cert `json:"certs"`
	Reqs    []c06Req  `json:"reqs"`
	Trailer int       `json:"trailer,omitempty"` // 0 none; malformed message sent after the last request (kind: see c06Malformed)
	Deliv   int       `json:"deliv,omitempty"`   // how every connection hands bytes to its reader: 0 whatever is buffered; 1 one byte per Read; 2 keyed chunks of 1..7 bytes; +4: the last buffered bytes of a closed stream come together with io.EOF (as tubes do)
}

// ---------------------------------------------------------------------------
// wire model, written from the message layout (independent of messages.go)

type c06Wire struct {
	GT, Res    byte
	Port       uint16
	Start, Exp int64
	SNIType    byte
	SNI        []byte
	User       string
	Cert       []byte // serialized delegate certificate
	Cmd        string // only on the wire for grant type 2 (command)
}

func c06Text(seed uint64, n int) []byte {
	const alpha = "abcdefghijklmnopqrstuvwxyz0123456789.-_ "
	b := vlib.Fill(seed, n)
	for i := range b {
		b[i] = alpha[int(b[i])%len(alpha)]
	}
	return b
}

func c06Bytes(seed uint64, n int, bin bool) []byte {
	if bin {
		return vlib.Fill(seed, n)
	}
	return c06Text(seed, n)
}

func c06Clamp(n, lo, hi int) int {
	if n < lo {
		return lo
	}
	if n > hi {
		return hi
	}
	return n
}

func (c c06Cert) blob() []byte {
	var b bytes.Buffer
	b.Write([]byte{c.Version, c.Type, 0, 0})
	binary.Write(&b, binary.BigEndian, uint64(c.Issued))
	binary.Write(&b, binary.BigEndian, uint64(c.Expires))
	b.Write(vlib.Fill(c.Seed, 32))   // public key
	b.Write(vlib.Fill(c.Seed+1, 32)) // parent fingerprint
	var blocks bytes.Buffer
	for j, l := range c.Blocks {
		l = c06Clamp(l, 0, 252)
		if 2+blocks.Len()+3+l > 512 {
			break
		}
		blocks.Write([]byte{byte(l + 3), byte(1 + j%3), byte(l)})
		blocks.Write(c06Text(c.Seed+uint64(10+j), l))
	}
	binary.Write(&b, binary.BigEndian, uint16(2+blocks.Len()))
	b.Write(blocks.Bytes())
	b.Write(vlib.Fill(c.Seed+2, 64)) // signature
	return b.Bytes()
}

func (w c06Wire) body() []byte {
	var b bytes.Buffer
	b.Write([]byte{w.GT, w.Res})
	binary.Write(&b, binary.BigEndian, w.Port)
	binary.Write(&b, binary.BigEndian, uint64(w.Start))
	binary.Write(&b, binary.BigEndian, uint64(w.Exp))
	b.Write([]byte{byte(len(w.SNI) + 3), w.SNIType, byte(len(w.SNI))})
	b.Write(w.SNI)
	b.WriteByte(byte(len(w.User)))
	b.WriteString(w.User)
	b.Write(w.Cert)
	if w.GT == 2 {
		b.WriteByte(byte(len(w.Cmd)))
		b.WriteString(w.Cmd)
	}
	return b.Bytes()
}

// c06ReadBody reads exactly one intent body from r.
func c06ReadBody(r io.Reader) (c06Wire, error) {
	var w c06Wire
	var hdr [20]byte
	if _, err := io.ReadFull(r, hdr[:]); err != nil {
		return w, err
	}
	w.GT, w.Res = hdr[0], hdr[1]
	w.Port = binary.BigEndian.Uint16(hdr[2:4])
	w.Start = int64(binary.BigEndian.Uint64(hdr[4:12]))
	w.Exp = int64(binary.BigEndian.Uint64(hdr[12:20]))
	var nh [3]byte
	if _, err := io.ReadFull(r, nh[:]); err != nil {
		return w, err
	}
	if int(nh[0]) != int(nh[2])+3 {
		return w, fmt.Errorf("name block size %d for label length %d", nh[0], nh[2])
	}
	w.SNIType = nh[1]
	w.SNI = make([]byte, nh[2])
	if _, err := io.ReadFull(r, w.SNI); err != nil {
		return w, err
	}
	readStr := func() (string, error) {
		var l [1]byte
		if _, err := io.ReadFull(r, l[:]); err != nil {
			return "", err
		}
		s := make([]byte, l[0])
		_, err := io.ReadFull(r, s)
		return string(s), err
	}
	var err error
	if w.User, err = readStr(); err != nil {
		return w, err
	}
	fixed := make([]byte, 4+8+8+32+32+2)
	if _, err := io.ReadFull(r, fixed); err != nil {
		return w, err
	}
	cl := int(binary.BigEndian.Uint16(fixed[len(fixed)-2:]))
	if cl < 2 || cl > 512 {
		return w, fmt.Errorf("id chunk length %d", cl)
	}
	rest := make([]byte, cl-2+64)
	if _, err := io.ReadFull(r, rest); err != nil {
		return w, err
	}
	w.Cert = append(fixed, rest...)
	switch w.GT {
	case 2:
		if w.Cmd, err = readStr(); err != nil {
			return w, err
		}
	case 3, 4:
		return w, fmt.Errorf("grant type %d has no defined associated data", w.GT)
	}
	return w, nil
}

// c06Diff names the first field in which two intents differ ("" if none).
func c06Diff(a, b c06Wire) string {
	switch {
	case a.GT != b.GT:
		return "GrantType"
	case a.Res != b.Res:
		return "Reserved"
	case a.Port != b.Port:
		return "TargetPort"
	case a.Start != b.Start:
		return "StartTime"
	case a.Exp != b.Exp:
		return "ExpTime"
	case a.SNIType != b.SNIType:
		return "TargetSNI.Type"
	case !bytes.Equal(a.SNI, b.SNI):
		return "TargetSNI.Label"
	case a.User != b.User:
		return "TargetUsername"
	case !bytes.Equal(a.Cert, b.Cert):
		return "DelegateCert"
	case a.GT == 2 && a.Cmd != b.Cmd:
		return "AssociatedData.Cmd"
	}
	return ""
}

// c06FromIntent converts what a callback was shown into the comparable form.
func c06FromIntent(i Intent) c06Wire {
	w := c06Wire{GT: byte(i.GrantType), Res: i.Reserved, Port: i.TargetPort, Start: i.StartTime.Unix(), Exp: i.ExpTime.Unix(),
		SNIType: byte(i.TargetSNI.Type), SNI: append([]byte(nil), i.TargetSNI.Label...), User: i.TargetUsername,
		Cmd: i.AssociatedData.CommandGrantData.Cmd}
	dc := i.DelegateCert
	if b, err := dc.Marshal(); err == nil {
		w.Cert = b
	} else {
		w.Cert = []byte("unmarshalable: " + err.Error())
	}
	return w
}

func (c c06Case) wire(k int) c06Wire {
	r := c.Reqs[k]
	var tg c06Tgt
	if len(c.Tgts) > 0 {
		tg = c.Tgts[c06Clamp(r.Tgt, 0, len(c.Tgts)-1)]
	}
	var ce c06Cert
	if len(c.Certs) > 0 {
		ce = c.Certs[c06Clamp(r.Cert, 0, len(c.Certs)-1)]
	}
	w := c06Wire{GT: r.GT, Res: r.Res, Port: tg.Port, Start: r.Start, Exp: r.Exp, SNIType: tg.HostType,
		SNI:  c06Bytes(tg.HostSeed, c06Clamp(tg.HostLen, 0, 252), tg.HostBin),
		User: string(c06Bytes(tg.UserSeed, c06Clamp(tg.UserLen, 0, 255), tg.UserBin)),
		Cert: ce.blob()}
	if w.GT == 2 {
		w.Cmd = string(c06Text(r.CmdSeed, c06Clamp(r.CmdLen, 0, 255)))
	}
	if w.GT == 3 || w.GT == 4 { // the encoder does not permit these (unimplemented); never generated
		w.GT = 1
	}
	if w.Start < 0 {
		w.Start = 0
	}
	if w.Exp < 0 {
		w.Exp = 0
	}
	return w
}

// c06Malformed builds a message that is NOT a well-formed intent request from the
// encoding of a well-formed one (w). Every kind is refused by the request format as
// documented: times are seconds since the epoch in the signed 64-bit range, a name
// block is at least 3 bytes, an id chunk at most 512, and only message type 1 is a
// request. closeAfter: the delegate goes away right behind it (only as a trailer).
func c06Malformed(kind int, w c06Wire) (msg []byte, closeAfter bool, name string) {
	body := w.body()
	req := append([]byte{1}, body...)
	switch kind {
	case 1: // truncated intent request, then the delegate goes away
		return append([]byte{1}, body[:len(body)/2]...), true, "truncated-request"
	case 2: // a confirmation where a request is expected
		return []byte{3}, false, "confirmation-as-request"
	case 3: // a complete intent COMMUNICATION where a request is expected
		return append([]byte{2}, body...), false, "communication-as-request"
	case 4: // start time beyond the representable range (refused after 12 bytes of the message)
		req[1+4] |= 0x80
		return req, false, "timestamp-out-of-range"
	case 5: // expiry time beyond the representable range
		req[1+12] |= 0x80
		return req, false, "exp-timestamp-out-of-range"
	case 6: // target name block smaller than its own header
		req[1+20] = 2
		return req, false, "name-block-too-small"
	case 7: // id chunk of the delegate certificate longer than the maximum of 512 bytes
		off := 1 + 20 + 3 + len(w.SNI) + 1 + len(w.User) + 4 + 8 + 8 + 32 + 32
		req[off], req[off+1] = 0xff, 0xff
		return req, false, "id-chunk-too-long"
	case 8: // a message type that does not exist, with trailing bytes
		return append([]byte{9}, body...), false, "unknown-type-with-trailing-bytes"
	case 9: // a denial where a request is expected
		return append([]byte{4, 5}, "hello"...), false, "denial-as-request"
	case 10: // message type 0 / 255 with trailing bytes
		return append([]byte{255}, body...), false, "unknown-type-with-trailing-bytes"
	}
	return nil, false, ""
}

const c06MalformedKinds = 10

// trailer returns the malformed message sent after the last request.
func (c c06Case) trailer() (msg []byte, closeAfter bool, name string) {
	if len(c.Reqs) == 0 || c.Trailer == 0 {
		return nil, false, ""
	}
	return c06Malformed(c.Trailer, c.wire(len(c.Reqs)-1))
}

// message returns the bytes the delegate writes at position k: the request, or the
// malformed message that stands in its place (name != "").
func (c c06Case) message(k int) (msg []byte, name string) {
	w := c.wire(k)
	if b := c.Reqs[k].Bad; b != 0 {
		if m, _, nme := c06Malformed(b, w); m != nil && b != 1 {
			return m, nme
		}
	}
	return append([]byte{1}, w.body()...), ""
}

// firstBad returns the position of the first malformed message (len(c.Reqs) if there is none).
func (c c06Case) firstBad() int {
	for k := range c.Reqs {
		if _, name := c.message(k); name != "" {
			return k
		}
	}
	return len(c.Reqs)
}

// ---------------------------------------------------------------------------
// in-memory connection
//
// A buffered, channel-based duplex byte stream: Write never blocks (as on a
// reliable tube, which queues what it is given), Read blocks until data, close
// or the read deadline. net.Pipe is NOT used: its zero-length writes
// rendezvous with a reader, and both the real encoder (WriteString of an empty
// string as the last field of a message) and io.CopyN(…, 0) on the decoding
// side make that a deadlock that no real tube has.

type c06Half struct {
	mu      sync.Mutex
	buf     []byte
	wake    chan struct{}
	wclosed bool // the writing end was closed: reader sees EOF after the buffered bytes
	rclosed bool // the reading end was closed: writes fail
}

func (h *c06Half) poke() {
	select {
	case h.wake <- struct{}{}:
	default:
	}
}

type c06End struct {
	in, out  *c06Half
	dmu      sync.Mutex
	deadline time.Time
	deliv    int    // delivery pattern (c06Case.Deliv)
	nread    uint64 // Read calls that returned data so far (keys the chunk sizes)
}

func c06Pipe(deliv int) (*c06End, *c06End) {
	a := &c06Half{wake: make(chan struct{}, 1)}
	b := &c06Half{wake: make(chan struct{}, 1)}
	return &c06End{in: a, out: b, deliv: deliv}, &c06End{in: b, out: a, deliv: deliv}
}

func (e *c06End) Read(p []byte) (int, error) {
	if len(p) == 0 {
		return 0, nil
	}
	for {
		h := e.in
		h.mu.Lock()
		if h.rclosed {
			h.mu.Unlock()
			return 0, io.ErrClosedPipe
		}
		if len(h.buf) > 0 {
			// an io.Reader may return fewer bytes than asked for, and may return the last bytes together with io.EOF
			lim := len(p)
			switch e.deliv & 3 {
			case 1:
				lim = 1
			case 2:
				lim = 1 + int(vlib.Fill(e.nread, 1)[0])%7
			}
			if lim > len(p) {
				lim = len(p)
			}
			e.nread++
			n := copy(p[:lim], h.buf)
			h.buf = h.buf[n:]
			var err error
			if e.deliv&4 != 0 && h.wclosed && len(h.buf) == 0 {
				err = io.EOF
			}
			h.mu.Unlock()
			return n, err
		}
		if h.wclosed {
			h.mu.Unlock()
			return 0, io.EOF
		}
		h.mu.Unlock()
		e.dmu.Lock()
		dl := e.deadline
		e.dmu.Unlock()
		if dl.IsZero() {
			<-h.wake
			continue
		}
		d := time.Until(dl)
		if d <= 0 {
			return 0, os.ErrDeadlineExceeded
		}
		tm := time.NewTimer(d)
		select {
		case <-h.wake:
			tm.Stop()
		case <-tm.C:
			return 0, os.ErrDeadlineExceeded
		}
	}
}

func (e *c06End) Write(p []byte) (int, error) {
	h := e.out
	h.mu.Lock()
	defer h.mu.Unlock()
	if h.wclosed || h.rclosed {
		return 0, io.ErrClosedPipe
	}
	h.buf = append(h.buf, p...)
	h.poke()
	return len(p), nil
}

func (e *c06End) Close() error {
	e.out.mu.Lock()
	e.out.wclosed = true
	e.out.poke()
	e.out.mu.Unlock()
	e.in.mu.Lock()
	e.in.rclosed = true
	e.in.poke()
	e.in.mu.Unlock()
	return nil
}

type c06Addr struct{}

func (c06Addr) Network() string { return "c06" }
func (c06Addr) String() string  { return "c06" }

func (e *c06End) LocalAddr() net.Addr  { return c06Addr{} }
func (e *c06End) RemoteAddr() net.Addr { return c06Addr{} }
func (e *c06End) SetDeadline(t time.Time) error {
	return e.SetReadDeadline(t)
}
func (e *c06End) SetReadDeadline(t time.Time) error {
	e.dmu.Lock()
	e.deadline = t
	e.dmu.Unlock()
	return nil
}
func (e *c06End) SetWriteDeadline(time.Time) error { return nil }

// ---------------------------------------------------------------------------
// the world of one case

type c06Ev struct {
	Seq   int
	Req   int
	Kind  string // callback | setup | conn | twrite | tmsg | tact | rtcheck | rtadd | answer | reqwrite
	OK    bool
	Conn  int
	W     c06Wire
	Bytes []byte
	Note  string
}

type c06World struct {
	c      c06Case
	mu     sync.Mutex
	cur    int  // request in flight
	grpEnd int  // last request of the group that is on the wire (== cur unless requests were sent ahead)
	pWrote bool // the principal wrote on the delegate connection since it last started to read from it
	evs    []c06Ev
	// connections handed out by setup
	pEnds, tEnds []net.Conn
	spans        map[int][]c06Span // per target connection: which request was in flight when the principal wrote which bytes
	long         time.Duration     // how long the delegate waits for an answer it is owed (longer than all target delays together)
	wg           sync.WaitGroup
	panicSig     string
	panicMsg     string
	// real-target variant: the REAL grant store (the map a hop server keeps its grants in) behind the addAuthGrant function
	store *AuthgrantMapSync
	// concurrent instances only: every Write of the code under test takes a keyed 0..holdMax virtual nanoseconds before its bytes are taken
	holdSeed uint64
	holdMax  int
	nhold    uint64
}

// hold: a Write on a connection may take its time before the bytes are taken (a congested tube); until it returns the
// caller's slice belongs to the connection. Only used when several principal instances run at the same time (holdMax > 0):
// the other instances of the process run while this Write is pending.
func (w *c06World) hold() {
	if w.holdMax <= 0 {
		return
	}
	w.mu.Lock()
	n := w.nhold
	w.nhold++
	w.mu.Unlock()
	if d := int(vlib.Fill(w.holdSeed+n, 1)[0]) % (w.holdMax + 1); d > 0 {
		time.Sleep(time.Duration(d))
	}
}

// c06Span: the bytes of a target connection up to offset end (exclusive) were written while request req was in flight.
type c06Span struct {
	end int64
	req int
}

// reqOfByte returns the request that was in flight when the principal wrote byte number off of target connection idx.
func (w *c06World) reqOfByte(idx int, off int64) int {
	w.mu.Lock()
	defer w.mu.Unlock()
	for _, s := range w.spans[idx] {
		if off < s.end {
			return s.req
		}
	}
	return w.cur
}

// c06CountConn counts the bytes its reader has been handed (the target's end of a target connection).
type c06CountConn struct {
	net.Conn
	n atomic.Int64
	w *c06World // not nil: Writes (of the real target instance) may be held, see hold
}

func (c *c06CountConn) Write(p []byte) (int, error) {
	if c.w != nil {
		c.w.hold()
	}
	return c.Conn.Write(p)
}

func (c *c06CountConn) Read(p []byte) (int, error) {
	n, err := c.Conn.Read(p)
	c.n.Add(int64(n))
	return n, err
}

func (w *c06World) log(e c06Ev) {
	w.mu.Lock()
	e.Seq = len(w.evs)
	e.Req = w.cur
	w.evs = append(w.evs, e)
	w.mu.Unlock()
}

// logAt records an event for an explicitly named request (answers read by the delegate).
func (w *c06World) logAt(req int, e c06Ev) {
	w.mu.Lock()
	e.Seq = len(w.evs)
	e.Req = req
	w.evs = append(w.evs, e)
	w.mu.Unlock()
}

func (w *c06World) setCur(k int) { w.setGroup(k, k) }

// setGroup: requests first..last are about to be written back to back.
func (w *c06World) setGroup(first, last int) {
	w.mu.Lock()
	w.cur, w.grpEnd, w.pWrote = first, last, false
	w.mu.Unlock()
}

// c06DelegateSide is the principal's end of the delegate connection. The principal reads
// it only to fetch the next request and writes on it only to answer; hence, while a group
// of requests sent ahead is on the wire, its first Read after a Write means that it has
// finished one request and turns to the next one. (Without send-ahead grpEnd == cur and
// nothing changes here.)
type c06DelegateSide struct {
	net.Conn
	w *c06World
}

func (c *c06DelegateSide) Read(p []byte) (int, error) {
	c.w.mu.Lock()
	if c.w.pWrote {
		c.w.pWrote = false
		if c.w.cur < c.w.grpEnd {
			c.w.cur++
		}
	}
	c.w.mu.Unlock()
	return c.Conn.Read(p)
}

func (c *c06DelegateSide) Write(b []byte) (int, error) {
	c.w.mu.Lock()
	c.w.pWrote = true
	c.w.mu.Unlock()
	c.w.hold()
	return c.Conn.Write(b)
}

// req returns the script entry of the request in flight (the zero entry —
// refuse, confirm — while the trailer is in flight).
func (w *c06World) req() c06Req {
	w.mu.Lock()
	k := w.cur
	w.mu.Unlock()
	return w.reqN(k)
}

// reqN returns the script entry of request k; the zero entry (refuse, confirm at once) for
// the trailer and for a malformed message, which is not a request and has no script.
func (w *c06World) reqN(k int) c06Req {
	if k >= 0 && k < len(w.c.Reqs) && w.c.Reqs[k].Bad == 0 {
		return w.c.Reqs[k]
	}
	return c06Req{}
}

func (w *c06World) guard(where string, fn func()) {
	defer func() {
		if r := recover(); r != nil {
			st := string(debug.Stack())
			w.mu.Lock()
			if w.panicSig == "" {
				w.panicSig = vlib.PanicSig(r, st)
				w.panicMsg = fmt.Sprintf("%s: panic: %v", where, r)
			}
			w.mu.Unlock()
		}
	}()
	fn()
}

func c06AllStacks() string {
	buf := make([]byte, 1<<20)
	return string(buf[:runtime.Stack(buf, true)])
}

// recording wrapper around the principal's end of a target connection: every
// byte the principal ATTEMPTS to write on a target connection is observed,
// whether or not the peer is still there.
type c06RecConn struct {
	net.Conn
	w   *c06World
	idx int
}

func (c *c06RecConn) Write(b []byte) (int, error) {
	w := c.w
	w.hold() // the bytes are taken (and recorded) when the connection gets round to them
	w.mu.Lock()
	var end int64
	if sp := w.spans[c.idx]; len(sp) > 0 {
		end = sp[len(sp)-1].end
	}
	w.spans[c.idx] = append(w.spans[c.idx], c06Span{end: end + int64(len(b)), req: w.cur})
	w.mu.Unlock()
	w.log(c06Ev{Kind: "twrite", Conn: c.idx, Bytes: append([]byte(nil), b...)})
	return c.Conn.Write(b)
}

func c06Reason(prefix string, n int) string {
	s := prefix
	for len(s) < n {
		s += "-" + prefix
	}
	return s[:n]
}

// callback is the principal's approval callback (never nil: nil is documented
// as accept-all).
func (w *c06World) callback(i Intent, _ *certs.Certificate) error {
	r := w.req()
	w.log(c06Ev{Kind: "callback", OK: r.Approve, W: c06FromIntent(i)})
	if r.Approve {
		return nil
	}
	return errors.New(c06Reason("refused by principal", c06Clamp(r.DenyLen, 0, 200)))
}

// setup is the target-setup function, modelled on hopclient.setupTargetClient.
func (w *c06World) setup(u core.URL, verify AdditionalVerifyCallback) (net.Conn, error) {
	r := w.req()
	if r.Setup == c06SetupFailEarly {
		w.log(c06Ev{Kind: "setup", Note: "fail-early"})
		return nil, errors.New("c06: cannot load client configuration")
	}
	cert := &certs.Certificate{Version: 1, Type: certs.Leaf, IssuedAt: time.Unix(1, 0), ExpiresAt: time.Unix(1<<40, 0),
		IDChunk: certs.IDChunk{Blocks: []certs.Name{certs.DNSName(u.Host)}}}
	if verify != nil { // transport: runs the additional verify callback mid-handshake and fails the handshake if it fails
		if err := verify(cert); err != nil {
			w.log(c06Ev{Kind: "setup", Note: "verify-refused"})
			return nil, err
		}
	}
	if r.Setup == c06SetupFailLate {
		w.log(c06Ev{Kind: "setup", Note: "fail-late"})
		return nil, errors.New("c06: user authorization failed")
	}
	pEnd, tEnd := c06Pipe(w.c.Deliv)
	w.mu.Lock()
	idx := len(w.pEnds)
	w.pEnds = append(w.pEnds, pEnd)
	w.tEnds = append(w.tEnds, tEnd)
	w.mu.Unlock()
	w.log(c06Ev{Kind: "setup", Note: "ok", OK: true, Conn: idx})
	w.wg.Add(1)
	if w.c.Real {
		go w.realTarget(idx, tEnd)
	} else {
		go w.scriptedTarget(idx, tEnd)
	}
	return &c06RecConn{Conn: pEnd, w: w, idx: idx}, nil
}

func (w *c06World) scriptedTarget(idx int, conn net.Conn) {
	defer w.wg.Done()
	defer conn.Close()
	c := &c06CountConn{Conn: conn}
	for {
		var first [1]byte
		off := c.n.Load()
		if _, err := io.ReadFull(c, first[:]); err != nil {
			return
		}
		// the request this message belongs to: the one in flight when the principal wrote its first byte
		k := w.reqOfByte(idx, off)
		r := w.reqN(k)
		log := func(e c06Ev) { e.Conn = idx; w.logAt(k, e) }
		delay := func() {
			if d := c06Clamp(r.Delay, 0, 120); d > 0 { // a slow target (or a slow path to it)
				time.Sleep(time.Duration(d) * time.Second)
			}
		}
		if r.Tb == c06TbCloseEarly {
			delay()
			log(c06Ev{Kind: "tact", Note: "close-early"})
			return
		}
		if first[0] != 2 {
			log(c06Ev{Kind: "tact", Note: "unexpected-message-type"})
			return
		}
		body, err := c06ReadBody(c)
		if err != nil {
			log(c06Ev{Kind: "tact", Note: "unreadable-message"})
			return
		}
		log(c06Ev{Kind: "tmsg", W: body})
		delay()
		switch r.Tb {
		case c06TbDeny:
			reason := c06Reason("target says no", c06Clamp(r.TLen, 0, 255))
			log(c06Ev{Kind: "tact", Note: "deny"})
			if _, err := c.Write(append([]byte{4, byte(len(reason))}, reason...)); err != nil {
				return
			}
		case c06TbClose:
			log(c06Ev{Kind: "tact", Note: "close"})
			return
		case c06TbGarbage:
			g := append([]byte{r.GFirst}, vlib.Fill(r.GSeed, c06Clamp(r.GLen, 0, 40))...)
			if g[0] == 3 {
				g[0] = 0
			}
			log(c06Ev{Kind: "tact", Note: "garbage"})
			c.Write(g)
			return
		default:
			log(c06Ev{Kind: "tact", Note: "confirm", OK: true})
			if _, err := c.Write([]byte{3}); err != nil {
				return
			}
		}
	}
}

func (w *c06World) realTarget(idx int, conn net.Conn) {
	defer w.wg.Done()
	c := &c06CountConn{Conn: conn, w: w}
	pcert := &certs.Certificate{Version: 1, Type: certs.Leaf}
	k := 0 // the request whose intent communication the instance is working on
	ci := func(i Intent, _ *certs.Certificate) error {
		// the instance has just read a complete message: it belongs to the request in flight when its last byte was written
		k = w.reqOfByte(idx, c.n.Load()-1)
		r := w.reqN(k)
		if d := c06Clamp(r.Delay, 0, 120); d > 0 { // the target's policy check is slow
			time.Sleep(time.Duration(d) * time.Second)
		}
		ok := r.Tb%3 != c06RtRefuse
		w.logAt(k, c06Ev{Kind: "rtcheck", Conn: idx, OK: ok, W: c06FromIntent(i)})
		if !ok {
			return errors.New(c06Reason("target policy refuses", c06Clamp(r.TLen, 0, 255)))
		}
		return nil
	}
	add := func(i *Intent) error {
		r := w.reqN(k)
		ok := r.Tb%3 != c06RtStoreFail
		w.logAt(k, c06Ev{Kind: "rtadd", Conn: idx, OK: ok, W: c06FromIntent(*i)})
		if !ok {
			return errors.New(c06Reason("cannot store grant", c06Clamp(r.TLen, 0, 255)))
		}
		// as hopserver.HopServer.AddAuthGrant (the addAuthGrant function of every target instance a hop server starts) does
		// once its configuration checks have passed: hand the intent to the server's grant map and report success
		w.store.AddAuthGrant(i, PrincipalID(0))
		return nil
	}
	w.guard("StartTargetInstance", func() { StartTargetInstance(c, pcert, ci, add) })
	c.Close()
}

// drainStore empties the real grant store after the history the way a hop server does when the delegate turns up
// (hopserver.AuthorizeKeyAuthGrant: RemoveAuthgrants(user, delegate key)) - for every (user, delegate key) named by a
// request of the case - and records what comes out as "stored" events (Req -1; Note = user and key they were found under).
func (w *c06World) drainStore() {
	if w.store == nil {
		return
	}
	seen := map[string]bool{}
	for k := range w.c.Reqs {
		sent := w.c.wire(k)
		if len(sent.Cert) < 52 {
			continue
		}
		var key [32]byte
		copy(key[:], sent.Cert[20:52])
		id := c06StoreID(sent)
		if seen[id] {
			continue
		}
		seen[id] = true
		var ags []Authgrant
		w.guard("RemoveAuthgrants", func() { ags, _ = w.store.RemoveAuthgrants(sent.User, key) })
		for _, ag := range ags {
			w.logAt(-1, c06Ev{Kind: "stored", Note: id, W: c06FromIntent(Intent{GrantType: ag.GrantType, StartTime: ag.StartTime, ExpTime: ag.ExpTime,
				TargetUsername: sent.User, DelegateCert: ag.DelegateCert, AssociatedData: ag.AssociatedData})})
		}
	}
}

// c06StoreID: what a grant for this intent is filed under in the store (user and delegate key).
func c06StoreID(in c06Wire) string {
	if len(in.Cert) < 52 {
		return ""
	}
	return in.User + "\x00" + string(in.Cert[20:52])
}

// c06GrantDiff names the first field a stored grant carries (type, validity window, delegate certificate, associated
// data; it is filed under user and delegate key) in which the grant differs from an intent ("" if none).
func c06GrantDiff(g, in c06Wire) string {
	switch {
	case g.GT != in.GT:
		return "GrantType"
	case g.Start != in.Start:
		return "StartTime"
	case g.Exp != in.Exp:
		return "ExpTime"
	case !bytes.Equal(g.Cert, in.Cert):
		return "DelegateCert"
	case in.GT == 2 && g.Cmd != in.Cmd:
		return "AssociatedData.Cmd"
	}
	return ""
}

// readAnswers parses what arrives on the delegate connection until the
// connection is closed or has been silent for one (virtual) second after the
// last answer that was owed. m requests (first, first+1, ...) are outstanding:
// the j-th answer belongs to the j-th of them, anything beyond to the last. For
// an answer that is still owed the delegate waits as long as it takes (w.long
// exceeds all target delays of the case together; the statement sets no time
// limit for an answer, and the virtual clock makes waiting free).
func (w *c06World) readAnswers(c net.Conn, first, m int) {
	for n := 0; n < 8+2*m; n++ {
		req := first + min(n, m-1)
		wait := time.Second
		if n < m {
			wait = w.long
		}
		c.SetReadDeadline(time.Now().Add(wait))
		var b [1]byte
		if _, err := io.ReadFull(c, b[:]); err != nil {
			return
		}
		c.SetReadDeadline(time.Now().Add(time.Second))
		switch b[0] {
		case 3:
			w.logAt(req, c06Ev{Kind: "answer", OK: true, Note: "confirmation"})
		case 4:
			var l [1]byte
			if _, err := io.ReadFull(c, l[:]); err != nil {
				w.logAt(req, c06Ev{Kind: "answer", Note: "partial-denial"})
				return
			}
			s := make([]byte, l[0])
			if _, err := io.ReadFull(c, s); err != nil {
				w.logAt(req, c06Ev{Kind: "answer", Note: "partial-denial"})
				return
			}
			w.logAt(req, c06Ev{Kind: "answer", Note: "denial", Bytes: s})
		default:
			w.logAt(req, c06Ev{Kind: "answer", Note: fmt.Sprintf("unknown-type-%d", b[0])})
			junk := make([]byte, 4096)
			c.Read(junk)
			return
		}
	}
}

// scenario runs inside the bubble.
func (w *c06World) scenario() {
	pSide, dD := c06Pipe(w.c.Deliv) // principal's end, delegate's end
	w.long = 10 * time.Second
	for _, r := range w.c.Reqs {
		w.long += time.Duration(c06Clamp(r.Delay, 0, 120)) * time.Second
	}
	w.wg.Add(1)
	go func() {
		defer w.wg.Done()
		w.guard("StartPrincipalInstance", func() { StartPrincipalInstance(&c06DelegateSide{Conn: pSide, w: w}, w.callback, w.setup) })
		pSide.Close() // hopclient closes the delegate tube when the instance returns
	}()
	for k := 0; k < len(w.c.Reqs); {
		m := 1
		for k+m < len(w.c.Reqs) && w.c.Reqs[k+m].Ahead {
			m++
		}
		w.setGroup(k, k+m-1)
		// the byte stream of the group, cut where the script says the stream pauses
		var segs [][]byte
		var seg []byte
		flush := func() {
			if len(seg) > 0 {
				segs = append(segs, seg)
			}
			seg = nil
		}
		var ends []int // ends[j-k]: length of the group's byte stream up to the end of message j
		total := 0
		for j := k; j < k+m; j++ {
			msg, _ := w.c.message(j)
			total += len(msg)
			ends = append(ends, total)
			switch sp := w.c.Reqs[j].Split; {
			case sp < 0:
				flush()
				seg = msg
			case sp > 0:
				seg = append(seg, msg[:sp%len(msg)]...)
				flush()
				seg = append(seg, msg[sp%len(msg):]...)
			default:
				seg = append(seg, msg...)
			}
		}
		flush()
		ok := true
		written, done := 0, 0
		for i, b := range segs {
			if i > 0 {
				time.Sleep(time.Nanosecond) // everybody else runs until blocked: what was written so far arrives on its own
			}
			if _, err := dD.Write(b); err != nil {
				ok = false
			}
			if ok { // a message counts as written once its last byte has been written
				for written += len(b); done < m && ends[done] <= written; done++ {
					w.logAt(k+done, c06Ev{Kind: "reqwrite", OK: true})
				}
			}
		}
		for ; done < m; done++ {
			w.logAt(k+done, c06Ev{Kind: "reqwrite"})
		}
		w.readAnswers(dD, k, m)
		k += m
	}
	if msg, closeAfter, _ := w.c.trailer(); msg != nil {
		w.setCur(len(w.c.Reqs))
		_, err := dD.Write(msg)
		if closeAfter {
			dD.Close()
		} else {
			w.logAt(len(w.c.Reqs), c06Ev{Kind: "reqwrite", OK: err == nil})
			w.readAnswers(dD, len(w.c.Reqs), 1)
		}
	}
	w.setCur(len(w.c.Reqs) + 1)
	dD.Close()
	w.mu.Lock()
	conns := append(append([]net.Conn(nil), w.pEnds...), w.tEnds...)
	w.mu.Unlock()
	for _, c := range conns {
		c.Close()
	}
	w.wg.Wait()
}

// ---------------------------------------------------------------------------
// oracle

var c06GTNames = map[byte]string{1: "shell", 2: "command", 5: "acme"}

func c06Judge(c c06Case, evs []c06Ev, v *vlib.Verdict) {
	n := len(c.Reqs)
	connBorn := map[int]int{} // connection -> request during which setup returned it
	for _, e := range evs {
		if e.Kind == "setup" && e.OK {
			connBorn[e.Conn] = e.Req
		}
	}
	firstBad := c.firstBad()
	// real-target variant: what the drain of the real grant store handed out (each stored grant answers for one confirmation)
	var stored []c06Ev
	for _, e := range evs {
		if e.Kind == "stored" {
			stored = append(stored, e)
		}
	}
	storedUsed := make([]bool, len(stored))
	storedFor := map[int]int{} // confirmed request -> the stored grant that answers for it (-1: none)
	for _, e := range evs {
		if e.Kind != "answer" || !e.OK || e.Req < 0 || e.Req >= n || e.Req >= firstBad {
			continue
		}
		if _, ok := storedFor[e.Req]; ok {
			continue
		}
		storedFor[e.Req] = -1
		sent := c.wire(e.Req)
		for i, g := range stored {
			if !storedUsed[i] && g.Note == c06StoreID(sent) && c06GrantDiff(g.W, sent) == "" {
				storedUsed[i], storedFor[e.Req] = true, i
				break
			}
		}
	}
	for k := 0; k <= n && k <= firstBad; k++ {
		var win []c06Ev
		for _, e := range evs {
			if e.Req == k {
				win = append(win, e)
			}
		}
		if k == n || k == firstBad { // a malformed message (in place of request k, or the trailer) is not a request: nothing may be forwarded or confirmed, and it gets no or one answer
			name := ""
			if k == n {
				_, _, name = c.trailer()
			} else {
				_, name = c.message(k)
			}
			nans := 0
			var kinds []string
			for _, e := range win {
				if e.Kind == "twrite" {
					v.Failf("C06:forwarded-malformed-request:"+name, "after the malformed message %q (position %d of %d) the principal wrote %d bytes on target connection %d", name, k, n, len(e.Bytes), e.Conn)
					return
				}
				if e.Kind == "answer" && e.OK {
					v.Failf("C06:confirmed-malformed-request:"+name, "the malformed message %q (position %d of %d) was answered with a confirmation", name, k, n)
					return
				}
				if e.Kind == "answer" {
					nans++
					kinds = append(kinds, e.Note+"("+string(e.Bytes)+")")
				}
			}
			if first, m := c06GroupAt(c, k); nans > 1 && k == first+m-1 {
				// (answers beyond the group size are booked on the last message of a group: only there is the count per message exact)
				v.Failf("C06:answered-more-than-once:malformed-request:"+name, "the delegate wrote ONE malformed message (%q, position %d of %d) and read %d answers to it before one second of silence: %s",
					name, k, n, nans, strings.Join(kinds, ", "))
				return
			}
			if name != "" {
				v.Labelf("malformed-request:answers=%d", min(nans, 2))
			}
			continue
		}
		sent := c.wire(k)
		// ---- classification of the request from the recorded history
		refused, asked, setupCalled, setupFailed := false, false, false, false
		tConfirmed, tDenied, tRefused, tStoreFailed := false, false, false, false
		for _, e := range win {
			switch e.Kind {
			case "callback":
				asked = true
				if !e.OK {
					refused = true
				}
			case "setup":
				setupCalled = true
				if !e.OK {
					setupFailed = true
				}
			case "tact":
				if e.Note == "confirm" {
					tConfirmed = true
				}
				if e.Note == "deny" {
					tDenied = true
				}
			case "rtcheck":
				if !e.OK {
					tRefused = true
				}
			case "rtadd":
				if e.OK {
					tConfirmed = true
				} else {
					tStoreFailed = true
				}
			}
		}
		path := "connected-target"
		if setupCalled {
			path = "new-target"
		}
		class := "approved:target-failed"
		switch {
		case refused:
			class = "refused"
		case !asked:
			class = "not-asked"
		case setupFailed:
			class = "approved:setup-failed"
		case tConfirmed:
			class = "approved:target-confirmed"
		case tDenied, tRefused:
			class = "approved:target-denied"
		case tStoreFailed:
			class = "approved:target-store-failed"
		}
		// ---- (i) + (ii): nothing reaches a target connection without a prior accepting callback
		perConn := map[int][]byte{}
		var connOrder []int
		var shown *c06Wire
		for i := range win {
			e := &win[i]
			if e.Kind == "callback" && e.OK && shown == nil {
				shown = &e.W
			}
			if e.Kind != "twrite" {
				continue
			}
			p := "connected-target"
			if connBorn[e.Conn] == k {
				p = "new-target"
			}
			if refused {
				v.Failf("C06:forwarded-without-approval:refused:"+p, "request %d of decisions %s: the approval callback refused, yet the principal wrote on target connection %d (%s)",
					k, c06Decisions(c), e.Conn, c06Aftermath(win, sent))
				return
			}
			if shown == nil {
				v.Failf("C06:forwarded-without-approval:not-asked:"+p, "request %d of decisions %s: the principal wrote on target connection %d before any accepting callback invocation for this request (%s)",
					k, c06Decisions(c), e.Conn, c06Aftermath(win, sent))
				return
			}
			if _, ok := perConn[e.Conn]; !ok {
				connOrder = append(connOrder, e.Conn)
			}
			perConn[e.Conn] = append(perConn[e.Conn], e.Bytes...)
		}
		// ---- (i): what is forwarded equals what was approved and what was requested
		want := append([]byte{2}, sent.body()...)
		for _, ci := range connOrder {
			b := perConn[ci]
			for len(b) > 0 {
				if bytes.HasPrefix(b, want) {
					b = b[len(want):]
					if d := c06Diff(sent, *shown); d != "" {
						v.Failf("C06:forwarded-intent-differs:"+d, "request %d: forwarded intent (= the request) differs in %s from what the callback approved: forwarded %s, approved %s", k, d, sent.show(d), shown.show(d))
						return
					}
					continue
				}
				if bytes.HasPrefix(want, b) { // a forward cut short by a target that went away
					break
				}
				if b[0] != 2 {
					v.Failf("C06:forwarded-intent-differs:message-type", "request %d: the principal wrote message type %d on the target connection", k, b[0])
					return
				}
				rd := bytes.NewReader(b[1:])
				got, err := c06ReadBody(rd)
				if err != nil {
					v.Failf("C06:forwarded-intent-differs:undecodable", "request %d: bytes on the target connection are neither the requested intent nor decodable: %v", k, err)
					return
				}
				if d := c06Diff(got, *shown); d != "" {
					v.Failf("C06:forwarded-intent-differs:"+d, "request %d: forwarded intent differs in %s from what the callback approved: forwarded %s, approved %s", k, d, got.show(d), shown.show(d))
					return
				}
				if d := c06Diff(got, sent); d != "" {
					v.Failf("C06:forwarded-intent-differs-from-request:"+d, "request %d: forwarded intent differs in %s from what the delegate sent: forwarded %s, sent %s", k, d, got.show(d), sent.show(d))
					return
				}
				v.Label("forward:other-encoding-same-fields")
				b = b[len(b)-rd.Len():]
			}
		}
		// ---- (iii): exactly one answer
		var answers []c06Ev
		for _, e := range win {
			if e.Kind == "answer" {
				answers = append(answers, e)
			}
		}
		if len(answers) != 1 {
			var kinds []string
			for _, a := range answers {
				kinds = append(kinds, a.Note+"("+string(a.Bytes)+")")
			}
			how, sfx := "", ""
			if first, m := c06Group(c, k); m > 1 {
				// answers correspond to the requests of a group by order; name the situation, not the position
				sfx = ":sent-ahead"
				how = fmt.Sprintf("; requests %d..%d were written back to back before any of their answers was read (answers are matched in order)", first, first+m-1)
			}
			v.Failf(fmt.Sprintf("C06:answers-per-request:%d:%s:%s%s", len(answers), class, path, sfx), "request %d (%s, %s): the delegate read %d answers before one second of silence: %s%s",
				k, class, path, len(answers), strings.Join(kinds, ", "), how)
			return
		}
		a := answers[0]
		if a.Note != "confirmation" && a.Note != "denial" {
			v.Failf("C06:answer-malformed:"+class, "request %d (%s): answer is %s", k, class, a.Note)
			return
		}
		// ---- (iv): a confirmation only if the target confirmed (and stored) this request
		if a.OK && !tConfirmed {
			v.Failf("C06:confirmed-without-target-confirmation:"+class, "request %d (%s, %s): the delegate was told 'confirmed' but the target did not confirm this request", k, class, path)
			return
		}
		if a.OK && (refused || !asked) {
			v.Failf("C06:confirmed-without-approval:"+class, "request %d (%s, %s): the delegate was told 'confirmed' for a request the callback did not accept", k, class, path)
			return
		}
		// ---- (iv), real target with the real grant store: "... only if the target accepted AND STORED the grant" - a
		// grant for this intent (type, window, delegate certificate, associated data, filed under its user and delegate key)
		// must come out of the store when the delegate turns up; one stored grant answers for one confirmation
		if a.OK && c.Real {
			window := "ordinary-window"
			switch {
			case sent.Start == sent.Exp:
				window = "empty-window"
			case sent.Start > sent.Exp:
				window = "inverted-window"
			}
			if i, ok := storedFor[k]; !ok || i < 0 {
				// a grant filed under this user and key that answers for no confirmed request: stored, but not as confirmed
				what := "absent"
				for i, g := range stored {
					if !storedUsed[i] && g.Note == c06StoreID(sent) {
						what = "differs:" + c06GrantDiff(g.W, sent)
						break
					}
				}
				v.Failf("C06:confirmed-but-grant-not-in-store:"+what, "request %d (%s, %s, %s: start %d, expiry %d): the delegate was told 'confirmed' (the target's addAuthGrant returned nil), but draining the target's grant store for this user and delegate key does not yield a grant for this intent (%d grants came out of the store in all)",
					k, class, path, window, sent.Start, sent.Exp, len(stored))
				return
			}
			v.Label("store:confirmed-grant-found:" + window)
		}
		v.Label("answer:" + a.Note)
		v.Label("class:" + class + ":" + path)
	}
	// ---- (iii), whole connection: answers correspond to requests, so at no time has the delegate read more
	// answers than the number of messages it has completely written (well formed or not). This is all that is
	// judged about the messages behind a malformed one.
	written, read := 0, 0
	for _, e := range evs {
		switch {
		case e.Kind == "reqwrite" && e.OK:
			written++
		case e.Kind == "answer" && (e.Note == "confirmation" || e.Note == "denial"):
			read++
			if read > written {
				sfx := ""
				if firstBad < n {
					_, name := c.message(firstBad)
					sfx = ":after-malformed-request:" + name
				} else if _, _, name := c.trailer(); name != "" && e.Req == n {
					sfx = ":after-malformed-request:" + name
				}
				v.Failf("C06:more-answers-than-requests"+sfx, "the delegate has completely written %d messages on the connection and has read %d answers (the surplus one while request %d of %d was the last one written)", written, read, e.Req, n)
				return
			}
		}
	}
}

// c06GroupAt is c06Group for positions 0..len(c.Reqs) (the trailer is a group of its own).
func c06GroupAt(c c06Case, k int) (first, m int) {
	if k >= len(c.Reqs) {
		return k, 1
	}
	return c06Group(c, k)
}

// c06Group returns the first request and the size of the send-ahead group request k belongs to.
func c06Group(c c06Case, k int) (first, m int) {
	first = k
	for first > 0 && c.Reqs[first].Ahead {
		first--
	}
	m = 1
	for first+m < len(c.Reqs) && c.Reqs[first+m].Ahead {
		m++
	}
	return first, m
}

func c06Decisions(c c06Case) string {
	b := make([]byte, len(c.Reqs))
	for k, r := range c.Reqs {
		b[k] = 'D'
		if r.Approve {
			b[k] = 'A'
		}
	}
	return string(b)
}

// c06Aftermath summarises, for a violation report, what the unapproved write led to.
func c06Aftermath(win []c06Ev, sent c06Wire) string {
	nbytes := 0
	var parts []string
	for _, e := range win {
		switch e.Kind {
		case "twrite":
			nbytes += len(e.Bytes)
		case "tmsg", "rtcheck":
			if c06Diff(e.W, sent) == "" {
				parts = append(parts, "the target received the complete requested intent")
			} else {
				parts = append(parts, "the target received an intent")
			}
		case "rtadd":
			if e.OK {
				parts = append(parts, "the real target instance stored the grant")
			}
		case "tact":
			parts = append(parts, "target script: "+e.Note)
		case "answer":
			parts = append(parts, "delegate was answered: "+e.Note)
		}
	}
	return fmt.Sprintf("%d bytes written; %s", nbytes, strings.Join(parts, "; "))
}

func (w c06Wire) show(field string) string {
	switch field {
	case "GrantType":
		return fmt.Sprint(w.GT)
	case "Reserved":
		return fmt.Sprint(w.Res)
	case "TargetPort":
		return fmt.Sprint(w.Port)
	case "StartTime":
		return fmt.Sprint(w.Start)
	case "ExpTime":
		return fmt.Sprint(w.Exp)
	case "TargetSNI.Type":
		return fmt.Sprint(w.SNIType)
	case "TargetSNI.Label":
		return fmt.Sprintf("%q", c06Short(w.SNI))
	case "TargetUsername":
		return fmt.Sprintf("%q", c06Short([]byte(w.User)))
	case "DelegateCert":
		return fmt.Sprintf("%d bytes %x...", len(w.Cert), c06Short(w.Cert))
	case "AssociatedData.Cmd":
		return fmt.Sprintf("%q", c06Short([]byte(w.Cmd)))
	}
	return "?"
}

func c06Short(b []byte) []byte {
	if len(b) > 24 {
		return b[:24]
	}
	return b
}

// c06Classify labels the case from its script and from the recorded history.
func c06Classify(c c06Case, evs []c06Ev, v *vlib.Verdict) {
	if c.Real {
		v.Label("variant:real-target")
	} else {
		v.Label("variant:scripted-target")
	}
	v.Labelf("requests=%d", len(c.Reqs))
	dec := make([]byte, len(c.Reqs))
	approves, denies := 0, 0
	firstBad := c.firstBad()
	for k, r := range c.Reqs {
		switch {
		case k == firstBad:
			dec[k] = 'M' // malformed message: not a request, no decision
		case k > firstBad:
			dec[k] = '-' // behind a malformed message: not judged request by request
		case r.Approve:
			dec[k] = 'A'
			approves++
		default:
			dec[k] = 'D'
			denies++
		}
	}
	v.Label("decisions:" + string(dec))
	targetFailure := false
	connected := false
	seen := map[string]bool{}
	once := func(l string) {
		if !seen[l] {
			seen[l] = true
			v.Label(l)
		}
	}
	key := []string{fmt.Sprint(c.Real), fmt.Sprint(c.Trailer)}
	perReq := make([][]string, len(c.Reqs)+2)
	for _, e := range evs {
		var l string
		switch e.Kind {
		case "callback":
			if connected {
				if e.OK {
					once("callback:approve-on-connected-target")
				} else {
					once("callback:refuse-on-connected-target")
				}
			} else {
				if e.OK {
					once("callback:approve-in-setup")
				} else {
					once("callback:refuse-in-setup")
				}
			}
			l = "cb" + map[bool]string{true: "+", false: "-"}[e.OK]
		case "setup":
			once("setup:" + e.Note)
			if e.OK {
				connected = true
			} else if e.Note != "verify-refused" {
				targetFailure = true
			}
			l = "su:" + e.Note
		case "tact":
			once("target:" + e.Note)
			if e.Note != "confirm" && e.Note != "deny" {
				targetFailure = true
			}
			l = "t:" + e.Note
		case "rtcheck":
			if !e.OK {
				once("real-target:checkIntent-refuses")
				l = "rt:refuse"
			}
		case "rtadd":
			if e.OK {
				once("real-target:stored")
				l = "rt:stored"
			} else {
				once("real-target:store-fails")
				targetFailure = true
				l = "rt:store-fails"
			}
		}
		if l != "" && e.Req < len(perReq) {
			perReq[e.Req] = append(perReq[e.Req], l)
		}
	}
	if firstBad < len(c.Reqs) {
		_, name := c.message(firstBad)
		v.Label("malformed-request:" + name)
		switch {
		case len(c.Reqs) == 1:
			v.Label("malformed-request:position:only")
		case firstBad == 0:
			v.Label("malformed-request:position:first")
		case firstBad == len(c.Reqs)-1:
			v.Label("malformed-request:position:last")
		default:
			v.Label("malformed-request:position:middle")
		}
		if c.Reqs[firstBad].Ahead || (firstBad+1 < len(c.Reqs) && c.Reqs[firstBad+1].Ahead) {
			v.Label("malformed-request:in-send-ahead-group")
		}
		key = append(key, fmt.Sprintf("bad%d@%d", c.Reqs[firstBad].Bad, firstBad))
	}
	// a slow target: the delay counts where an intent communication reached a target
	slowSeen := false
	for k := 0; k < firstBad; k++ {
		forwarded := false
		for _, l := range perReq[k] {
			if strings.HasPrefix(l, "t:") || strings.HasPrefix(l, "rt:") {
				forwarded = true
			}
		}
		d := c06Clamp(c.Reqs[k].Delay, 0, 120)
		if slowSeen && forwarded {
			once("target-delay:request-follows-a-slow-answer")
		}
		if forwarded && d > 0 {
			v.Labelf("target-delay:%ds", d)
			if d > 5 {
				slowSeen = true
			}
			perReq[k] = append(perReq[k], fmt.Sprintf("d%d", d))
		}
	}
	for k := range c.Reqs {
		w := c.wire(k)
		if k > firstBad {
			key = append(key, "-")
			continue
		}
		if nme, ok := c06GTNames[w.GT]; ok {
			once("grant:" + nme)
		} else {
			once("grant:unknown-value")
		}
		if len(w.SNI) == 252 || len(w.User) == 255 || (w.GT == 2 && len(w.Cmd) == 255) || len(w.Cert) == 660 {
			once("field-at-framing-limit")
		}
		if k > 0 && c06Diff(w, c.wire(k-1)) == "" {
			once("repeated-identical-intent")
		}
		switch {
		case w.Start == w.Exp && w.Start > c06BubbleEpoch+3600:
			once("window:empty-in-the-future")
		case w.Start > w.Exp && w.Exp > c06BubbleEpoch+3600:
			once("window:inverted-in-the-future")
		case w.Start >= w.Exp:
			once("window:empty-or-inverted-other")
		}
		if k > 0 && c.Reqs[k].Tgt != c.Reqs[k-1].Tgt && len(c.Tgts) > 1 {
			once("target-changes")
		}
		how := ""
		if k > 0 && c.Reqs[k].Ahead {
			how = ">" // written right behind its predecessor
			once("send-ahead")
			if first, m := c06Group(c, k); k == first+m-1 {
				v.Labelf("send-ahead:group-of-%d", m)
			}
			switch {
			case !c.Reqs[k-1].Approve && c.Reqs[k].Approve:
				once("send-ahead:approved-behind-refused")
			case c.Reqs[k-1].Approve && !c.Reqs[k].Approve:
				once("send-ahead:refused-behind-approved")
			}
		}
		switch sp := c.Reqs[k].Split; {
		case sp < 0 && how != "":
			how += "|"
			once("stream-pause:between-requests-sent-ahead")
		case sp > 0:
			how += "~"
			once("stream-pause:inside-a-request")
		}
		key = append(key, fmt.Sprintf("%s%c%d[%s]", how, dec[k], c.Reqs[k].Tgt, strings.Join(perReq[k], ",")))
	}
	if name := func() string { _, _, n := c.trailer(); return n }(); name != "" {
		v.Label("trailer:" + name)
	}
	mixed := len(c.Reqs) >= 2 && approves > 0 && denies > 0
	if mixed {
		v.Label("mixed-decisions")
	}
	if targetFailure {
		v.Label("target-failure")
	}
	v.NonTrivial = mixed || targetFailure
	v.Key = strings.Join(key, "|")
}

// ---------------------------------------------------------------------------
// run

func c06RunWith(t *testing.T, c c06Case, v *vlib.Verdict) {
	if len(c.Reqs) == 0 || len(c.Reqs) > 6 {
		v.Discard = true
		return
	}
	w := &c06World{c: c, spans: map[int][]c06Span{}}
	if c.Real {
		w.store = NewAuthgrantMapSync()
	}
	done := make(chan string, 1)
	go func() {
		var res string
		defer func() {
			if r := recover(); r != nil {
				res = fmt.Sprint(r)
			}
			done <- res
		}()
		synctest.Test(t, func(*testing.T) { w.scenario() })
	}()
	tm := time.NewTimer(60 * time.Second) // real-time watchdog (a case takes well under 0.1 s)
	defer tm.Stop()
	select {
	case res := <-done:
		if res != "" {
			v.Inconclusive = "bubble ended abnormally: " + res
			return
		}
	case <-tm.C:
		fmt.Fprintf(os.Stderr, "VERIF-MACHINERY C06: bubble hung in real time\n%s\n", c06AllStacks())
		os.Exit(3)
	}
	w.drainStore()
	w.mu.Lock()
	evs := append([]c06Ev(nil), w.evs...)
	psig, pmsg := w.panicSig, w.panicMsg
	w.mu.Unlock()
	c06Classify(c, evs, v)
	if psig != "" {
		v.Failf(psig, "%s", pmsg)
		return
	}
	c06Judge(c, evs, v)
}

// ---------------------------------------------------------------------------
// generator

var c06Times = []int64{0, 1, 1 << 31, 1<<31 - 1, 1 << 32, 1700000000, 1800000000, 1<<62 + 12345, 1<<63 - 1}

func c06DrawLen(t *rapid.T, label string, max int) int {
	switch rapid.IntRange(0, 4).Draw(t, label+"-kind") {
	case 0:
		return rapid.SampledFrom([]int{0, 1, max - 1, max}).Draw(t, label+"-edge")
	case 1:
		return rapid.IntRange(0, max).Draw(t, label+"-any")
	default:
		return rapid.IntRange(0, min(max, 24)).Draw(t, label+"-small")
	}
}

func c06DrawTime(t *rapid.T, label string) int64 {
	if rapid.Bool().Draw(t, label+"-edge") {
		return rapid.SampledFrom(c06Times).Draw(t, label)
	}
	return rapid.Int64Range(0, 1<<63-1).Draw(t, label+"-any")
}

// c06BubbleEpoch: the virtual clock of a synctest bubble starts at 2000-01-01 00:00:00 UTC.
const c06BubbleEpoch = 946684800

// c06DrawFuture draws a time after everything the virtual clock of a case reaches.
func c06DrawFuture(t *rapid.T, label string) int64 {
	if rapid.Bool().Draw(t, label+"-edge") {
		return rapid.SampledFrom([]int64{c06BubbleEpoch + 86400, 1 << 31, 1 << 32, 1700000000, 1800000000, 1<<62 + 12345, 1<<63 - 86401}).Draw(t, label)
	}
	return rapid.Int64Range(c06BubbleEpoch+86400, 1<<63-86401).Draw(t, label+"-any")
}

func c06Gen(t *rapid.T) c06Case {
	var c c06Case
	c.Real = rapid.IntRange(0, 3).Draw(t, "variant") == 0
	nt := rapid.SampledFrom([]int{1, 1, 2, 3}).Draw(t, "ntargets")
	for i := 0; i < nt; i++ {
		tg := c06Tgt{
			HostSeed: rapid.Uint64Range(0, 1<<20).Draw(t, "hostseed"),
			HostLen:  c06DrawLen(t, "hostlen", 252),
			HostType: rapid.SampledFrom([]byte{1, 1, 1, 0, 2, 3, 4, 255}).Draw(t, "hosttype"),
			HostBin:  rapid.IntRange(0, 4).Draw(t, "hostbin") == 0,
			Port:     rapid.SampledFrom([]uint16{77, 7777, 0, 1, 22, 255, 256, 65535}).Draw(t, "port"),
			UserSeed: rapid.Uint64Range(0, 1<<20).Draw(t, "userseed"),
			UserLen:  c06DrawLen(t, "userlen", 255),
			UserBin:  rapid.IntRange(0, 4).Draw(t, "userbin") == 0,
		}
		if rapid.IntRange(0, 3).Draw(t, "anyport") == 0 {
			tg.Port = rapid.Uint16().Draw(t, "port-any")
		}
		// a second/third target often differs from the first in one component only
		if i > 0 && rapid.Bool().Draw(t, "near") {
			base := c.Tgts[0]
			switch rapid.IntRange(0, 2).Draw(t, "near-what") {
			case 0:
				base.Port = tg.Port
			case 1:
				base.UserSeed, base.UserLen = tg.UserSeed, tg.UserLen
			default:
				base.HostSeed, base.HostLen = tg.HostSeed, tg.HostLen
			}
			tg = base
		}
		c.Tgts = append(c.Tgts, tg)
	}
	nc := rapid.IntRange(1, 2).Draw(t, "ncerts")
	for i := 0; i < nc; i++ {
		ce := c06Cert{
			Seed:    rapid.Uint64Range(0, 1<<20).Draw(t, "certseed"),
			Version: rapid.SampledFrom([]byte{1, 1, 1, 0, 2, 255}).Draw(t, "certversion"),
			Type:    rapid.SampledFrom([]byte{1, 1, 1, 2, 3, 0, 9}).Draw(t, "certtype"),
			Issued:  c06DrawTime(t, "issued"),
			Expires: c06DrawTime(t, "expires"),
		}
		switch rapid.IntRange(0, 5).Draw(t, "certblocks") {
		case 0:
			ce.Blocks = []int{}
		case 1:
			ce.Blocks = []int{252, 252} // 2+255+255 = 512: the largest id chunk, a 660-byte certificate
		case 2:
			ce.Blocks = rapid.SliceOfN(rapid.IntRange(0, 60), 2, 4).Draw(t, "blocks")
		default:
			ce.Blocks = []int{rapid.IntRange(0, 40).Draw(t, "block")}
		}
		c.Certs = append(c.Certs, ce)
	}
	n := rapid.IntRange(1, 6).Draw(t, "nreq")
	prev := 0
	for k := 0; k < n; k++ {
		var r c06Req
		r.Tgt = prev
		if nt > 1 && rapid.IntRange(0, 3).Draw(t, "switch-target") == 0 {
			r.Tgt = rapid.IntRange(0, nt-1).Draw(t, "tgt")
		}
		prev = r.Tgt
		r.GT = rapid.SampledFrom([]byte{1, 1, 2, 2, 2, 5, 0, 6, 128, 255}).Draw(t, "granttype")
		if rapid.IntRange(0, 5).Draw(t, "res") == 0 {
			r.Res = rapid.Byte().Draw(t, "reserved")
		}
		r.Start = c06DrawTime(t, "start")
		r.Exp = c06DrawTime(t, "exp")
		// the validity window: as drawn (any order), or on purpose empty / inverted with both ends in the future (a target
		// only refuses an expiry in the past), or the one the project's own delegate asks for (now .. now + 1 min)
		switch rapid.IntRange(0, 9).Draw(t, "window") {
		case 0:
			r.Start = c06DrawFuture(t, "window-at")
			r.Exp = r.Start
		case 1:
			r.Exp = c06DrawFuture(t, "window-exp")
			r.Start = r.Exp + rapid.SampledFrom([]int64{1, 1, 60, 86400}).Draw(t, "window-by")
		case 2:
			a, b := c06DrawFuture(t, "window-a"), c06DrawFuture(t, "window-b")
			if a < b {
				a, b = b, a
			}
			r.Start, r.Exp = a, b
		case 3:
			r.Start = c06BubbleEpoch + rapid.Int64Range(0, 600).Draw(t, "window-now")
			r.Exp = r.Start + 60
		}
		if r.GT == 2 {
			r.CmdSeed = rapid.Uint64Range(0, 1<<20).Draw(t, "cmdseed")
			r.CmdLen = c06DrawLen(t, "cmdlen", 255)
		}
		r.Cert = rapid.IntRange(0, nc-1).Draw(t, "cert")
		// an exact repetition of the previous request (same intent, fresh decision)
		if k > 0 && rapid.IntRange(0, 5).Draw(t, "repeat") == 0 {
			p := c.Reqs[k-1]
			r.Tgt, r.GT, r.Res, r.Start, r.Exp, r.CmdSeed, r.CmdLen, r.Cert = p.Tgt, p.GT, p.Res, p.Start, p.Exp, p.CmdSeed, p.CmdLen, p.Cert
		}
		r.Approve = rapid.IntRange(0, 9).Draw(t, "approve") < 6
		if !r.Approve {
			r.DenyLen = c06DrawLen(t, "denylen", 200)
		}
		r.Setup = rapid.SampledFrom([]int{0, 0, 0, 0, 0, 0, 0, 0, 0, 0, 0, 0, 1, 2, 2}).Draw(t, "setup")
		if c.Real {
			r.Tb = rapid.SampledFrom([]int{0, 0, 0, 1, 2}).Draw(t, "realtarget")
		} else {
			r.Tb = rapid.SampledFrom([]int{0, 0, 0, 0, 0, 1, 1, 2, 3, 4}).Draw(t, "target")
		}
		if r.Tb != 0 {
			r.TLen = c06DrawLen(t, "treasonlen", 255)
		}
		if !c.Real && r.Tb == c06TbGarbage {
			r.GSeed = rapid.Uint64Range(0, 1<<20).Draw(t, "gseed")
			r.GLen = rapid.IntRange(0, 40).Draw(t, "glen")
			r.GFirst = rapid.SampledFrom([]byte{0, 1, 2, 4, 4, 5, 255}).Draw(t, "gfirst")
		}
		c.Reqs = append(c.Reqs, r)
	}
	// how long the targets take to act on an intent communication (virtual seconds): in most cases at once;
	// otherwise a drawn delay per request, short or far beyond any patience an implementation might have
	if rapid.IntRange(0, 2).Draw(t, "slow-targets") == 0 {
		for k := 0; k < n; k++ {
			c.Reqs[k].Delay = rapid.SampledFrom([]int{0, 0, 1, 4, 6, 6, 30, 120}).Draw(t, "target-delay")
		}
	}
	// how the requests are put on the wire: strictly request / answer / request (as the
	// project's own delegate does), some of them sent ahead, or all in one go; and where
	// the byte stream pauses
	switch ahead := rapid.SampledFrom([]int{0, 0, 1, 1, 2}).Draw(t, "send-ahead"); ahead {
	case 1:
		for k := 1; k < n; k++ {
			c.Reqs[k].Ahead = rapid.Bool().Draw(t, "ahead")
		}
	case 2:
		for k := 1; k < n; k++ {
			c.Reqs[k].Ahead = true
		}
	}
	for k := 0; k < n; k++ {
		switch rapid.IntRange(0, 7).Draw(t, "pause") {
		case 0:
			c.Reqs[k].Split = -1
		case 1:
			c.Reqs[k].Split = rapid.IntRange(1, 800).Draw(t, "split")
		}
	}
	if rapid.IntRange(0, 4).Draw(t, "has-trailer") == 0 {
		c.Trailer = rapid.IntRange(1, c06MalformedKinds).Draw(t, "trailer")
	}
	// a malformed message in place of one of the requests, at any position (the trailer covers "behind the last one")
	if rapid.IntRange(0, 7).Draw(t, "has-malformed") == 0 {
		c.Reqs[rapid.IntRange(0, n-1).Draw(t, "malformed-at")].Bad = rapid.IntRange(2, c06MalformedKinds).Draw(t, "malformed-kind")
	}
	c.Deliv = rapid.SampledFrom([]int{0, 0, 0, 1, 2, 2, 4, 5, 6}).Draw(t, "delivery")
	return c
}

// ---------------------------------------------------------------------------
// self-test of the harness's own encoder/decoder (never a violation)

func c06SelfTest(t *testing.T) {
	w := c06Wire{GT: 2, Res: 0, Port: 0x1e61, Start: 1, Exp: 0x0102030405060708, SNIType: 1, SNI: []byte("ab"), User: "u",
		Cert: c06Cert{Seed: 7, Version: 1, Type: 1, Issued: 5, Expires: 6, Blocks: []int{3}}.blob(), Cmd: "ls"}
	b := w.body()
	head := []byte{2, 0, 0x1e, 0x61, 0, 0, 0, 0, 0, 0, 0, 1, 1, 2, 3, 4, 5, 6, 7, 8, 5, 1, 2, 'a', 'b', 1, 'u', 1, 1, 0, 0}
	if !bytes.HasPrefix(b, head) || !bytes.HasSuffix(b, []byte{2, 'l', 's'}) || len(b) != 20+5+2+(84+2+6+64)+3 {
		t.Fatalf("VERIF-MACHINERY C06 encoder self-test failed: % x", b)
	}
	for _, c := range []c06Case{
		{Tgts: []c06Tgt{{HostLen: 252, HostType: 0, UserLen: 255, Port: 65535}}, Certs: []c06Cert{{Blocks: []int{252, 252}}}, Reqs: []c06Req{{GT: 2, CmdLen: 255, Exp: 1<<63 - 1}}},
		{Tgts: []c06Tgt{{}}, Certs: []c06Cert{{}}, Reqs: []c06Req{{GT: 0}}},
		{Tgts: []c06Tgt{{HostBin: true, HostLen: 9, UserBin: true, UserLen: 3}}, Certs: []c06Cert{{Blocks: []int{0, 1, 2}}}, Reqs: []c06Req{{GT: 255, Res: 9}}},
	} {
		x := c.wire(0)
		enc := x.body()
		rd := bytes.NewReader(append(append([]byte(nil), enc...), 0xEE))
		y, err := c06ReadBody(rd)
		if err != nil || c06Diff(x, y) != "" || rd.Len() != 1 {
			t.Fatalf("VERIF-MACHINERY C06 decoder self-test failed: err=%v diff=%q rest=%d", err, c06Diff(x, y), rd.Len())
		}
	}
	if len((c06Cert{Blocks: []int{252, 252}}).blob()) != 660 {
		t.Fatalf("VERIF-MACHINERY C06 certificate blob self-test failed")
	}
}

func TestVerifC06Histories(t *testing.T) {
	logrus.SetOutput(io.Discard)
	logrus.SetLevel(logrus.PanicLevel)
	c06SelfTest(t)
	vlib.Drive(t, vlib.Spec[c06Case]{ID: "C06", Quick: 120000, Gen: c06Gen,
		Run: func(c c06Case, v *vlib.Verdict) { c06RunWith(t, c, v) }})
}

// ---------------------------------------------------------------------------
// several principal instances at the same time
//
// A principal process serves every delegate connection with an instance of its own, all at the same time
// (hopclient.HandleTubes starts one goroutine per authorization-grant tube). The statement is about each delegate
// connection: whatever the other instances of the process are doing, an instance forwards what ITS callback approved
// for ITS request and relays what ITS target answered. 2..4 complete histories (each with its own delegate connection,
// callback, setup function and targets) run in one bubble; they are released together by the virtual clock (instances
// with the same start offset run in parallel on real threads, the others a few virtual nanoseconds apart), and every
// Write the code under test issues on a connection may be HELD for a keyed 0..HoldMax virtual nanoseconds before the
// connection takes the bytes (a Write may block for as long as it likes; until it returns the slice is the caller's
// promise) - so the writes of one instance are pending while the others read, decide, serialise and write. Each instance
// is then judged on its own by the oracle of the single-connection histories.

type c06Inst struct {
	Case     c06Case `json:"case"`
	StartNs  int     `json:"start,omitempty"` // virtual nanoseconds after the common release at which this instance's delegate begins
	HoldSeed uint64  `json:"hseed,omitempty"`
	HoldMax  int     `json:"hmax,omitempty"` // every Write of this instance's principal / real target is held keyed 0..HoldMax virtual ns (0: never)
}

type c06ConcCase struct {
	Insts []c06Inst `json:"insts"`
}

func c06ConcRun(t *testing.T, cc c06ConcCase, v *vlib.Verdict) {
	if len(cc.Insts) < 2 || len(cc.Insts) > 4 {
		v.Discard = true
		return
	}
	var worlds []*c06World
	for _, in := range cc.Insts {
		if len(in.Case.Reqs) == 0 || len(in.Case.Reqs) > 6 {
			v.Discard = true
			return
		}
		w := &c06World{c: in.Case, spans: map[int][]c06Span{}, holdSeed: in.HoldSeed, holdMax: c06Clamp(in.HoldMax, 0, 100)}
		if in.Case.Real {
			w.store = NewAuthgrantMapSync()
		}
		worlds = append(worlds, w)
	}
	done := make(chan string, 1)
	go func() {
		var res string
		defer func() {
			if r := recover(); r != nil {
				res = fmt.Sprint(r)
			}
			done <- res
		}()
		synctest.Test(t, func(*testing.T) {
			var wg sync.WaitGroup
			for i, w := range worlds {
				wg.Add(1)
				go func(w *c06World, start int) {
					defer wg.Done()
					time.Sleep(time.Duration(1 + c06Clamp(start, 0, 1000))) // the clock releases the instances: together, or a few ns apart
					w.scenario()
				}(w, cc.Insts[i].StartNs)
			}
			wg.Wait()
		})
	}()
	tm := time.NewTimer(120 * time.Second) // real-time watchdog
	defer tm.Stop()
	select {
	case res := <-done:
		if res != "" {
			v.Inconclusive = "bubble ended abnormally: " + res
			return
		}
	case <-tm.C:
		fmt.Fprintf(os.Stderr, "VERIF-MACHINERY C06: bubble hung in real time\n%s\n", c06AllStacks())
		os.Exit(3)
	}
	forwarded, held, sameStart := 0, false, false
	var keys []string
	for i, w := range worlds {
		w.drainStore()
		w.mu.Lock()
		evs := append([]c06Ev(nil), w.evs...)
		psig, pmsg := w.panicSig, w.panicMsg
		w.mu.Unlock()
		var sub vlib.Verdict
		c06Classify(w.c, evs, &sub)
		if psig != "" {
			sub.Failf(psig, "%s", pmsg)
		} else {
			c06Judge(w.c, evs, &sub)
		}
		for _, l := range sub.Labels {
			if strings.HasPrefix(l, "class:") || strings.HasPrefix(l, "answer:") || strings.HasPrefix(l, "variant:") || strings.HasPrefix(l, "store:") {
				v.Label(l)
			}
		}
		keys = append(keys, sub.Key)
		if len(sub.Violations) > 0 {
			x := sub.Violations[0]
			v.Failf(x.Sig+":concurrent-instances", "instance %d of %d principal instances running at the same time (start offsets and write holds: %s): %s", i, len(worlds), c06ConcShape(cc), x.Detail)
			return
		}
		for _, e := range evs {
			if e.Kind == "twrite" {
				forwarded++
				break
			}
		}
		if w.holdMax > 0 {
			held = true
		}
		for j := 0; j < i; j++ {
			if cc.Insts[j].StartNs == cc.Insts[i].StartNs {
				sameStart = true
			}
		}
	}
	v.Labelf("instances=%d", len(worlds))
	v.Labelf("instances-that-forwarded=%d", forwarded)
	if held {
		v.Label("writes-held")
	}
	if sameStart {
		v.Label("instances-with-the-same-start")
	}
	v.NonTrivial = forwarded >= 2
	v.Key = fmt.Sprintf("%s|%s", c06ConcShape(cc), strings.Join(keys, "||"))
}

func c06ConcShape(cc c06ConcCase) string {
	var p []string
	for _, in := range cc.Insts {
		p = append(p, fmt.Sprintf("+%dns/hold<=%dns", in.StartNs, in.HoldMax))
	}
	return strings.Join(p, " ")
}

func c06ConcGen(t *rapid.T) c06ConcCase {
	var cc c06ConcCase
	n := rapid.IntRange(2, 4).Draw(t, "instances")
	for i := 0; i < n; i++ {
		cc.Insts = append(cc.Insts, c06Inst{
			Case:     c06Gen(t),
			StartNs:  rapid.SampledFrom([]int{0, 0, 0, 1, 2, 3, 5, 9}).Draw(t, "start-offset"),
			HoldSeed: rapid.Uint64Range(0, 1<<20).Draw(t, "hold-seed"),
			HoldMax:  rapid.SampledFrom([]int{0, 1, 3, 3, 8, 8, 20}).Draw(t, "hold-max"),
		})
	}
	return cc
}

func TestVerifC06ConcurrentInstances(t *testing.T) {
	logrus.SetOutput(io.Discard)
	logrus.SetLevel(logrus.PanicLevel)
	c06SelfTest(t)
	quick := 12000
	if c06Race {
		quick = 1600
	}
	vlib.Drive(t, vlib.Spec[c06ConcCase]{ID: "C06", Quick: quick, Gen: c06ConcGen,
		Run: func(c c06ConcCase, v *vlib.Verdict) { c06ConcRun(t, c, v) }})
}
