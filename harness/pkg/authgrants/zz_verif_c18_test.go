package authgrants

// C18 — authorization-grant messages (intent request / communication,
// confirmation, denial) and the proxy messages round-trip; fields that do not
// fit their length prefix are rejected by the encoder; whatever the reader
// accepts re-encodes to something that decodes to the same value ("what a
// principal shows and approves is what the target receives"). Every decode is
// repeated with the same bytes delivered in pieces (wire.Delivery: short reads,
// (0, nil) results, end-of-stream reported with the last bytes) and must give
// the same result.

import (
	"bytes"
	"encoding/binary"
	"fmt"
	"io"
	"os"
	"strconv"
	"strings"
	"testing"
	"time"

	"github.com/sirupsen/logrus"
	"pgregory.net/rapid"
	"verif.local/vlib"
	"verif.local/vlib/wire"

	"hop.computer/hop/certs"
	"hop.computer/hop/core"
)

func init() { logrus.SetOutput(io.Discard) }

const (
	c18MaxLabel = 252 // certs.ErrNameTooLong
	c18MaxChunk = 512
	c18MaxStr   = 255 // one-byte length prefix of common.WriteString
)

type c18Name struct {
	Type int    `json:"t"`
	Len  int    `json:"n"`
	Seed uint64 `json:"s"`
}

func (n c18Name) value() certs.Name {
	return certs.Name{Type: certs.IDType(n.Type), Label: vlib.Fill(n.Seed, n.Len)}
}

type c18Cert struct {
	Version int       `json:"ver"`
	Type    int       `json:"type"`
	Issued  int64     `json:"iss"`
	Expires int64     `json:"exp"`
	Seed    uint64    `json:"seed"`
	Names   []c18Name `json:"names"`
}

type c18Intent struct {
	Msg      int     `json:"msg"` // 1 intent request, 2 intent communication
	Grant    int     `json:"grant"`
	Reserved int     `json:"rsv"`
	Port     int     `json:"port"`
	Start    int64   `json:"start"`
	Exp      int64   `json:"exp"`
	SNI      c18Name `json:"sni"`
	UserLen  int     `json:"ulen"`
	UserSeed uint64  `json:"useed"`
	Cert     c18Cert `json:"cert"`
	CmdLen   int     `json:"clen"` // only on the wire for grant type Command
	CmdSeed  uint64  `json:"cseed"`
	// how the bytes are handed to the reader the second time (zero value: in one piece only)
	Dlv wire.Delivery `json:"dlv"`
}

func (c c18Cert) fill(cert *certs.Certificate) {
	cert.Version = byte(c.Version)
	cert.Type = certs.CertificateType(c.Type)
	cert.IssuedAt = time.Unix(c.Issued, 0)
	cert.ExpiresAt = time.Unix(c.Expires, 0)
	copy(cert.PublicKey[:], vlib.Fill(c.Seed+1, certs.KeyLen))
	copy(cert.Parent[:], vlib.Fill(c.Seed+2, certs.SHA3Len))
	copy(cert.Signature[:], vlib.Fill(c.Seed+3, certs.SignatureLen))
	for _, n := range c.Names {
		cert.IDChunk.Blocks = append(cert.IDChunk.Blocks, n.value())
	}
}

func (c c18Intent) value() *Intent {
	i := &Intent{
		GrantType:      GrantType(c.Grant),
		Reserved:       byte(c.Reserved),
		TargetPort:     uint16(c.Port),
		StartTime:      time.Unix(c.Start, 0),
		ExpTime:        time.Unix(c.Exp, 0),
		TargetSNI:      c.SNI.value(),
		TargetUsername: wire.Text(c.UserSeed, c.UserLen),
	}
	c.Cert.fill(&i.DelegateCert)
	if GrantType(c.Grant) == Command {
		i.AssociatedData.CommandGrantData.Cmd = wire.Text(c.CmdSeed, c.CmdLen)
	}
	return i
}

func c18CertDiff(a, b *certs.Certificate) (string, string) {
	switch {
	case a.Version != b.Version:
		return "DelegateCert.Version", fmt.Sprintf("%d vs %d", a.Version, b.Version)
	case a.Type != b.Type:
		return "DelegateCert.Type", fmt.Sprintf("%d vs %d", a.Type, b.Type)
	case a.IssuedAt.Unix() != b.IssuedAt.Unix():
		return "DelegateCert.IssuedAt", fmt.Sprintf("%d vs %d", a.IssuedAt.Unix(), b.IssuedAt.Unix())
	case a.ExpiresAt.Unix() != b.ExpiresAt.Unix():
		return "DelegateCert.ExpiresAt", fmt.Sprintf("%d vs %d", a.ExpiresAt.Unix(), b.ExpiresAt.Unix())
	case a.PublicKey != b.PublicKey:
		return "DelegateCert.PublicKey", "differs"
	case a.Parent != b.Parent:
		return "DelegateCert.Parent", "differs"
	case a.Signature != b.Signature:
		return "DelegateCert.Signature", "differs"
	case len(a.IDChunk.Blocks) != len(b.IDChunk.Blocks):
		return "DelegateCert.IDChunk", fmt.Sprintf("%d names vs %d names", len(a.IDChunk.Blocks), len(b.IDChunk.Blocks))
	}
	for i := range a.IDChunk.Blocks {
		x, y := a.IDChunk.Blocks[i], b.IDChunk.Blocks[i]
		if x.Type != y.Type || !bytes.Equal(x.Label, y.Label) {
			return "DelegateCert.IDChunk", fmt.Sprintf("name %d: type %d/%d bytes vs type %d/%d bytes", i, x.Type, len(x.Label), y.Type, len(y.Label))
		}
		// certs.Name.IsZero: "When Label is []byte{} (0-length, non-nil), it does not count as zero" - an explicitly
		// empty name and the zero Name are different values although bytes.Equal cannot tell their labels apart
		if x.IsZero() != y.IsZero() {
			return "DelegateCert.IDChunk:IsZero", fmt.Sprintf("name %d: IsZero %v (label nil: %v) vs IsZero %v (label nil: %v)", i, x.IsZero(), x.Label == nil, y.IsZero(), y.Label == nil)
		}
	}
	return "", ""
}

// c18IntentDiff compares the wire fields of two intents ("" = equal).
func c18IntentDiff(a, b *Intent) (string, string) {
	switch {
	case a.GrantType != b.GrantType:
		return "GrantType", fmt.Sprintf("%d vs %d", a.GrantType, b.GrantType)
	case a.Reserved != b.Reserved:
		return "Reserved", fmt.Sprintf("%d vs %d", a.Reserved, b.Reserved)
	case a.TargetPort != b.TargetPort:
		return "TargetPort", fmt.Sprintf("%d vs %d", a.TargetPort, b.TargetPort)
	case a.StartTime.Unix() != b.StartTime.Unix():
		return "StartTime", fmt.Sprintf("%d vs %d", a.StartTime.Unix(), b.StartTime.Unix())
	case a.ExpTime.Unix() != b.ExpTime.Unix():
		return "ExpTime", fmt.Sprintf("%d vs %d", a.ExpTime.Unix(), b.ExpTime.Unix())
	case a.TargetSNI.Type != b.TargetSNI.Type || !bytes.Equal(a.TargetSNI.Label, b.TargetSNI.Label):
		return "TargetSNI", fmt.Sprintf("type %d/%d bytes vs type %d/%d bytes", a.TargetSNI.Type, len(a.TargetSNI.Label), b.TargetSNI.Type, len(b.TargetSNI.Label))
	case a.TargetSNI.IsZero() != b.TargetSNI.IsZero():
		// the explicitly empty raw name (non-nil zero-length label) is documented not to be the zero Name
		return "TargetSNI:IsZero", fmt.Sprintf("IsZero %v (label nil: %v) vs IsZero %v (label nil: %v)", a.TargetSNI.IsZero(), a.TargetSNI.Label == nil, b.TargetSNI.IsZero(), b.TargetSNI.Label == nil)
	case a.TargetUsername != b.TargetUsername:
		return "TargetUsername", fmt.Sprintf("%d bytes vs %d bytes", len(a.TargetUsername), len(b.TargetUsername))
	}
	if f, d := c18CertDiff(&a.DelegateCert, &b.DelegateCert); f != "" {
		return f, d
	}
	if a.GrantType == Command && a.AssociatedData.CommandGrantData.Cmd != b.AssociatedData.CommandGrantData.Cmd {
		return "Cmd", fmt.Sprintf("%d bytes %.40q vs %d bytes %.40q", len(a.AssociatedData.CommandGrantData.Cmd), a.AssociatedData.CommandGrantData.Cmd, len(b.AssociatedData.CommandGrantData.Cmd), b.AssociatedData.CommandGrantData.Cmd)
	}
	return "", ""
}

// c18IntentFits reports whether every field fits its length prefix; if not,
// codec names the encoder (in wire order) that had to refuse.
func c18IntentFits(i *Intent) (fits bool, why, codec string) {
	if len(i.TargetSNI.Label) > c18MaxLabel {
		return false, fmt.Sprintf("a %d-byte TargetSNI label (maximum %d)", len(i.TargetSNI.Label), c18MaxLabel), "certs.Name"
	}
	if len(i.TargetUsername) > c18MaxStr {
		return false, fmt.Sprintf("a %d-byte TargetUsername (one-byte length)", len(i.TargetUsername)), "common.WriteString"
	}
	chunk := 2
	for _, n := range i.DelegateCert.IDChunk.Blocks {
		chunk += 3 + len(n.Label)
		if len(n.Label) > c18MaxLabel {
			return false, fmt.Sprintf("a %d-byte certificate name (maximum %d)", len(n.Label), c18MaxLabel), "certs.Name"
		}
	}
	if chunk > c18MaxChunk {
		return false, fmt.Sprintf("a %d-byte id chunk (maximum %d)", chunk, c18MaxChunk), "certs.IDChunk"
	}
	if i.GrantType == Command && len(i.AssociatedData.CommandGrantData.Cmd) > c18MaxStr {
		return false, fmt.Sprintf("a %d-byte command (one-byte length)", len(i.AssociatedData.CommandGrantData.Cmd)), "common.WriteString"
	}
	return true, "", ""
}

func c18KnownGrant(g int) bool { return g >= 1 && g <= 5 }

func c18IntentClassify(c c18Intent, i *Intent, v *vlib.Verdict) {
	limit := wire.AtLimit(len(i.TargetSNI.Label)) || wire.AtLimit(len(i.TargetUsername)) || wire.AtLimit(len(i.AssociatedData.CommandGrantData.Cmd))
	chunk := 2
	for _, n := range i.DelegateCert.IDChunk.Blocks {
		chunk += 3 + len(n.Label)
		limit = limit || wire.AtLimit(len(n.Label))
	}
	limit = limit || wire.AtLimit(chunk)
	unknown := !c18KnownGrant(c.Grant) || c.SNI.Type > 3 || c.Cert.Type < 1 || c.Cert.Type > 3
	v.NonTrivial = limit || unknown
	switch c.Grant {
	case 1:
		v.Label("grant=shell")
	case 2:
		v.Label("grant=command")
	case 3, 4:
		v.Label("grant=localpf/remotepf")
	case 5:
		v.Label("grant=acme")
	default:
		v.Label("grant=unknown")
	}
	if limit {
		v.Label("field-at-limit")
	}
	if l := len(i.TargetUsername); l >= 255 {
		v.Labelf("user%s", map[bool]string{true: "=255", false: ">255"}[l == 255])
	}
	if i.GrantType == Command {
		if l := len(i.AssociatedData.CommandGrantData.Cmd); l >= 255 {
			v.Labelf("cmd%s", map[bool]string{true: "=255", false: ">255"}[l == 255])
		}
	}
}

// (A) intent request / communication through the public writers and readers.
func c18IntentRunA(c c18Intent, v *vlib.Verdict) {
	in := c.value()
	c18IntentClassify(c, in, v)
	fits, why, codec := c18IntentFits(in)
	write, read, name := WriteIntentRequest, ReadIntentRequest, "IntentRequest"
	if c.Msg == 2 {
		write, read, name = WriteIntentCommunication, ReadIntentCommunication, "IntentCommunication"
	}
	var buf bytes.Buffer
	var err error
	if vlib.Guard(v, func() { err = write(&buf, *in) }) {
		v.Label("encoder-panicked")
		return
	}
	if err != nil {
		v.Label("encoder-rejected")
		if fits {
			v.Failf("C18:encode-rejects-representable:authgrants."+name, "writer rejects a representable intent (grant %d): %v", c.Grant, err)
		}
		return
	}
	enc := append([]byte(nil), buf.Bytes()...)
	st := &wire.Stream{Data: enc, Sentinel: true, MaxSentinel: 1 << 20}
	var got Intent
	var derr error
	if vlib.Guard(v, func() { got, derr = read(st) }) {
		v.Label("decoder-panicked")
		return
	}
	field, detail := "", ""
	if derr == nil {
		field, detail = c18IntentDiff(in, &got)
	}
	if derr == nil && field == "" && st.Consumed == len(enc) {
		v.Label("round-trip-ok")
		if !fits {
			v.Label("beyond-assumed-limit-but-round-trips")
		}
		wire.Redeliver(v, "C18", "authgrants."+name, enc, true, c.Dlv, true, len(enc), func(st *wire.Stream) (string, string, error) {
			again, err := read(st)
			if err != nil {
				return "", "", err
			}
			f, d := c18IntentDiff(&got, &again)
			return f, d, nil
		})
		return
	}
	what := fmt.Sprintf("reader err=%v, first differing field %q (%s), consumed %d of %d bytes", derr, field, detail, st.Consumed, len(enc))
	switch {
	case !fits:
		v.Failf("C18:encode-accepted-misframed:"+codec, "Write%s accepted %s: %s", name, why, what)
	case derr != nil:
		v.Failf("C18:decode-rejects-own-encoding:authgrants."+name, "%s", what)
	case field != "":
		v.Failf("C18:roundtrip-mismatch:authgrants.Intent:"+field, "%s", what)
	default:
		v.Failf("C18:consumed-length:authgrants."+name, "%s", what)
	}
}

var c18Times = []int64{0, 1, 1<<31 - 1, 1 << 31, 1<<32 - 1, 1 << 32, 1700000000, 253402300799, 253402300800, 1<<62 - 1, 1 << 62}

func c18TimeGen(t *rapid.T, label string) int64 {
	if rapid.Bool().Draw(t, label+"-edge") {
		return rapid.SampledFrom(c18Times).Draw(t, label)
	}
	return rapid.Int64Range(0, 1<<62).Draw(t, label+"-any")
}

func c18LabelLen(t *rapid.T, label string) int {
	switch rapid.IntRange(0, 19).Draw(t, label+"-k") {
	case 0, 1, 2:
		return rapid.SampledFrom([]int{0, 1, 250, 251, 252, 252, 252}).Draw(t, label+"-edge")
	case 3: // does not fit a 256-byte id block
		return rapid.SampledFrom([]int{253, 253, 253, 254, 255, 256, 257, 511, 65536}).Draw(t, label+"-over")
	case 4, 5, 6, 7:
		return rapid.IntRange(0, 252).Draw(t, label+"-ok")
	default:
		return rapid.IntRange(0, 40).Draw(t, label+"-small")
	}
}

func c18StrLen(t *rapid.T, label string) int {
	switch rapid.IntRange(0, 19).Draw(t, label+"-k") {
	case 0, 1, 2, 3:
		return rapid.SampledFrom([]int{0, 1, 252, 253, 254, 255, 255, 255}).Draw(t, label+"-edge")
	case 4, 5: // does not fit a one-byte length
		return rapid.SampledFrom([]int{256, 256, 256, 257, 511, 512, 65535, 65536}).Draw(t, label+"-over")
	case 6, 7, 8, 9:
		return rapid.IntRange(0, 255).Draw(t, label+"-ok")
	default:
		return rapid.IntRange(0, 40).Draw(t, label+"-small")
	}
}

func c18EnumGen(t *rapid.T, label string, known []int) int {
	if rapid.Bool().Draw(t, label+"-known") {
		return rapid.SampledFrom(known).Draw(t, label)
	}
	return rapid.IntRange(0, 255).Draw(t, label+"-any")
}

func c18CertGen(t *rapid.T) c18Cert {
	c := c18Cert{
		Version: c18EnumGen(t, "cver", []int{1}),
		Type:    c18EnumGen(t, "ctype", []int{1, 2, 3}),
		Issued:  c18TimeGen(t, "ciss"),
		Expires: c18TimeGen(t, "cexp"),
		Seed:    rapid.Uint64().Draw(t, "cseed"),
	}
	n := rapid.IntRange(0, 3).Draw(t, "cnames")
	for k := 0; k < n; k++ {
		c.Names = append(c.Names, c18Name{Type: c18EnumGen(t, "cntype", []int{0, 1, 2, 3}), Len: c18LabelLen(t, "cnlen"), Seed: rapid.Uint64().Draw(t, "cnseed")})
	}
	return c
}

func c18IntentGen(t *rapid.T) c18Intent {
	return c18Intent{
		Msg:      rapid.IntRange(1, 2).Draw(t, "msg"),
		Grant:    c18EnumGen(t, "grant", []int{1, 1, 1, 2, 2, 2, 2, 2, 5, 5, 3, 4}),
		Reserved: rapid.SampledFrom([]int{0, 0, 1, 255}).Draw(t, "rsv"),
		Port:     rapid.SampledFrom([]int{0, 1, 22, 77, 255, 256, 0x1234, 65535}).Draw(t, "port"),
		Start:    c18TimeGen(t, "start"),
		Exp:      c18TimeGen(t, "exp"),
		SNI:      c18Name{Type: c18EnumGen(t, "snitype", []int{0, 1, 2, 3}), Len: c18LabelLen(t, "snilen"), Seed: rapid.Uint64().Draw(t, "sniseed")},
		UserLen:  c18StrLen(t, "ulen"),
		UserSeed: rapid.Uint64().Draw(t, "useed"),
		Cert:     c18CertGen(t),
		CmdLen:   c18StrLen(t, "clen"),
		CmdSeed:  rapid.Uint64().Draw(t, "cseed2"),
		Dlv:      wire.DrawDelivery(t),
	}
}

func TestVerifC18IntentEncDec(t *testing.T) {
	vlib.Drive(t, vlib.Spec[c18Intent]{ID: "C18", Quick: 30000, Gen: c18IntentGen, Run: c18IntentRunA})
}

// every grant type 0..255 x both message kinds x a few shapes
func TestVerifC18IntentGrantSweep(t *testing.T) {
	if vlib.ReplayEnumerated(t, "C18", c18IntentRunA) {
		return
	}
	rec := vlib.Open(t, "C18")
	i := 0
	for g := 0; g <= 255; g++ {
		for msg := 1; msg <= 2; msg++ {
			for _, shape := range [][3]int{{0, 0, 0}, {11, 4, 7}, {252, 255, 255}} {
				i++
				if !rec.Mine(i) {
					continue
				}
				c := c18Intent{Msg: msg, Grant: g, Port: 22, Start: 1700000000, Exp: 1700003600,
					SNI: c18Name{Type: 1, Len: shape[0], Seed: uint64(i)}, UserLen: shape[1], UserSeed: uint64(i) + 1,
					Cert:   c18Cert{Version: 1, Type: 1, Issued: 1700000000, Expires: 1800000000, Seed: uint64(i) + 2, Names: []c18Name{{Type: 0, Len: 8, Seed: 5}}},
					CmdLen: shape[2], CmdSeed: uint64(i) + 3, Dlv: wire.DeliveryFor(uint64(i))}
				if !vlib.Each(t, rec, c, c18IntentRunA) {
					return
				}
			}
		}
	}
	rec.SetExhaustive(true)
	rec.Extra("enumerated", "all 256 grant types x request/communication x 3 field-length shapes; delivery pattern cycled through wire.DeliveryFor")
}

// ---------------------------------------------------------------------------
// denial / confirmation / other message types through AgMessage

type c18Ag struct {
	Type int    `json:"type"` // message type byte 0..255 (3 confirmation, 4 denial; 1 and 2 are covered above)
	Len  int    `json:"len"`  // denial reason length
	Seed uint64 `json:"seed"`
	Dlv  wire.Delivery `json:"dlv"`
}

func c18AgRunA(c c18Ag, v *vlib.Verdict) {
	reason := wire.Text(c.Seed, c.Len)
	fits := c.Type != int(IntentDenied) || len(reason) <= c18MaxStr
	v.NonTrivial = c.Type == 0 || c.Type > 4 || (c.Type == 4 && wire.AtLimit(c.Len))
	switch c.Type {
	case 3:
		v.Label("confirmation")
	case 4:
		v.Label("denial")
		if c.Len >= 256 {
			v.Label("denial>=256")
		}
	default:
		v.Label("other-type")
	}
	var buf bytes.Buffer
	var err error
	if vlib.Guard(v, func() {
		switch c.Type {
		case 3:
			err = WriteIntentConfirmation(&buf)
		case 4:
			err = WriteIntentDenied(&buf, reason)
		default:
			m := AgMessage{MsgType: msgType(c.Type)}
			_, err = m.WriteTo(&buf)
		}
	}) {
		return
	}
	if err != nil {
		v.Label("encoder-rejected")
		if fits {
			v.Failf("C18:encode-rejects-representable:authgrants.AgMessage", "type %d, %d-byte reason: %v", c.Type, len(reason), err)
		}
		return
	}
	enc := append([]byte(nil), buf.Bytes()...)
	st := &wire.Stream{Data: enc, Sentinel: true, MaxSentinel: 1 << 20}
	var got AgMessage
	var derr error
	if vlib.Guard(v, func() {
		if c.Type == 3 || c.Type == 4 {
			got, derr = ReadConfOrDenial(st)
		} else {
			_, derr = got.ReadFrom(st)
		}
	}) {
		return
	}
	bad := ""
	switch {
	case derr != nil:
		bad = fmt.Sprintf("reader fails: %v", derr)
	case int(got.MsgType) != c.Type:
		bad = fmt.Sprintf("message type %d decodes as %d", c.Type, got.MsgType)
	case c.Type == 4 && got.Data.Denial != reason:
		bad = fmt.Sprintf("%d-byte denial reason decodes as %d bytes %.40q", len(reason), len(got.Data.Denial), got.Data.Denial)
	case st.Consumed != len(enc):
		bad = fmt.Sprintf("reader consumed %d of %d encoded bytes", st.Consumed, len(enc))
	}
	if bad == "" {
		wire.Redeliver(v, "C18", "authgrants.AgMessage", enc, true, c.Dlv, true, len(enc), func(st *wire.Stream) (string, string, error) {
			var again AgMessage
			var err error
			if c.Type == 3 || c.Type == 4 {
				again, err = ReadConfOrDenial(st)
			} else {
				_, err = again.ReadFrom(st)
			}
			if err != nil {
				return "", "", err
			}
			f, d := c18AgDiff(&got, &again)
			return f, d, nil
		})
		return
	}
	switch {
	case !fits:
		v.Failf("C18:encode-accepted-misframed:common.WriteString", "WriteIntentDenied accepted a %d-byte reason (one-byte length): %s", len(reason), bad)
	case derr != nil:
		v.Failf("C18:decode-rejects-own-encoding:authgrants.AgMessage", "%s", bad)
	case st.Consumed != len(enc) && int(got.MsgType) == c.Type && (c.Type != 4 || got.Data.Denial == reason):
		v.Failf("C18:consumed-length:authgrants.AgMessage", "%s", bad)
	default:
		v.Failf("C18:roundtrip-mismatch:authgrants.AgMessage:Denial", "%s", bad)
	}
}

func TestVerifC18AgMessageEncDec(t *testing.T) {
	vlib.Drive(t, vlib.Spec[c18Ag]{ID: "C18", Quick: 6000, Run: c18AgRunA, Gen: func(t *rapid.T) c18Ag {
		c := c18Ag{Type: c18EnumGen(t, "type", []int{3, 4, 4, 4}), Len: c18StrLen(t, "len"), Seed: rapid.Uint64().Draw(t, "seed"), Dlv: wire.DrawDelivery(t)}
		if c.Type == 1 || c.Type == 2 {
			c.Type = 4 // intent-carrying types are the subject of TestVerifC18IntentEncDec (a zero Intent has pre-1970 times)
		}
		return c
	}})
}

// ---------------------------------------------------------------------------
// (B) mutated AgMessage encodings

// c18HandEncodeIntent builds the AgMessage encoding of a representable intent
// by hand and lists the offsets of its length and enum fields.
func c18HandEncodeIntent(msg int, i *Intent) (enc []byte, fields []wire.Field) {
	f := func(w int) { fields = append(fields, wire.Field{Off: len(enc), Width: w}) }
	f(1)
	enc = append(enc, byte(msg))
	f(1)
	enc = append(enc, byte(i.GrantType), i.Reserved)
	enc = binary.BigEndian.AppendUint16(enc, i.TargetPort)
	enc = binary.BigEndian.AppendUint64(enc, uint64(i.StartTime.Unix()))
	enc = binary.BigEndian.AppendUint64(enc, uint64(i.ExpTime.Unix()))
	name := func(n certs.Name) {
		f(1)
		f(1) // block size: listed twice so that mutations pick it more often
		enc = append(enc, byte(3+len(n.Label)))
		f(1)
		enc = append(enc, byte(n.Type))
		f(1)
		enc = append(enc, byte(len(n.Label)))
		enc = append(enc, n.Label...)
	}
	name(i.TargetSNI)
	f(1)
	enc = append(enc, byte(len(i.TargetUsername)))
	enc = append(enc, i.TargetUsername...)
	c := &i.DelegateCert
	enc = append(enc, c.Version)
	f(1)
	enc = append(enc, byte(c.Type))
	f(2) // reserved
	enc = append(enc, 0, 0)
	enc = binary.BigEndian.AppendUint64(enc, uint64(c.IssuedAt.Unix()))
	enc = binary.BigEndian.AppendUint64(enc, uint64(c.ExpiresAt.Unix()))
	enc = append(enc, c.PublicKey[:]...)
	enc = append(enc, c.Parent[:]...)
	chunk := 2
	for _, n := range c.IDChunk.Blocks {
		chunk += 3 + len(n.Label)
	}
	f(2)
	f(2)
	enc = binary.BigEndian.AppendUint16(enc, uint16(chunk))
	for _, n := range c.IDChunk.Blocks {
		name(n)
	}
	enc = append(enc, c.Signature[:]...)
	if i.GrantType == Command {
		f(1)
		enc = append(enc, byte(len(i.AssociatedData.CommandGrantData.Cmd)))
		enc = append(enc, i.AssociatedData.CommandGrantData.Cmd...)
	}
	return
}

// c18FitIntent clamps a generated intent into the representable range.
func c18FitIntent(c *c18Intent) {
	if c.SNI.Len > c18MaxLabel {
		c.SNI.Len = c18MaxLabel
	}
	if c.UserLen > c18MaxStr {
		c.UserLen = c18MaxStr
	}
	if c.CmdLen > c18MaxStr {
		c.CmdLen = c18MaxStr
	}
	total := 2
	var keep []c18Name
	for _, n := range c.Cert.Names {
		if n.Len > c18MaxLabel {
			n.Len = c18MaxLabel
		}
		if total+3+n.Len > c18MaxChunk {
			break
		}
		total += 3 + n.Len
		keep = append(keep, n)
	}
	c.Cert.Names = keep
}

type c18AgB struct {
	Base c18Intent  `json:"base"`
	Deny int        `json:"deny"` // >= 0: base message is a denial with a reason of this length instead of an intent
	Muts []wire.Mut `json:"muts"`
}

// c18AgBase returns the valid encoding the mutations start from.
func c18AgBase(c c18AgB) (enc []byte, fields []wire.Field, intent *Intent) {
	if c.Deny >= 0 {
		n := c.Deny
		if n > c18MaxStr {
			n = c18MaxStr
		}
		enc = append([]byte{byte(IntentDenied), byte(n)}, wire.Text(c.Base.UserSeed, n)...)
		return enc, []wire.Field{{Off: 0, Width: 1}, {Off: 1, Width: 1}}, nil
	}
	base := c.Base
	c18FitIntent(&base)
	intent = base.value()
	enc, fields = c18HandEncodeIntent(base.Msg, intent)
	return
}

func c18AgDiff(a, b *AgMessage) (string, string) {
	if a.MsgType != b.MsgType {
		return "MsgType", fmt.Sprintf("%d vs %d", a.MsgType, b.MsgType)
	}
	switch a.MsgType {
	case IntentRequest, IntentCommunication:
		return c18IntentDiff(&a.Data.Intent, &b.Data.Intent)
	case IntentDenied:
		if a.Data.Denial != b.Data.Denial {
			return "Denial", fmt.Sprintf("%d bytes vs %d bytes", len(a.Data.Denial), len(b.Data.Denial))
		}
	}
	return "", ""
}

func c18AgRunB(c c18AgB, v *vlib.Verdict) {
	enc, fields, intent := c18AgBase(c)
	in := wire.Mutate(enc, fields, c.Muts, 0)
	if len(c.Muts) != 0 {
		intent = nil
	}
	c18AgBytesB(in, intent, c.Base.Dlv, v)
}

// c18AgBytesB is the decode -> encode -> decode oracle on raw bytes. intent,
// when not nil, is the value the bytes were built from by hand (unmutated).
// dlv: the delivery pattern under which the bytes are decoded once more.
func c18AgBytesB(in []byte, intent *Intent, dlv wire.Delivery, v *vlib.Verdict) {
	st := &wire.Stream{Data: in}
	var val AgMessage
	var err error
	if vlib.Guard(v, func() { _, err = val.ReadFrom(st) }) {
		v.Label("decoder-panicked")
		return
	}
	wire.Redeliver(v, "C18", "authgrants.AgMessage", in, false, dlv, err == nil, st.Consumed, func(st *wire.Stream) (string, string, error) {
		var again AgMessage
		if _, err := again.ReadFrom(st); err != nil {
			return "", "", err
		}
		f, d := c18AgDiff(&val, &again)
		return f, d, nil
	})
	if !v.OK() {
		return
	}
	if intent != nil {
		// self-check of the hand-built encoding against the real reader
		if err != nil {
			v.Failf("C18:decode-rejects-valid-encoding:authgrants.AgMessage", "ReadFrom rejects a hand-built valid intent message (grant %d): %v", intent.GrantType, err)
			return
		}
		if f, d := c18IntentDiff(intent, &val.Data.Intent); f != "" {
			v.Failf("C18:roundtrip-mismatch:authgrants.Intent:"+f, "hand-built valid encoding decodes differently: %s", d)
			return
		}
	}
	if err != nil {
		v.Label("decoder-rejected")
		return
	}
	v.Labelf("decoder-accepted:type=%s", c18MsgName(int(val.MsgType)))
	var buf bytes.Buffer
	var werr error
	if vlib.Guard(v, func() { _, werr = val.WriteTo(&buf) }) {
		v.Label("re-encode-panicked")
		return
	}
	if werr != nil {
		v.Label("re-encode-rejected")
		v.NonTrivial = true
		return
	}
	re := append([]byte(nil), buf.Bytes()...)
	if st.Consumed > len(in) || !bytes.Equal(re, in[:st.Consumed]) {
		v.NonTrivial = true
		v.Label("accepted-non-canonical")
	} else {
		v.Label("accepted-canonical")
	}
	var val2 AgMessage
	var err2 error
	if vlib.Guard(v, func() { _, err2 = val2.ReadFrom(&wire.Stream{Data: re}) }) {
		return
	}
	if err2 != nil {
		v.Failf("C18:redecode-fails:authgrants.AgMessage", "ReadFrom accepted %d bytes as message type %d; its re-encoding (%d bytes) is rejected: %v", len(in), val.MsgType, len(re), err2)
		return
	}
	if f, d := c18AgDiff(&val, &val2); f != "" {
		v.Failf("C18:reencode-changes-value:authgrants.AgMessage:"+f, "decode(encode(decode(b))) differs from decode(b): %s", d)
	}
}

func c18MsgName(t int) string {
	switch t {
	case 1:
		return "request"
	case 2:
		return "communication"
	case 3:
		return "confirmation"
	case 4:
		return "denial"
	}
	return "other"
}

func c18AgBGen(t *rapid.T) c18AgB {
	c := c18AgB{Deny: -1}
	if rapid.IntRange(0, 7).Draw(t, "denial") == 0 {
		c.Deny = c18StrLen(t, "dlen")
		c.Base.UserSeed = rapid.Uint64().Draw(t, "dseed")
		c.Base.Dlv = wire.DrawDelivery(t)
	} else {
		c.Base = c18IntentGen(t)
		// grant types whose readers panic are an open finding of their own; keep most of the budget on the others
		if (c.Base.Grant == 3 || c.Base.Grant == 4) && rapid.IntRange(0, 3).Draw(t, "keeppf") != 0 {
			c.Base.Grant = 2
		}
	}
	if rapid.Bool().Draw(t, "trailing") {
		c.Muts = append(c.Muts, wire.Mut{Op: 2, A: rapid.Uint64().Draw(t, "tseed"), B: rapid.SampledFrom([]int{1, 2, 64, 300}).Draw(t, "tn")})
	}
	if c.Deny < 0 && rapid.IntRange(0, 2).Draw(t, "aimed") == 0 {
		// edits that readers are known to tolerate (field order of c18HandEncodeIntent): a TargetSNI or certificate-name
		// block size larger than its label needs, non-zero reserved bytes of the certificate, a chunk length one short
		aim := rapid.SampledFrom([][2]int{{2, 3}, {2, 4}, {8, 3}, {8, 5}, {9, 2}, {11, 3}, {11, 4}}).Draw(t, "aim")
		c.Muts = append(c.Muts, wire.Mut{Op: 0, A: uint64(aim[0]), B: aim[1]})
	}
	c.Muts = append(c.Muts, wire.GenMuts(t, 0, 3)...)
	return c
}

func TestVerifC18AgMessageDecEncDec(t *testing.T) {
	vlib.Drive(t, vlib.Spec[c18AgB]{ID: "C18", Quick: 24000, Gen: c18AgBGen, Run: c18AgRunB})
}

// ---------------------------------------------------------------------------
// proxy messages

type c18Proxy struct {
	Kind     int    `json:"kind"` // 0 target info, 1 failure, 2 confirmation, 3 unreliable proxy id
	UserLen  int    `json:"ulen"`
	HostLen  int    `json:"hlen"`
	Port     int    `json:"port"` // -1: none
	Seed     uint64 `json:"seed"`
	ID       int    `json:"id"`
	ReasonLn int    `json:"rlen"`
	Dlv      wire.Delivery `json:"dlv"`
}

func c18Host(seed uint64, n int) string {
	// DNS-like: alphanumeric labels of up to 20 bytes joined by dots
	s := []byte(strings.ToLower(wire.Text(seed, n)))
	for k := 20; k < len(s)-1; k += 21 {
		s[k] = '.'
	}
	return string(s)
}

func c18ProxyRun(c c18Proxy, v *vlib.Verdict) {
	var buf bytes.Buffer
	switch c.Kind {
	case 0:
		u := core.URL{User: wire.Text(c.Seed, c.UserLen), Host: c18Host(c.Seed+1, c.HostLen)}
		if c.Port >= 0 {
			u.Port = strconv.Itoa(c.Port)
		}
		text := u.String()
		fits := len(text) <= c18MaxStr
		v.NonTrivial = wire.AtLimit(len(text))
		v.Label("targetinfo")
		if !fits {
			v.Label("targetinfo>255")
		}
		var err error
		if vlib.Guard(v, func() { err = WriteTargetInfo(u, &buf) }) {
			return
		}
		if err != nil {
			v.Label("encoder-rejected")
			if fits {
				v.Failf("C18:encode-rejects-representable:authgrants.TargetInfo", "%d-byte URL: %v", len(text), err)
			}
			return
		}
		enc := append([]byte(nil), buf.Bytes()...)
		st := &wire.Stream{Data: enc, Sentinel: true, MaxSentinel: 1 << 20}
		var got *core.URL
		var derr error
		if vlib.Guard(v, func() { got, derr = ReadTargetInfo(st) }) {
			return
		}
		ok := derr == nil && got != nil && *got == u && st.Consumed == len(enc)
		if ok {
			wire.Redeliver(v, "C18", "authgrants.TargetInfo", enc, true, c.Dlv, true, len(enc), func(st *wire.Stream) (string, string, error) {
				again, err := ReadTargetInfo(st)
				if err == nil && (again == nil || *again != *got) {
					return "URL", fmt.Sprintf("%v instead of %v", again, got), nil
				}
				return "", "", err
			})
			return
		}
		what := fmt.Sprintf("ReadTargetInfo err=%v value=%v consumed %d of %d bytes", derr, got, st.Consumed, len(enc))
		if !fits {
			v.Failf("C18:encode-accepted-misframed:common.WriteString", "WriteTargetInfo accepted a %d-byte URL (one-byte length): %s", len(text), what)
		} else if derr != nil {
			v.Failf("C18:decode-rejects-own-encoding:authgrants.TargetInfo", "url %q: %s", text, what)
		} else if got == nil || *got != u {
			v.Failf("C18:roundtrip-mismatch:authgrants.TargetInfo:URL", "url %q: %s", text, what)
		} else {
			v.Failf("C18:consumed-length:authgrants.TargetInfo", "%s", what)
		}
	case 1, 2:
		reason := wire.Text(c.Seed, c.ReasonLn)
		if c.Kind == 1 && reason == "" {
			reason = "x" // ReadResponse reports a failure as an error carrying the reason; an empty reason would be an empty error text
		}
		fits := c.Kind == 2 || len(reason) <= c18MaxStr
		v.NonTrivial = c.Kind == 1 && wire.AtLimit(len(reason))
		v.Label(map[int]string{1: "proxy-failure", 2: "proxy-confirmation"}[c.Kind])
		var err error
		if vlib.Guard(v, func() {
			if c.Kind == 1 {
				err = WriteFailure(&buf, reason)
			} else {
				err = WriteConfirmation(&buf)
			}
		}) {
			return
		}
		if err != nil {
			v.Label("encoder-rejected")
			if fits {
				v.Failf("C18:encode-rejects-representable:authgrants.ProxyResponse", "%d-byte reason: %v", len(reason), err)
			}
			return
		}
		enc := append([]byte(nil), buf.Bytes()...)
		st := &wire.Stream{Data: enc, Sentinel: true, MaxSentinel: 1 << 20}
		var rerr error
		if vlib.Guard(v, func() { rerr = ReadResponse(st) }) {
			return
		}
		var ok bool
		if c.Kind == 2 {
			ok = rerr == nil
		} else {
			ok = rerr != nil && rerr.Error() == reason
		}
		ok = ok && st.Consumed == len(enc)
		if ok {
			// ReadResponse reports a failure message as an error that carries the reason: the "value" is the error text
			wire.Redeliver(v, "C18", "authgrants.ProxyResponse", enc, true, c.Dlv, true, len(enc), func(st *wire.Stream) (string, string, error) {
				again := ReadResponse(st)
				if fmt.Sprint(again) != fmt.Sprint(rerr) {
					return "response", fmt.Sprintf("%.60q instead of %.60q", fmt.Sprint(again), fmt.Sprint(rerr)), nil
				}
				return "", "", nil
			})
			return
		}
		what := fmt.Sprintf("ReadResponse returned %.60q, consumed %d of %d bytes", fmt.Sprint(rerr), st.Consumed, len(enc))
		if !fits {
			v.Failf("C18:encode-accepted-misframed:common.WriteString", "WriteFailure accepted a %d-byte reason (one-byte length): %s", len(reason), what)
		} else {
			v.Failf("C18:roundtrip-mismatch:authgrants.ProxyResponse", "kind %d, %d-byte reason: %s", c.Kind, len(reason), what)
		}
	default:
		v.Label("proxy-id")
		v.NonTrivial = true
		var err error
		if vlib.Guard(v, func() { err = WriteUnreliableProxyID(&buf, byte(c.ID)) }) {
			return
		}
		if err != nil {
			v.Failf("C18:encode-rejects-representable:authgrants.ProxyID", "%v", err)
			return
		}
		st := &wire.Stream{Data: append([]byte(nil), buf.Bytes()...), Sentinel: true, MaxSentinel: 1 << 20}
		var id byte
		var derr error
		if vlib.Guard(v, func() { id, derr = ReadUnreliableProxyID(st) }) {
			return
		}
		if derr != nil || int(id) != c.ID&0xFF || st.Consumed != buf.Len() {
			v.Failf("C18:roundtrip-mismatch:authgrants.ProxyID", "id %d reads as %d (err=%v), consumed %d of %d", c.ID, id, derr, st.Consumed, buf.Len())
			return
		}
		wire.Redeliver(v, "C18", "authgrants.ProxyID", st.Data, true, c.Dlv, true, len(st.Data), func(st *wire.Stream) (string, string, error) {
			again, err := ReadUnreliableProxyID(st)
			if err == nil && again != id {
				return "id", fmt.Sprintf("%d instead of %d", again, id), nil
			}
			return "", "", err
		})
	}
}

func TestVerifC18ProxyMessages(t *testing.T) {
	vlib.Drive(t, vlib.Spec[c18Proxy]{ID: "C18", Quick: 6000, Run: c18ProxyRun, Gen: func(t *rapid.T) c18Proxy {
		c := c18Proxy{Kind: rapid.SampledFrom([]int{0, 0, 0, 1, 1, 2, 3}).Draw(t, "kind"), Seed: rapid.Uint64().Draw(t, "seed"), Port: -1, Dlv: wire.DrawDelivery(t)}
		switch c.Kind {
		case 0:
			c.UserLen = rapid.IntRange(0, 40).Draw(t, "ulen")
			// the URL is hop://user@host:port: aim the total at the one-byte limit
			if rapid.Bool().Draw(t, "aim") {
				total := rapid.SampledFrom([]int{252, 253, 254, 255, 256, 257, 300, 511, 512}).Draw(t, "total")
				c.Port = 22
				c.HostLen = total - len("hop://@:22") - c.UserLen
				if c.HostLen < 1 {
					c.HostLen = 1
				}
			} else {
				c.HostLen = rapid.IntRange(1, 60).Draw(t, "hlen")
				if rapid.Bool().Draw(t, "hasport") {
					c.Port = rapid.SampledFrom([]int{0, 1, 22, 77, 65535}).Draw(t, "port")
				}
			}
		case 1:
			c.ReasonLn = c18StrLen(t, "rlen")
		case 3:
			c.ID = rapid.IntRange(0, 255).Draw(t, "id")
		}
		return c
	}})
}

// FuzzVerifC18AgMessage: native fuzzing of the decode -> encode -> decode oracle
// (only does work when VERIF_FUZZ is set; thorough tier).
func FuzzVerifC18AgMessage(f *testing.F) {
	if os.Getenv("VERIF_FUZZ") == "" {
		f.Skip("native fuzzing runs in the thorough tier only")
	}
	for k := 0; k < 3; k++ {
		enc, _, _ := c18AgBase(c11dAgSweepBase(k))
		f.Add(enc)
	}
	f.Fuzz(func(t *testing.T, in []byte) {
		var v vlib.Verdict
		c18AgBytesB(in, nil, wire.DeliveryFor(wire.Hash64(in)), &v)
		for _, vi := range v.Violations {
			if !vlib.KnownOpen(vi.Sig) {
				t.Fatalf("VERIF-VIOLATION sig=%s detail=%s", vi.Sig, vi.Detail)
			}
		}
	})
}
